//! Demonstration for the property "static checking accepts exactly the
//! dimensionally consistent programs".
//!
//! Every program below comes in two spellings that differ ONLY in the name of
//! the type parameter (`D` vs. `T0`). The name of a type parameter must not
//! influence the accept/reject decision, the inferred types or the output.

use std::sync::{Arc, Mutex};

use numbat::module_importer::BuiltinModuleImporter;
use numbat::resolver::CodeSource;
use numbat::{Context, InterpreterSettings};

fn context() -> Context {
    Context::use_test_exchange_rates();
    let mut ctx = Context::new(BuiltinModuleImporter::default());
    let _ = ctx
        .interpret("use prelude", CodeSource::Internal)
        .expect("prelude loads");
    ctx
}

/// Runs `code` as one input. Returns (accepted?, printed lines).
fn run(ctx: &mut Context, code: &str) -> (bool, Vec<String>) {
    let printed = Arc::new(Mutex::new(Vec::<String>::new()));
    let sink = printed.clone();
    let mut settings = InterpreterSettings {
        print_fn: Box::new(move |m| {
            sink.lock().unwrap().push(m.to_string().trim().to_string());
        }),
    };
    let result = ctx.interpret_with_settings(&mut settings, code, CodeSource::Text);
    let ok = result.is_ok();
    let lines = printed.lock().unwrap().clone();
    (ok, lines)
}

const CONSISTENT: &str = "
fn pick<TP: Dim>(x: TP, len: Length) -> TP = if len > 0 then x else -x
print(pick(3 s, 1 m))
";

const INCONSISTENT: &str = "
print(\"before\")
fn shift<TP: Dim>(x: TP) -> TP = x + (0 + 2 m)
print(shift(1 m))
";

#[test]
fn consistent_generic_program_is_accepted_for_any_type_parameter_name() {
    for name in ["D", "T0"] {
        let mut ctx = context();
        let code = CONSISTENT.replace("TP", name);
        let (ok, lines) = run(&mut ctx, &code);
        assert!(
            ok,
            "well-dimensioned program rejected with type parameter name {name}:\n{code}"
        );
        assert_eq!(lines, vec!["3 s".to_string()], "type parameter name {name}");
    }
}

#[test]
fn inconsistent_generic_program_is_rejected_as_a_whole_for_any_type_parameter_name() {
    // `x + (0 + 2 m)` requires the arbitrary dimension of `x` to equal Length.
    for name in ["D", "T0"] {
        let mut ctx = context();
        let code = INCONSISTENT.replace("TP", name);
        let (ok, lines) = run(&mut ctx, &code);
        assert!(
            !ok,
            "mis-dimensioned program accepted with type parameter name {name}:\n{code}\nprinted: {lines:?}"
        );
        assert!(lines.is_empty(), "rejected input must print nothing: {lines:?}");
        // ... and must define nothing
        let (ok, _) = run(&mut ctx, "shift(1 m)");
        assert!(!ok, "rejected input must not define `shift`");
    }
}

#[test]
fn inferred_signature_does_not_depend_on_type_parameter_name() {
    let mut seen = vec![];
    for name in ["D", "T0"] {
        let mut ctx = context();
        let code = format!(
            "fn pick<{name}: Dim>(x: {name}, len: Length) -> {name} = if len > 0 then x else -x"
        );
        let (ok, _) = run(&mut ctx, &code);
        assert!(ok);
        // a generic function accepts arguments of any dimension
        let (ok_time, _) = run(&mut ctx, "pick(1 s, 1 m)");
        let (ok_mass, _) = run(&mut ctx, "pick(1 kg, 1 m)");
        seen.push((ok_time, ok_mass));
    }
    assert_eq!(seen[0], (true, true));
    assert_eq!(seen[0], seen[1]);
}
