#!/bin/sh
# Run from the worktree root (/tmp/wt/T2). Exit code 0 = property holds, non-zero = broken.
set -e
cp OUT/zz_demo.rs numbat/tests/zz_demo.rs
cargo test --offline -p numbat --test zz_demo
