#!/bin/bash
# Finding 5: the negation of a Celsius temperature is echoed as `-(2 °C)`, but `-(2 °C)` is read
# as `(-2) °C` (the "negative Celsius literal" sugar ignores the explicit parentheses).
N=${NUMBAT:-/repo/target/debug/numbat}
echo 'input: -from_celsius(2)      (= -(275.15 K))'
$N --pretty-print always --color never -e 'let t = -from_celsius(2)' -e 't' | grep -v '^$'
echo 're-reading the echo: -(2 °C)'
$N --pretty-print always --color never -e 'let t = -(2 °C)' -e 't' | grep -v '^$'
echo 'explicit parentheses are ignored as well (C10): 0 K + -(2 °C) vs. 0 K - 2 °C'
$N --color never -e '0 K + -(2 °C)'; $N --color never -e '0 K - 2 °C'
echo 'the sugar is purely name based; a parameter called "celsius" is never multiplied:'
$N --pretty-print always --color never -e 'fn twice(celsius) = 2 * celsius' -e 'twice(3)' | grep -v '^$'
