#!/bin/sh
# F72 (C15, known finding) — the echo chooses the temperature sugar by the callee's NAME.
N=${NUMBAT:-/repo/target/debug/numbat}
T=$(mktemp -d)
printf 'fn celsius(x) = x + 1\ncelsius(3)\n' > $T/a.nbt
$N --pretty-print always $T/a.nbt          # echoes `3 -> °C`, = 4
printf 'fn celsius(x) = x + 1\n3 -> °C\n' > $T/b.nbt
$N $T/b.nbt                                # the echo, read back: expected 'Temperature', got 'Scalar'
rm -rf $T
