#!/usr/bin/env python3
"""Witness inputs for the RECUR findings (C08): inputs on which the unchanged interpreter ABORTS with
`thread 'main' has overflowed its stack` (exit status 134, no diagnostic).

  python3 findings/recur_witnesses.py parens  > /tmp/w.nbt && numbat /tmp/w.nbt   # Parser level chain (20 functions)
  python3 findings/recur_witnesses.py chain   > /tmp/w.nbt && numbat /tmp/w.nbt   # ast::Expression::full_span on a left-deep tree
Observed with the debug build of the pinned tree (8 MiB main-thread stack): both abort.  `chain` parses iteratively
(parse_binop loops), so a nesting limit in the recursive descent alone would not repair it."""
import sys

kind = sys.argv[1] if len(sys.argv) > 1 else "parens"
if kind == "parens":
    n = 20000
    print("(" * n + "1" + ")" * n)
elif kind == "chain":
    print("+".join(["1"] * 100000))
else:
    sys.exit("unknown witness")
