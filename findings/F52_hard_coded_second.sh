#!/bin/sh
# Finding 4: the bytecode compiler hard-codes the unit name "second" for `DateTime - DateTime`.
N=${NUMBAT:-/repo/target/debug/numbat}

echo "== (a) well-typed program, no unit called 'second': the compiler panics (unwrap on None)"
"$N" --no-prelude -e 'dimension Time
unit sec: Time
fn now() -> DateTime
now() - now()' 2>&1 | head -3

echo "== (b) a unit called 'second' of another dimension: the difference (static type: Time) is a Length"
"$N" --no-prelude -e 'dimension Time
dimension Length
unit tick: Time
unit second: Length
fn now() -> DateTime
let d: Time = now() - now()
print(d)
print(d + 1 tick)' 2>&1 | head -12
