#!/bin/bash
# F2: errors raised while the VM is idle (failing `save`, history write failure, exchange rates)
N=${N:-/repo/target/debug/numbat}   # demonstration only (pre-fix binary); not used by any check
echo "== (a) failing save in a fresh --no-prelude session: panic, session lost"
printf 'save /nonexistent/x\nlet a = 1\na\n' | $N --no-prelude; echo "exit=$?"
echo "== (b) same after reset"
printf 'let a = 1\nreset\nsave /nonexistent/x\n1 + 1\n' | $N --no-prelude; echo "exit=$?"
echo "== (c) interactive --no-prelude session with an unwritable history file: panics on the first input"
printf 'let a = 1\n' | NUMBAT_HISTORY=/proc/nonexistent/history python3 repl.py --no-prelude
echo "== (d) with prelude: the diagnostic blames an unrelated source location"
printf 'save /nonexistent/x\n' | $N; echo "exit=$?"
printf 'fn f(x) = x + 1\nf(2)\nsave /nonexistent/x\n' | $N --no-prelude; echo "exit=$?"
echo "== (e) no network: numbat -e '2 USD'"
$N -e '2 USD'; echo "exit=$?"
