#!/bin/bash
# Finding 3: type/dimension expressions with a power of a power are echoed without parentheses;
# the echo is not accepted by the parser.
N=${NUMBAT:-/repo/target/debug/numbat}
for code in 'dimension X = (Length^(1/2))^2' 'let x: (Length^2)^(1/2) = 2 m' 'fn f(x: (Length^2)^3) = x'; do
  echo "input: $code"
  echo -n "echo:  "; $N --pretty-print always --color never -e "$code" | sed -n 2p | sed 's/^  //' | tee /tmp/f3_echo.txt
  echo "re-reading the echo:"
  $N --color never -e "$(cat /tmp/f3_echo.txt)" 2>&1 | head -6
  echo
done
