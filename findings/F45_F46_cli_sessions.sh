#!/bin/bash
HERE=$(cd $(dirname $0); pwd); cd $(mktemp -d)   # demonstration only; scratch files go to a temp dir
# F4: the "result" of a multi-statement input is the value of the last *expression statement*,
#     printed after everything else
N=${N:-/repo/target/debug/numbat}
echo "== joined (-e -e):"; $N -e '5 m' -e 'print("x")' -e 'let y = 1'; echo "exit=$?"
echo "== as a file:"; printf '5 m\nprint("x")\nlet y = 1\n' > f4.nbt; $N f4.nbt; echo "exit=$?"
echo "== one at a time (piped):"; printf '5 m\nprint("x")\nlet y = 1\n' | $N; echo "exit=$?"
echo "== two expressions joined: the first result is dropped"; $N -e '1 + 1' -e '2 + 2'
echo "== one at a time:"; printf '1 + 1\n2 + 2\n' | $N
echo "== interactive: value of statement 1 shown as result of the input, without its type"
printf '2 m\n2 m; let y = 1\n' | python3 $HERE/F46_repl_driver.py | grep -v '^$'
#!/bin/bash
# F5: REPL command words capture lines that are valid Numbat code
N=${N:-/repo/target/debug/numbat}
cat > f5.nbt <<'EOT'
let help = 2
help * 3
let list = [1, 2]
list
let reset = 5
reset
reset + help
let z = help + 1
EOT
echo "== as a file:"; $N f5.nbt; echo "exit=$?"
echo "== as -e:"; $N -e 'let help = 2' -e 'help * 3' -e 'let reset = 5' -e 'reset' -e 'reset + help' -e 'let z = help + 1'; echo "exit=$?"
echo "== one at a time (interactive REPL):"
python3 $HERE/F46_repl_driver.py < f5.nbt 2>&1 | grep -v '^$' | cut -c1-100 | grep -v '^  [a-zA-Z%µμ°]\S*  '
