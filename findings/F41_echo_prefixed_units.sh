#!/bin/bash
# Finding 4: a prefixed unit is echoed as <long prefix><canonical unit name>, even if the canonical
# name does not accept long prefixes -> the echo is an unknown identifier.
N=${NUMBAT:-/repo/target/debug/numbat}
for code in '5 Mbps -> kbps' '3 kLOC' $'@metric_prefixes\n@aliases(qq: short, q: none)\nunit q\n2 kqq'; do
  echo "input: $code"
  echo "echo + result:"; $N --pretty-print always --color never -e "$code" | grep -v '^$'
done
echo "re-reading the echo '5 megabps ➞ kilobps':"
$N --color never -e '5 megabps ➞ kilobps' 2>&1 | head -8
echo "re-reading the echo '3 kiloLOC':"
$N --color never -e '3 kiloLOC' 2>&1 | head -8
