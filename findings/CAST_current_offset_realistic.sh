#!/bin/sh
# Finding 1: jump offsets / patch positions are truncated to u16, so an `if` that is compiled
# after the <main> chunk has grown beyond 65535 bytes is mis-compiled.
# Usage: sh finding-1.sh   (run from /tmp/wt/K4; needs target/debug/numbat)
N=${NUMBAT:-/repo/target/debug/numbat}
D=$(mktemp -d)

# (a) one file: 16000 trivial statements (4 bytes of bytecode each), then two conditionals
python3 - > "$D/big.nbt" <<'PY'
print('\n'.join(['1'] * 16000))
print('print(if true then "T" else "F")')
print('print(if false then "T" else "F")')
print('print("end of file reached")')
PY
echo "== (a) file mode, expected output: T / F / end of file reached"
"$N" "$D/big.nbt"; echo "exit status: $?"

# (a') a few more statements: now the patch lands in earlier code and corrupts it
python3 - > "$D/big2.nbt" <<'PY'
print('\n'.join(['1'] * 17000))
print('print(if true then "T" else "F")')
PY
echo "== (a') 17000 statements, expected output: T"
"$N" "$D/big2.nbt" 2>&1 | head -8

# (b) piped session: after the first `if` nothing is ever evaluated again
python3 - > "$D/sess.txt" <<'PY'
print('\n'.join(['1'] * 16400))
print('if true then 111 else 222')
print('let t = 5')
print('t')
print('7 + 7')
print('print("still alive")')
PY
echo "== (b) session: expected last lines 111 / 5 / 14 / still alive; observed (non-'1' lines of the output):"
"$N" < "$D/sess.txt" 2>&1 | grep -v '^ *1$' | grep -v '^$'
echo "(end of session output)"
rm -rf "$D"
