#!/bin/bash
# Finding 4: `numbat --debug` (-d) cannot be used: the disassembler decodes FFICallFunction
# with 2 operands (Op::num_operands) although the compiler emits 3 (add_op3), gets out of
# sync and transmutes an operand byte into an `Op` (undefined behaviour; the debug build
# aborts with SIGABRT).  With the prelude this happens during start-up, for every input.
N=${NUMBAT:-/repo/target/debug/numbat}
D=$(mktemp -d)
echo "== numbat --debug -e 1"
"$N" --debug -e '1' > /dev/null 2> "$D/err.txt"; echo "exit status: $?"
grep -A1 "panicked" "$D/err.txt" | head -3
echo "== without prelude: wrong listing after the FFI call (should be: LoadConstant 1 / Add / Return)"
"$N" -N --debug -e 'fn len<A>(xs: List<A>) -> 1' -e 'len([1]) + 1' 2>&1 | sed -n '/^.CODE 0/,/^$/p'
rm -rf "$D"
