#!/bin/sh
# F68 (C15) — before 69fba9e the second line printed `Length^3 / Mass`, i.e. the echo of the echo differed from the echo.
N=${NUMBAT:-/repo/target/debug/numbat}
$N --pretty-print always -e 'let water = 1 / (1000 g/L)'
$N --pretty-print always -e 'let water: Length³ / Mass = 1 / (1000 gram / litre)'
$N --pretty-print always -e 'fn f(x) = 1/x'
$N --pretty-print always -e 'fn f<A: Dim>(x: A) -> A⁻¹ = 1 / x'
