#!/usr/bin/env python3
"""Drive the numbat REPL through a pseudo-terminal (so that it is in *interactive* mode,
where a failing input does not end the session).

usage: repl.py [numbat args ...] < lines.txt
Prints the transcript and finally "exit status: N".
"""
import os, pty, sys, time, select, re

NUMBAT = os.environ.get("NUMBAT", "/repo/target/debug/numbat")
PROMPT = b">>> "

def read_until_prompt(fd, timeout=20.0):
    buf = b""
    end = time.time() + timeout
    while time.time() < end:
        r, _, _ = select.select([fd], [], [], 0.2)
        if fd in r:
            try:
                chunk = os.read(fd, 65536)
            except OSError:
                return buf, True
            if not chunk:
                return buf, True
            buf += chunk
            if buf.endswith(PROMPT):
                # settle
                r2, _, _ = select.select([fd], [], [], 0.05)
                if not r2:
                    return buf, False
    return buf, False

def main():
    lines = sys.stdin.read().split("\n")
    if lines and lines[-1] == "":
        lines.pop()
    env = dict(os.environ)
    env["TERM"] = "dumb"
    env.setdefault("NUMBAT_HISTORY", "/tmp/wt/B5/OUT/home/history")
    pid, fd = pty.fork()
    if pid == 0:
        os.execvpe(NUMBAT, [NUMBAT, "--color", "never", "--intro-banner", "off"] + sys.argv[1:], env)
    out, eof = read_until_prompt(fd)
    transcript = out
    for line in lines:
        if eof:
            break
        os.write(fd, line.encode() + b"\n")
        out, eof = read_until_prompt(fd)
        transcript += out
    if not eof:
        os.write(fd, b"\x04")
        out, eof = read_until_prompt(fd, 3.0)
        transcript += out
    _, status = os.waitpid(pid, 0)
    text = transcript.decode("utf-8", "replace").replace("\r\n", "\n")
    text = re.sub(r"\x1b\[[0-9;?]*[A-Za-z]", "", text)
    sys.stdout.write(text)
    print("\nexit status:", os.waitstatus_to_exitcode(status))

main()
