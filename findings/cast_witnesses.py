#!/usr/bin/env python3
"""Generates the (large) witness inputs for the CAST known findings and runs them against a numbat binary.
usage: cast_witnesses.py <name>|all [path/to/numbat]      (names: see WITNESSES)"""
import subprocess
import sys
import tempfile

N = 65536
WITNESSES = {
    "factorial": lambda: "3" + "!" * N + "\n",
    "buildlist": lambda: "let x = 1\nlen([" + ", ".join(["x"] * N) + "])\n",  # prints 0 instead of 65536
    "constants": lambda: "len([" + ", ".join(["1"] * N) + "])\n",
    "upvalue": lambda: "\n".join(["let a0 = 1", "let a1 = 2"] + ["let a%d = a%d" % (i, i - 1) for i in range(2, N + 1)] + ["a%d" % N]) + "\n",  # prints 1, not 2
    "offset": lambda: "\n".join(["let x = 5"] + ["x"] * 16400 + ["if true then 111 else 222"]) + "\n",
    "fficallargs": lambda: "\n".join(["let x = 1"] + ["sin(x)"] * N) + "\n",
    "addstring": lambda: "\n".join(["let x = 1"] + ["type(x)"] * (N + 1)) + "\n",
    # slow ones (10-50 minutes in a debug build)
    "callargs": lambda: "let xx = 1\nlet yy = 9\nfn ffn(%s, qq) = p1\nffn(%s)\n" % (", ".join("p%d" % i for i in range(N)), ", ".join(["xx", "yy"] + ["xx"] * (N - 1))),
    "structidx": lambda: "\n".join("struct SSt%d { a: Scalar }" % i for i in range(N + 1)) + "\nlet xx = 1\nSSt%d { a: xx }\n" % N,  # prints SSt0 { a: 1 }
    "structfields": lambda: "let xx = 1\nlet yy = 9\nstruct SSt { %s }\nlet sst = SSt { %s }\nsst.f%d\n" % (", ".join("f%d: Scalar" % i for i in range(N + 1)), ", ".join(["f%d: xx" % i for i in range(N)] + ["f%d: yy" % N]), N),
    "functionidx": lambda: "let xx = 1\n" + "\n".join("fn ggn%d() = xx" % i for i in range(N + 1)) + "\nggn%d()\n" % N,
}
SLOW = {"upvalue", "callargs", "structidx", "functionidx"}

if __name__ == "__main__":
    which = sys.argv[1] if len(sys.argv) > 1 else "all"
    binary = sys.argv[2] if len(sys.argv) > 2 else "/repo/target/debug/numbat"
    for name, gen in WITNESSES.items():
        if which not in ("all", "fast", name) or (which in ("all", "fast") and name in SLOW and which != "all"):
            continue
        with tempfile.NamedTemporaryFile("w", suffix=".nbt", delete=False) as f:
            f.write(gen())
        p = subprocess.run([binary, f.name], capture_output=True, text=True)
        tail = [l for l in (p.stdout + p.stderr).splitlines() if l.strip() and not l.lstrip()[:1].isdigit()]
        print("==", name, "rc=%d" % p.returncode, "|", " / ".join(tail[-3:])[:300])
