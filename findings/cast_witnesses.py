#!/usr/bin/env python3
"""Generates the (large) witness inputs for the CAST known findings and runs them against a numbat binary.
usage: cast_witnesses.py <name>|all [path/to/numbat]      (names: see WITNESSES)"""
import subprocess
import sys
import tempfile

N = 65536
WITNESSES = {
    "factorial": lambda: "3" + "!" * N + "\n",
    "buildlist": lambda: "let x = 1\nlen([" + ", ".join(["x"] * N) + "])\n",  # prints 0 instead of 65536
    "constants": lambda: "len([" + ", ".join(["1"] * N) + "])\n",
    "upvalue": lambda: "\n".join(["let a0 = 1", "let a1 = 2"] + ["let a%d = a%d" % (i, i - 1) for i in range(2, N + 1)] + ["a%d" % N]) + "\n",  # prints 1, not 2
    "offset": lambda: "\n".join(["let x = 5"] + ["x"] * 16400 + ["if true then 111 else 222"]) + "\n",
    "fficallargs": lambda: "\n".join(["let x = 1"] + ["sin(x)"] * N) + "\n",
    "addstring": lambda: "\n".join(["let x = 1"] + ["type(x)"] * (N + 1)) + "\n",
}

if __name__ == "__main__":
    which = sys.argv[1] if len(sys.argv) > 1 else "all"
    binary = sys.argv[2] if len(sys.argv) > 2 else "/repo/target/debug/numbat"
    for name, gen in WITNESSES.items():
        if which not in ("all", name):
            continue
        with tempfile.NamedTemporaryFile("w", suffix=".nbt", delete=False) as f:
            f.write(gen())
        p = subprocess.run([binary, f.name], capture_output=True, text=True)
        tail = [l for l in (p.stdout + p.stderr).splitlines() if l.strip() and not l.lstrip()[:1].isdigit()]
        print("==", name, "rc=%d" % p.returncode, "|", " / ".join(tail[-3:])[:300])
