// F19 (C06): copy to numbat/tests/ and run `cargo test --offline -p numbat --test <name>`; fails before d8f72da, passes after.
use numbat::module_importer::BuiltinModuleImporter;
use numbat::resolver::CodeSource;
use numbat::Context;

#[test]
fn failing_input_with_currency_leaves_no_trace() {
    Context::use_test_exchange_rates();
    let mut ctx = Context::new(BuiltinModuleImporter::default());
    let _ = ctx.interpret("use prelude", CodeSource::Internal).unwrap();
    ctx.load_currency_module_on_demand(true);
    let n_units = ctx.unit_names().len();
    assert!(ctx.interpret("USD + 1 m", CodeSource::Text).is_err());
    assert_eq!(ctx.unit_names().len(), n_units);
    // a name of the currency module is still free (fails without the fix: "Identifier is already in use")
    let mut other = ctx.clone();
    assert!(other.interpret("let yen = 5", CodeSource::Text).is_ok());
    // and currencies still load on demand afterwards
    assert!(ctx.interpret("2 USD", CodeSource::Text).is_ok());
}
