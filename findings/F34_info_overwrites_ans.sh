#!/bin/bash
# F1: `info <variable>` silently overwrites ans / _
N=${N:-/repo/target/debug/numbat}   # demonstration only (pre-fix binary); not used by any check
echo "== session with 'info c' between the two inputs (piped REPL), then save"
printf '2 + 3\ninfo c\nans + 1\n' | $N; echo "exit=$?"
echo "== same session without the command"
printf '2 + 3\nans + 1\n' | $N; echo "exit=$?"
echo "== interactive: value changes, and the saved history replays differently"
printf '2 + 3\ninfo pi\nans * 2\nsave /tmp/wt/B5/OUT/f1-history.nbt\n' | python3 repl.py | grep -v '^$'
echo "== replay of the saved history:"; cat f1-history.nbt; $N f1-history.nbt; echo "exit=$?"
