use numbat::module_importer::BuiltinModuleImporter;
use numbat::resolver::CodeSource;
use numbat::{Context, InterpreterSettings};

#[test]
fn failing_input_with_import_leaves_session_unchanged() {
    let mut ctx = Context::new(BuiltinModuleImporter::default());
    let _ = ctx.interpret("use prelude", CodeSource::Internal).unwrap();
    // failing input that imports a module before failing at run time
    let r = ctx.interpret("use extra::algebra\n1/0", CodeSource::Text);
    assert!(r.is_err());
    // the import must still be possible with the same effect
    let r = ctx.interpret("use extra::algebra\nquadratic_equation(1, 0, -1)", CodeSource::Text);
    assert!(r.is_ok(), "second import defined nothing: {:?}", r.err().map(|e| e.to_string()));
}
