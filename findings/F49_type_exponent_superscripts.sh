#!/bin/sh
# Finding 4: inferred signatures with an exponent >= 10 are printed with
# multi-digit Unicode superscripts, which the tokenizer cannot read back.
N=${NUMBAT:-/repo/target/debug/numbat}
echo "== inferred signature as printed by the checker"
$N --pretty-print always -e 'fn f(x) = x^10'
$N --pretty-print always -e 'fn f12(x) = x^12'
$N --pretty-print always -e 'fn f3(x, y, z) = x^2 * y^3 + z^5'
echo "== writing the printed signatures back"
$N -e 'fn f<A: Dim>(x: A) -> A¹⁰ = x^10'
$N -e 'fn f12<A: Dim>(x: A) -> A¹² = x^12'
$N -e 'fn f3<A: Dim, B: Dim>(x: A⁵, y: B⁵, z: A² × B³) -> A¹⁰ × B¹⁵ = x² × y³ + z^5'
