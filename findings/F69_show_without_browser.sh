#!/bin/sh
# F69 (C08) — on a host without xdg-open / an HTML viewer; before fe42102 exit status 101 with
#   thread 'main' panicked at plotly-0.12.1/src/plot.rs: Could not find default application for HTML files.
${NUMBAT:-/repo/target/debug/numbat} -e 'bar_chart([1, 2]) |> show'
