#![cfg(feature = "html-formatter")]
use codespan_reporting::term::{self, Config};
use numbat::buffered_writer::BufferedWriter;
use numbat::diagnostic::ErrorDiagnostic;
use numbat::html_formatter::HtmlWriter;
use numbat::module_importer::BuiltinModuleImporter;
use numbat::resolver::CodeSource;
use numbat::Context;

#[test]
fn html_diagnostic_escapes_user_source() {
    let mut ctx = Context::new(BuiltinModuleImporter::default());
    let err = ctx
        .interpret("<img src=x onerror=alert(1)>", CodeSource::Text)
        .unwrap_err();
    let mut writer = HtmlWriter::new();
    let config = Config::default();
    let diags = match *err {
        numbat::NumbatError::ResolverError(e) => e.diagnostics(),
        numbat::NumbatError::NameResolutionError(e) => e.diagnostics(),
        numbat::NumbatError::TypeCheckError(e) => e.diagnostics(),
        numbat::NumbatError::RuntimeError(_) => panic!("expected a static error"),
    };
    for d in diags {
        term::emit(&mut writer, &config, &ctx.resolver().files, &d).unwrap();
    }
    let html = writer.to_string();
    assert!(!html.contains("<img"), "unescaped user markup in HTML output:\n{html}");
    assert!(html.contains("&lt;") && html.contains("alert(1)&gt;"), "{html}");
}
