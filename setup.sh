#!/bin/sh
# Build the fact-extraction driver (rustc_private, nightly, zero dependencies) and warm the
# dependency build + fact cache for the current tree. Offline.
set -e
DIR="$(cd "$(dirname "$0")" && pwd)"
export CARGO_NET_OFFLINE=true
cd "$DIR/engine/nbfacts"
cargo +nightly build --release --offline
cd "$DIR"
python3 engine/facts.py default
python3 engine/controls.py --build
