"""Rule result model shared by all rules."""
import os
import sys

sys.path.insert(0, os.path.dirname(os.path.abspath(__file__)))


class Finding:
    """One rule instance with its verdict.

    verdict: ok | violation | advisory | exempt
    key:     stable identity WITHOUT line numbers (rule:function:instance)
    """

    __slots__ = ("rule", "key", "file", "line", "verdict", "detail", "witness")

    def __init__(self, rule, key, file, line, verdict, detail="", witness=None):
        self.rule = rule
        self.key = key
        self.file = file
        self.line = line
        self.verdict = verdict
        self.detail = detail
        self.witness = witness

    def to_json(self):
        d = {
            "rule": self.rule,
            "key": self.key,
            "at": "%s:%s" % (self.file, self.line),
            "verdict": self.verdict,
            "detail": self.detail,
        }
        if self.witness:
            d["witness"] = self.witness
        return d


class RuleOut:
    def __init__(self, rule, clause=""):
        self.rule = rule
        self.clause = clause
        self.findings = []
        self.analysed = {}
        self.floors = []  # (name, actual, minimum)
        self.errors = []  # fail-closed messages (missing anchors, unrecognised idioms)

    def add(self, key, file, line, verdict, detail="", witness=None):
        f = Finding(self.rule, "%s:%s" % (self.rule, key), file, line, verdict, detail, witness)
        self.findings.append(f)
        return f

    def ok(self, key, file, line, detail=""):
        return self.add(key, file, line, "ok", detail)

    def violation(self, key, file, line, detail="", witness=None):
        return self.add(key, file, line, "violation", detail, witness)

    def advisory(self, key, file, line, detail=""):
        return self.add(key, file, line, "advisory", detail)

    def exempt(self, key, file, line, detail=""):
        return self.add(key, file, line, "exempt", detail)

    def floor(self, name, actual, minimum):
        self.floors.append((name, actual, minimum))

    def error(self, msg):
        self.errors.append(msg)

    def count(self, verdict):
        return sum(1 for f in self.findings if f.verdict == verdict)
