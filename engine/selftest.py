"""Thorough tier: (1) the rules of the property are also run on the `--no-default-features` configuration
(cfg twins); (2) every archived seeded change that targets the property (seeded/<id>/meta.json) is applied
to a scratch copy of /repo's *current* working tree and the property's rules must report a violation there —
a positive control of the checker itself.  A seed whose patch no longer applies (the tree moved on) is
skipped and counted; a seed that applies and is NOT reported fails the check (the checker lost its teeth)."""
import fcntl
import glob
import json
import os
import shutil
import subprocess
import tempfile

import facts

VERIF = facts.VERIF
SCRATCH = os.path.join(os.environ.get("TMPDIR", "/tmp"), "nbverif-selftest")


def _copy_tree(dst):
    shutil.rmtree(dst, ignore_errors=True)
    os.makedirs(dst)
    for name in ["Cargo.toml", "Cargo.lock", "numbat", "numbat-cli", "numbat-exchange-rates", "book/src/basics/operations.md"]:
        src = os.path.join(facts.REPO, name)
        if os.path.isdir(src):
            shutil.copytree(src, os.path.join(dst, name), ignore=shutil.ignore_patterns("target", ".git"))
        elif os.path.exists(src):
            os.makedirs(os.path.dirname(os.path.join(dst, name)), exist_ok=True)
            shutil.copy(src, os.path.join(dst, name))


def _run_rules(pid, spec, repo):
    from check import Ctx
    from core import RuleOut
    from hirlib import AnchorMissing

    ctx = Ctx("quick", repo=repo)
    n_viol = 0
    keys = []
    for rule_name, fn in spec["rules"]:
        if rule_name.endswith(".control"):
            continue
        try:
            res = fn(ctx)
        except AnchorMissing as e:
            n_viol += 1
            keys.append("anchor-missing:%s" % e)
            continue
        if isinstance(res, RuleOut):
            res = [res]
        for o in res:
            for f in o.findings:
                if f.verdict == "violation":
                    keys.append(f.key)
            n_viol += len(o.errors)
    return keys, n_viol


def run(pid, spec):
    result = {"variants": 0, "fired": 0, "skipped": 0, "detail": [], "errors": [], "extra_configs": []}
    known = set()
    kf = os.path.join(VERIF, "known_findings.json")
    if os.path.exists(kf):
        known = {k["key"] for k in json.load(open(kf))["findings"] if k.get("status") == "known" and k["property"] == pid}
    seeds = []
    for mpath in sorted(glob.glob(os.path.join(VERIF, "seeded", "*", "meta.json"))):
        meta = json.load(open(mpath))
        targets = [meta.get("property")] + meta.get("also_checked_by", [])
        if pid in targets:
            seeds.append((os.path.basename(os.path.dirname(mpath)), os.path.join(os.path.dirname(mpath), "patch.diff"), meta))
    if not seeds:
        return result
    os.makedirs(os.path.dirname(SCRATCH), exist_ok=True)
    with open(SCRATCH + ".lock", "w") as lk:
        fcntl.flock(lk, fcntl.LOCK_EX)
        try:
            for sid, patch, meta in seeds:
                result["variants"] += 1
                _copy_tree(SCRATCH)
                p = subprocess.run(["patch", "-p1", "--no-backup-if-mismatch", "-s", "-i", patch], cwd=SCRATCH, capture_output=True, text=True)
                if p.returncode != 0:
                    result["skipped"] += 1
                    result["detail"].append({"seed": sid, "status": "skipped: patch does not apply to the current tree"})
                    continue
                try:
                    keys, extra = _run_rules(pid, spec, SCRATCH)
                except SystemExit as e:
                    result["skipped"] += 1
                    result["detail"].append({"seed": sid, "status": "skipped: seeded tree does not build (%s)" % e})
                    continue
                new = [k for k in keys if k not in known]
                if new or extra:
                    result["fired"] += 1
                    result["detail"].append({"seed": sid, "status": "fired", "keys": new[:5]})
                else:
                    result["detail"].append({"seed": sid, "status": "MISSED"})
                    if meta.get("expect_caught", True):
                        result["errors"].append("positive control failed: seeded change %s (%s) is applied to a scratch copy of the tree but no rule of %s reports it" % (sid, meta.get("summary", "")[:120], pid))
        finally:
            shutil.rmtree(SCRATCH, ignore_errors=True)
    return result
