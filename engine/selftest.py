"""Thorough tier: (1) the rules of the property are also run on the `--no-default-features` configuration
(cfg twins); (2) every archived seeded change that targets the property (seeded/<id>/meta.json) is applied
to a scratch copy of /repo's *current* working tree and the property's rules must report a violation there —
a positive control of the checker itself.  A seed whose patch no longer applies (the tree moved on) is
skipped and counted; a seed that applies and is NOT reported fails the check (the checker lost its teeth)."""
import fcntl
import sys
import glob
import json
import os
import shutil
import subprocess
import tempfile

import facts

VERIF = facts.VERIF
SCRATCH = os.path.join(os.environ.get("TMPDIR", "/tmp"), "nbverif-selftest")


def _copy_tree(dst):
    shutil.rmtree(dst, ignore_errors=True)
    os.makedirs(dst)
    for name in ["Cargo.toml", "Cargo.lock", "numbat", "numbat-cli", "numbat-exchange-rates", "book/src/basics/operations.md", "book/src/basics/date-and-time.md"]:
        src = os.path.join(facts.REPO, name)
        if os.path.isdir(src):
            shutil.copytree(src, os.path.join(dst, name), ignore=shutil.ignore_patterns("target", ".git"))
        elif os.path.exists(src):
            os.makedirs(os.path.dirname(os.path.join(dst, name)), exist_ok=True)
            shutil.copy(src, os.path.join(dst, name))


def _run_rules(pid, spec, repo):
    from check import Ctx
    from core import RuleOut
    from hirlib import AnchorMissing

    ctx = Ctx("quick", repo=repo)
    n_viol = 0
    keys = []
    for rule_name, fn in spec["rules"]:
        if rule_name.endswith(".control"):
            continue
        try:
            res = fn(ctx)
        except AnchorMissing as e:
            n_viol += 1
            keys.append("anchor-missing:%s" % e)
            continue
        if isinstance(res, RuleOut):
            res = [res]
        for o in res:
            for f in o.findings:
                if f.verdict == "violation":
                    keys.append(f.key)
            n_viol += len(o.errors)
            for (name, actual, minimum) in o.floors:
                if actual < minimum:
                    n_viol += 1
                    keys.append("floor:%s:%s(%s<%s)" % (o.rule, name, actual, minimum))
    return keys, n_viol


def run(pid, spec):
    """Positive and negative controls of the checker for one property, on scratch copies of the CURRENT tree:
      seeded/<id>/      independently produced breaking changes  -> the rules must report a new violation
      mutations/<name>/ hand-written variants (expect: fire | silent)
      benign/<id>/      independently produced behaviour-preserving refactorings -> the rules must stay silent
    A patch that no longer applies is skipped and counted."""
    result = {"variants": 0, "fired": 0, "skipped": 0, "detail": [], "errors": [], "extra_configs": [],
              "benign_variants": 0, "benign_silent": 0}
    known = set()
    kf = os.path.join(VERIF, "known_findings.json")
    if os.path.exists(kf):
        known = {k["key"] for k in json.load(open(kf))["findings"] if k.get("status") == "known" and k["property"] == pid}
    cases = []  # (id, patch, meta, expect)
    for mpath in sorted(glob.glob(os.path.join(VERIF, "seeded", "*", "meta.json"))):
        meta = json.load(open(mpath))
        targets = [meta.get("property")] + meta.get("also_checked_by", [])
        if pid in targets:
            cases.append((os.path.basename(os.path.dirname(mpath)), os.path.join(os.path.dirname(mpath), "patch.diff"), meta, "fire"))
    for mpath in sorted(glob.glob(os.path.join(VERIF, "mutations", "*", "meta.json"))):
        meta = json.load(open(mpath))
        if meta.get("property") == pid:
            cases.append(("mutation:" + os.path.basename(os.path.dirname(mpath)), os.path.join(os.path.dirname(mpath), "patch.diff"), meta, meta.get("expect", "fire")))
    for mpath in sorted(glob.glob(os.path.join(VERIF, "benign", "*", "meta.json"))):
        meta = json.load(open(mpath))
        if pid in meta.get("properties", []):
            cases.append(("benign:" + os.path.basename(os.path.dirname(mpath)), os.path.join(os.path.dirname(mpath), "patch.diff"), meta, "silent"))
    if not cases:
        return result
    os.makedirs(os.path.dirname(SCRATCH), exist_ok=True)
    with open(SCRATCH + ".lock", "w") as lk:
        fcntl.flock(lk, fcntl.LOCK_EX)
        try:
            # violations of the unpatched tree (known findings and anything else the quick tier reports on its own)
            for sid, patch, meta, expect in cases:
                if expect == "fire":
                    result["variants"] += 1
                else:
                    result["benign_variants"] += 1
                _copy_tree(SCRATCH)
                p = subprocess.run(["patch", "-p1", "--no-backup-if-mismatch", "-s", "-i", patch], cwd=SCRATCH, capture_output=True, text=True)
                if p.returncode != 0:
                    result["skipped"] += 1
                    result["detail"].append({"seed": sid, "status": "skipped: patch does not apply to the current tree"})
                    continue
                try:
                    keys, extra = _run_rules(pid, spec, SCRATCH)
                except SystemExit as e:
                    result["skipped"] += 1
                    result["detail"].append({"seed": sid, "status": "skipped: patched tree does not build (%s)" % e})
                    continue
                new = [k for k in keys if k not in known]
                if expect == "fire":
                    want = meta.get("expect_key")
                    if want and not any(k.startswith(want) for k in new):
                        # the control names the rule that has to report it: another rule firing does not count
                        result["detail"].append({"seed": sid, "status": "MISSED by %s" % want, "keys": new[:5]})
                        result["errors"].append("positive control failed: change %s must be reported by %s*; reported: %s" % (sid, want, new[:3] or "nothing"))
                    elif new or extra:
                        result["fired"] += 1
                        result["detail"].append({"seed": sid, "status": "fired", "keys": new[:5]})
                    else:
                        result["detail"].append({"seed": sid, "status": "MISSED"})
                        if meta.get("expect_caught", True):
                            result["errors"].append("positive control failed: change %s (%s) is applied to a scratch copy of the tree but no rule of %s reports it" % (sid, meta.get("summary", "")[:120], pid))
                else:
                    if new or extra:
                        result["detail"].append({"seed": sid, "status": "FALSE ALARM", "keys": new[:5]})
                        result["errors"].append("negative control failed: behaviour-preserving change %s makes %s report %s" % (sid, pid, new[:3] or "a rule error"))
                    else:
                        result["benign_silent"] += 1
                        result["detail"].append({"seed": sid, "status": "silent"})
        finally:
            shutil.rmtree(SCRATCH, ignore_errors=True)
    return result


def try_patch(pid, patch):
    """development helper: apply `patch` to a scratch copy of /repo's tree and print what the rules of pid report"""
    import registry

    spec = registry.PROPERTIES[pid]
    os.makedirs(os.path.dirname(SCRATCH), exist_ok=True)
    with open(SCRATCH + ".lock", "w") as lk:
        fcntl.flock(lk, fcntl.LOCK_EX)
        try:
            _copy_tree(SCRATCH)
            p = subprocess.run(["patch", "-p1", "--no-backup-if-mismatch", "-s", "-i", os.path.abspath(patch)], cwd=SCRATCH, capture_output=True, text=True)
            if p.returncode != 0:
                print("patch does not apply:", p.stdout, p.stderr)
                return 3
            keys, extra = _run_rules(pid, spec, SCRATCH)
            print("%s on %s: %d violation key(s), %d rule error(s)" % (pid, os.path.basename(patch), len(keys), extra))
            for k in keys:
                print("  ", k)
            return 0
        finally:
            shutil.rmtree(SCRATCH, ignore_errors=True)


def try_all(patches):
    """development helper: every property's rules on scratch copies of the tree with each patch applied, facts loaded
    once per patch.  Prints the new (not known) violation keys per property."""
    import registry

    known = set()
    kf = os.path.join(VERIF, "known_findings.json")
    if os.path.exists(kf):
        known = {k["key"] for k in json.load(open(kf))["findings"] if k.get("status") == "known"}
    os.makedirs(os.path.dirname(SCRATCH), exist_ok=True)
    rc = 0
    with open(SCRATCH + ".lock", "w") as lk:
        fcntl.flock(lk, fcntl.LOCK_EX)
        try:
            for patch in patches:
                _copy_tree(SCRATCH)
                p = subprocess.run(["patch", "-p1", "--no-backup-if-mismatch", "-s", "-i", os.path.abspath(patch)], cwd=SCRATCH, capture_output=True, text=True)
                if p.returncode != 0:
                    print("%s: patch does not apply" % patch)
                    rc = 3
                    continue
                facts._loaded.clear()
                bad = {}
                for pid, spec in sorted(registry.PROPERTIES.items()):
                    try:
                        keys, extra = _run_rules(pid, spec, SCRATCH)
                    except SystemExit as e:
                        bad[pid] = ["does not build: %s" % e]
                        break
                    new = [k for k in keys if k not in known]
                    if new or extra:
                        bad[pid] = new or ["rule error"]
                if bad:
                    rc = 1
                    print("%s: REPORTS %s" % (patch, json.dumps(bad)[:1500]))
                else:
                    print("%s: all %d properties silent" % (patch, len(registry.PROPERTIES)))
                sys.stdout.flush()
        finally:
            shutil.rmtree(SCRATCH, ignore_errors=True)
    return rc


if __name__ == "__main__":
    import sys

    sys.path.insert(0, os.path.join(os.path.dirname(os.path.abspath(__file__)), "rules"))
    if sys.argv[1] == "--all":
        sys.exit(try_all(sys.argv[2:]))
    sys.exit(try_patch(sys.argv[1], sys.argv[2]))
