"""Fact production and loading.

`get_facts(config)` returns the resolved-program facts of /repo's *current
working tree*: the tree's content hash is the cache key, and on a miss the
rustc_private driver (engine/nbfacts) is run under `cargo +nightly check` with
the workspace members' fingerprints removed (cargo would otherwise skip the
wrapper and replay stale output).  The fact files are asserted to exist.
"""
import fcntl
import glob
import hashlib
import json
import os
import shutil
import subprocess
import sys
import time

VERIF = os.path.dirname(os.path.dirname(os.path.abspath(__file__)))
REPO = os.environ.get("NBVERIF_REPO", "/repo")
CACHE = os.path.join(VERIF, ".cache")
TARGET = os.path.join(CACHE, "target")
FACTS = os.path.join(CACHE, "facts")
DRIVER = os.path.join(VERIF, "engine", "nbfacts", "target", "release", "nbfacts")

CONFIGS = {
    # name: cargo feature arguments
    "default": ["-p", "numbat", "-p", "numbat-cli", "--features", "numbat/html-formatter"],
    "nodefault": ["-p", "numbat", "--no-default-features", "--features", "html-formatter"],
}

MEMBERS = ["numbat", "numbat-cli", "numbat-exchange-rates"]


def tree_hash(repo=None):
    repo = repo or REPO
    h = hashlib.sha256()
    files = []
    for top in ["Cargo.toml", "Cargo.lock"]:
        files.append(os.path.join(repo, top))
    for m in MEMBERS:
        for root, dirs, fs in os.walk(os.path.join(repo, m)):
            dirs[:] = sorted(d for d in dirs if d not in ("target", ".git"))
            for f in sorted(fs):
                files.append(os.path.join(root, f))
    for f in files:
        try:
            with open(f, "rb") as fh:
                data = fh.read()
        except OSError:
            continue
        h.update(os.path.relpath(f, repo).encode())
        h.update(b"\0")
        h.update(hashlib.sha256(data).digest())
    # the driver itself is part of the key
    try:
        with open(DRIVER, "rb") as fh:
            h.update(hashlib.sha256(fh.read()).digest())
    except OSError:
        pass
    return h.hexdigest()[:20]


def nightly_sysroot():
    return subprocess.check_output(["rustc", "+nightly", "--print", "sysroot"], text=True).strip()


def ensure_driver():
    if os.path.exists(DRIVER):
        return
    subprocess.check_call(
        ["cargo", "+nightly", "build", "--release", "--offline"],
        cwd=os.path.join(VERIF, "engine", "nbfacts"),
        env=dict(os.environ, CARGO_NET_OFFLINE="true"),
    )


def produce(config, outdir, repo=None, log=None):
    repo = repo or REPO
    ensure_driver()
    os.makedirs(outdir, exist_ok=True)
    os.makedirs(TARGET, exist_ok=True)
    # force cargo to re-run the wrapper on the workspace members
    for prof in ("debug",):
        fp = os.path.join(TARGET, prof, ".fingerprint")
        for m in MEMBERS:
            for d in glob.glob(os.path.join(fp, m + "-*")):
                shutil.rmtree(d, ignore_errors=True)
    env = dict(os.environ)
    env.update(
        {
            "LD_LIBRARY_PATH": nightly_sysroot() + "/lib",
            "RUSTFLAGS": "-Zmir-opt-level=0 -Awarnings",
            "RUSTC_WORKSPACE_WRAPPER": DRIVER,
            "NBFACTS_OUT": outdir,
            "NBFACTS_TAG": config,
            "CARGO_TARGET_DIR": TARGET,
            "CARGO_NET_OFFLINE": "true",
            "CARGO_INCREMENTAL": "0",
        }
    )
    cmd = ["cargo", "+nightly", "check", "--offline"] + CONFIGS[config]
    t = time.time()
    p = subprocess.run(cmd, cwd=repo, env=env, stdout=subprocess.PIPE, stderr=subprocess.STDOUT, text=True)
    if log is not None:
        log.append({"cmd": " ".join(cmd), "wall_s": round(time.time() - t, 1), "rc": p.returncode})
    if p.returncode != 0:
        sys.stderr.write(p.stdout[-6000:])
        raise SystemExit("nbverif: cargo check with the fact driver failed (the tree does not build)")
    need = ["numbat-lib-%s.json" % config]
    if config == "default":
        need.append("numbat-bin-%s.json" % config)
    for n in need:
        if not os.path.exists(os.path.join(outdir, n)):
            sys.stderr.write(p.stdout[-3000:])
            raise SystemExit("nbverif: fact file %s was not produced (driver skipped?)" % n)


_loaded = {}

_GENERIC_SEG = None


def normalize_paths(text):
    """`crate::parser::Parser::<'a>::expression` -> `crate::parser::Parser::expression`
    (generic parameter lists of inherent impls inside def paths carry no information for the rules)."""
    import re

    global _GENERIC_SEG
    if _GENERIC_SEG is None:
        _GENERIC_SEG = re.compile(r"::<'?[A-Za-z_][A-Za-z0-9_]*(?:, ?'?[A-Za-z_][A-Za-z0-9_]*)*>(?=::)")
    return _GENERIC_SEG.sub("", text)


def facts_dir(config="default", repo=None):
    """Directory with the fact files for the current tree (produced on demand)."""
    repo = repo or REPO
    h = tree_hash(repo)
    d = os.path.join(FACTS, h, config)
    marker = os.path.join(d, "OK")
    if os.path.exists(marker):
        return d, True
    os.makedirs(FACTS, exist_ok=True)
    with open(os.path.join(FACTS, ".lock"), "w") as lk:
        fcntl.flock(lk, fcntl.LOCK_EX)
        if os.path.exists(marker):
            return d, True
        tmp = d + ".tmp"
        shutil.rmtree(tmp, ignore_errors=True)
        produce(config, tmp, repo)
        shutil.rmtree(d, ignore_errors=True)
        os.makedirs(os.path.dirname(d), exist_ok=True)
        os.rename(tmp, d)
        with open(marker, "w") as f:
            f.write(h)
        # keep the cache small: drop fact dirs of other trees, oldest first
        dirs = sorted(
            (p for p in glob.glob(os.path.join(FACTS, "*")) if os.path.isdir(p)),
            key=os.path.getmtime,
        )
        for old in dirs[:-100]:
            if os.path.basename(old) != h:
                shutil.rmtree(old, ignore_errors=True)
    return d, False


def load(crate="numbat-lib", config="default", repo=None):
    d, hit = facts_dir(config, repo)
    key = (crate, config, d)  # the directory name carries the content hash of the tree
    if key in _loaded:
        return _loaded[key]
    path = os.path.join(d, "%s-%s.json" % (crate, config))
    with open(path) as f:
        doc = json.loads(normalize_paths(f.read()))
    doc["_cache_hit"] = hit
    doc["_path"] = path
    _loaded[key] = doc
    return doc


if __name__ == "__main__":
    cfg = sys.argv[1] if len(sys.argv) > 1 else "default"
    d, hit = facts_dir(cfg)
    print(d, "hit" if hit else "produced")
