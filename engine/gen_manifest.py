#!/usr/bin/env python3
"""Writes /verif/MANIFEST.json from the registry (run after changing the registry)."""
import json
import os
import sys

HERE = os.path.dirname(os.path.abspath(__file__))
VERIF = os.path.dirname(HERE)
sys.path.insert(0, HERE)
sys.path.insert(0, os.path.join(HERE, "rules"))
import registry  # noqa: E402

NOT_APPLICABLE = registry.NOT_APPLICABLE

checks = []
for pid in sorted(registry.PROPERTIES):
    spec = registry.PROPERTIES[pid]
    rules = ", ".join(r for r, _ in spec["rules"])
    checks.append(
        {
            "property_id": pid,
            "quick_cmd": "./check %s --tier quick" % pid,
            "thorough_cmd": "./check %s --tier thorough" % pid,
            "evidence_file": "/verif/evidence/%s.json" % pid,
            "replay_cmd_template": "./check --show {path}",
            "engine": "nbfacts+rules",
            "level_claimed": {
                "category": "other",
                "text": "Static analysis of the resolved program (HIR/typeck/MIR facts from a rustc_private driver; Numbat modules through an independent front end). "
                + spec["explanation"]
                + " The check decides these structural clauses for all paths/arms/call sites of the anchored code, not the run-time behaviour.",
                "design_ref": "DESIGN.md section 4, %s" % pid,
            },
            "level_note": "; ".join(spec.get("assumptions", [])),
            "technique": "static analysis: " + spec.get("technique", rules),
        }
    )

manifest = {
    "version": 1,
    "setup_cmd": "sh ./setup.sh",
    "hooks": {
        "guard": "numbat_verif",
        "enable": "none needed: the checks analyse the unmodified source; no instrumentation is compiled in (guard name reserved, --cfg numbat_verif)",
        "baseline_off_cmd": "cd /repo && cargo nextest run --workspace --no-fail-fast --test-threads 8 --offline",
        "source_commits": [],
        "add_only": True,
    },
    "engines": [
        {
            "name": "nbfacts",
            "path": "engine/nbfacts",
            "serves_properties": sorted(registry.PROPERTIES),
            "kind_free_text": "rustc_private driver (nightly) injected with RUSTC_WORKSPACE_WRAPPER under cargo check: dumps HIR+typeck, MIR, ADT/impl/static facts of the workspace crates as JSON, keyed by the content hash of /repo's working tree",
        },
        {
            "name": "rules",
            "path": "engine/rules",
            "serves_properties": sorted(registry.PROPERTIES),
            "kind_free_text": "Python rule engines over the facts: SNAP (abstract interpretation of snapshot/restore), TRAV (traversal completeness), SHARE (ownership premises), OPTAB (sibling tables), TAINT, PROV, SYM, PREC, OBLIG, PAIR, EXIT, ERRD, CAST, EXPAR ...",
        },
        {
            "name": "nbtlint",
            "path": "engine/nbtlint",
            "serves_properties": [p for p in ("C08", "C13", "C17", "C24") if p in registry.PROPERTIES],
            "kind_free_text": "independent Python front end for the Numbat standard library (*.nbt): tokenizer, statement splitter, scope-aware identifier classifier; name-level lints N1-N4 and the FFI signature join",
        },
    ],
    "checks": checks,
    "notes": "Technique family: static analysis only. No registered check runs numbat. Known findings: known_findings.json (exact keys). Fixes to /repo are `fix:` commits; no hooks are compiled in.",
    "not_applicable": [{"property_id": k, "reason": v} for k, v in sorted(NOT_APPLICABLE.items()) if k not in registry.PROPERTIES],
}
with open(os.path.join(VERIF, "MANIFEST.json"), "w") as f:
    json.dump(manifest, f, indent=1)
print("MANIFEST.json: %d checks, %d not applicable" % (len(checks), len(manifest["not_applicable"])))
