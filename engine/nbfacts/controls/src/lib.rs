//! Positive controls for rules whose expected count on numbat is zero.
//! Each run analyses this crate too and fails if the matcher does not see these.
#![allow(dead_code)]
use std::cell::RefCell;
use std::rc::Rc;
use std::sync::{Arc, Mutex};

/// SHARE control: interior mutability behind a shared pointer.
#[derive(Clone)]
pub struct Leaky {
    pub shared: Rc<RefCell<Vec<u32>>>,
    pub locked: Arc<Mutex<u32>>,
    pub raw: *const u8,
}

pub static mut COUNTER: u32 = 0;

/// SHARE control: unsafe block in the owner module.
pub fn peek(l: &Leaky) -> u8 {
    unsafe { *l.raw }
}

pub struct Fallible;
#[derive(Debug)]
pub struct FErr;
impl Fallible {
    pub fn checked(&self) -> Result<u32, FErr> {
        Err(FErr)
    }
}

/// ERRD control: unwrap / expect / ok()-and-ignore on a fallible call.
pub fn errd_controls(f: &Fallible) -> u32 {
    let a = f.checked().unwrap();
    let b = f.checked().expect("boom");
    let _ = f.checked().ok();
    a + b
}

/// CAST control: an unguarded narrowing cast flowing into a call argument.
pub fn emit(_x: u16) {}
pub fn cast_control(v: &[u8]) {
    emit(v.len() as u16);
}

/// EXPAR control: unchecked arithmetic on a 128-bit pair type (stand-in).
pub fn taint_control(buf: &[u8], out: &mut Vec<u8>) {
    out.extend_from_slice(buf);
}

/// STRIDX control: panicking range index on a string with run-time offsets.
pub fn stridx_control(s: &str, a: usize, b: usize) -> &str {
    &s[a..b]
}

/// STRIDX.inclusive control: inclusive byte range ending at the START offset of the last character.
pub fn stridx_inclusive_control(s: &str, n: usize) -> &str {
    let last = s.char_indices().take(n).map(|(i, _)| i).last().unwrap_or_default();
    &s[..=last]
}

/// SHIFT control: shift by an unbounded run-time amount.
pub fn shift_control(exp: i32) -> f64 {
    (1u64 << exp) as f64
}
