//! MIR dump: CFG per body with resolved callees, casts, aggregates, switch targets.

use crate::hirdump::{impl_info, loc, path_of, resolve, ty_str};
use crate::json::J;
use crate::Interner;
use rustc_hir::def::DefKind;
use rustc_hir::def_id::DefId;
use rustc_middle::mir::{self, PlaceTy, Body, Operand, Place, ProjectionElem, Rvalue, StatementKind, TerminatorKind};
use rustc_middle::ty::print::{with_crate_prefix, with_no_trimmed_paths};
use rustc_middle::ty::{self, TyCtxt};
use rustc_span::Span;

struct M<'a, 'tcx> {
    tcx: TyCtxt<'tcx>,
    body: &'a Body<'tcx>,
    owner: DefId,
    types: &'a mut Interner,
    files: &'a mut Interner,
    file: i64,
}

impl<'a, 'tcx> M<'a, 'tcx> {
    fn span(&mut self, sp: Span) -> J {
        let (f, l, _c) = loc(self.tcx, sp, self.files);
        let mut v = vec![J::Num(l)];
        if sp.from_expansion() || f != self.file {
            v.push(J::Num(if sp.from_expansion() { 1 } else { 0 }));
            v.push(J::Num(f));
        }
        J::Arr(v)
    }

    fn place(&mut self, p: &Place<'tcx>) -> J {
        let mut proj = Vec::new();
        let mut pty = PlaceTy::from_ty(self.body.local_decls[p.local].ty);
        for elem in p.projection.iter() {
            match elem {
                ProjectionElem::Deref => proj.push(J::s("*")),
                ProjectionElem::Field(idx, _) => {
                    let mut name = format!("{}", idx.as_usize());
                    if let ty::Adt(adt, _) = pty.ty.kind() {
                        let vidx = pty.variant_index.unwrap_or(rustc_abi::FIRST_VARIANT);
                        if (vidx.as_usize()) < adt.variants().len() {
                            let v = adt.variant(vidx);
                            if idx.as_usize() < v.fields.len() {
                                name = v.fields[idx].name.to_string();
                            }
                        }
                    }
                    proj.push(J::obj().fs("f", name).fn_("i", idx.as_usize() as i64).done());
                }
                ProjectionElem::Index(l) => proj.push(J::obj().fn_("idx", l.as_usize() as i64).done()),
                ProjectionElem::ConstantIndex { offset, from_end, .. } => {
                    proj.push(J::obj().fn_("cidx", offset as i64).fb("from_end", from_end).done())
                }
                ProjectionElem::Subslice { .. } => proj.push(J::s("subslice")),
                ProjectionElem::Downcast(name, vidx) => proj.push(
                    J::obj()
                        .fs("dc", name.map(|s| s.to_string()).unwrap_or_default())
                        .fn_("vi", vidx.as_usize() as i64)
                        .done(),
                ),
                ProjectionElem::OpaqueCast(_) => proj.push(J::s("opaque")),
                ProjectionElem::UnwrapUnsafeBinder(_) => proj.push(J::s("unwrapbinder")),
            }
            pty = pty.projection_ty(self.tcx, elem);
        }
        let mut o = J::obj().fn_("l", p.local.as_usize() as i64);
        if !proj.is_empty() {
            o = o.f("p", J::Arr(proj));
        }
        o.done()
    }

    fn operand(&mut self, op: &Operand<'tcx>) -> J {
        match op {
            Operand::Copy(p) => {
                let pj = self.place(p);
                J::obj().fs("o", "copy").f("pl", pj).done()
            }
            Operand::Move(p) => {
                let pj = self.place(p);
                J::obj().fs("o", "move").f("pl", pj).done()
            }
            Operand::Constant(c) => {
                let cty = c.const_.ty();
                let mut o = J::obj().fs("o", "const");
                match cty.kind() {
                    ty::FnDef(did, args) => {
                        o = o.fs("fn", path_of(self.tcx, *did));
                        if let Some(r) = resolve(self.tcx, self.owner, *did, args) {
                            o = o.fs("inst", path_of(self.tcx, r));
                        }
                        if !args.is_empty() {
                            o = o.fs(
                                "gargs",
                                with_crate_prefix!(with_no_trimmed_paths!(format!("{:?}", args))),
                            );
                        }
                    }
                    _ => {
                        let t = self.types.id(ty_str(cty));
                        o = o
                            .fs("c", with_crate_prefix!(with_no_trimmed_paths!(format!("{}", c.const_))))
                            .fn_("t", t);
                    }
                }
                o.done()
            }
            Operand::RuntimeChecks(_) => J::obj().fs("o", "rtchecks").done(),
        }
    }

    fn rvalue(&mut self, rv: &Rvalue<'tcx>) -> J {
        match rv {
            Rvalue::Use(op, _) => {
                let oj = self.operand(op);
                J::obj().fs("rv", "use").f("op", oj).done()
            }
            Rvalue::Repeat(op, _) => {
                let oj = self.operand(op);
                J::obj().fs("rv", "repeat").f("op", oj).done()
            }
            Rvalue::Ref(_, bk, p) => {
                let pj = self.place(p);
                J::obj()
                    .fs("rv", "ref")
                    .fb("mut", matches!(bk, mir::BorrowKind::Mut { .. }))
                    .f("pl", pj)
                    .done()
            }
            Rvalue::ThreadLocalRef(did) => {
                J::obj().fs("rv", "tlsref").fs("path", path_of(self.tcx, *did)).done()
            }
            Rvalue::RawPtr(_, p) => {
                let pj = self.place(p);
                J::obj().fs("rv", "rawptr").f("pl", pj).done()
            }
            Rvalue::Cast(kind, op, ty) => {
                let oj = self.operand(op);
                let from = op.ty(&self.body.local_decls, self.tcx);
                J::obj()
                    .fs("rv", "cast")
                    .fs("ck", format!("{:?}", kind))
                    .fs("from", ty_str(from))
                    .fs("to", ty_str(*ty))
                    .f("op", oj)
                    .done()
            }
            Rvalue::BinaryOp(op, ab) => {
                let aj = self.operand(&ab.0);
                let bj = self.operand(&ab.1);
                J::obj().fs("rv", "binop").fs("op", format!("{:?}", op)).f("a", aj).f("b", bj).done()
            }
            Rvalue::UnaryOp(op, a) => {
                let aj = self.operand(a);
                J::obj().fs("rv", "unop").fs("op", format!("{:?}", op)).f("a", aj).done()
            }
            Rvalue::Discriminant(p) => {
                let pj = self.place(p);
                J::obj().fs("rv", "discr").f("pl", pj).done()
            }
            Rvalue::Aggregate(kind, ops) => {
                let v: Vec<J> = ops.iter().map(|o| self.operand(o)).collect();
                let mut o = J::obj().fs("rv", "aggr");
                match &**kind {
                    mir::AggregateKind::Array(_) => o = o.fs("ak", "array"),
                    mir::AggregateKind::Tuple => o = o.fs("ak", "tuple"),
                    mir::AggregateKind::Adt(did, vidx, _, _, _) => {
                        let adt = self.tcx.adt_def(*did);
                        o = o.fs("ak", "adt").fs("adt", path_of(self.tcx, *did));
                        let var = adt.variant(*vidx);
                        if adt.is_enum() {
                            o = o.fs("variant", var.name.to_string());
                        }
                        o = o.f(
                            "fnames",
                            J::Arr(var.fields.iter().map(|f| J::s(f.name.to_string())).collect()),
                        );
                    }
                    mir::AggregateKind::Closure(did, _) => {
                        o = o.fs("ak", "closure").fs("def", path_of(self.tcx, *did))
                    }
                    mir::AggregateKind::Coroutine(did, _) => {
                        o = o.fs("ak", "coroutine").fs("def", path_of(self.tcx, *did))
                    }
                    mir::AggregateKind::CoroutineClosure(did, _) => {
                        o = o.fs("ak", "coroutine_closure").fs("def", path_of(self.tcx, *did))
                    }
                    mir::AggregateKind::RawPtr(..) => o = o.fs("ak", "rawptr"),
                }
                o.f("ops", J::Arr(v)).done()
            }
            Rvalue::CopyForDeref(p) => {
                let pj = self.place(p);
                J::obj().fs("rv", "copyderef").f("pl", pj).done()
            }
            Rvalue::WrapUnsafeBinder(op, _) => {
                let oj = self.operand(op);
                J::obj().fs("rv", "wrapbinder").f("op", oj).done()
            }
        }
    }

    fn dump(&mut self) -> J {
        let body = self.body;
        let mut names: Vec<Option<String>> = vec![None; body.local_decls.len()];
        for vdi in &body.var_debug_info {
            if let mir::VarDebugInfoContents::Place(p) = &vdi.value {
                if p.projection.is_empty() {
                    names[p.local.as_usize()] = Some(vdi.name.to_string());
                }
            }
        }
        let mut locals = Vec::new();
        for (l, decl) in body.local_decls.iter_enumerated() {
            let t = self.types.id(ty_str(decl.ty));
            let mut o = J::obj().fn_("t", t);
            if let Some(n) = &names[l.as_usize()] {
                o = o.fs("name", n.clone());
            }
            locals.push(o.done());
        }
        // upvar / captured names for closures (debug info with projections)
        let mut upvars = Vec::new();
        for vdi in &body.var_debug_info {
            if let mir::VarDebugInfoContents::Place(p) = &vdi.value {
                if !p.projection.is_empty() {
                    let pj = self.place(p);
                    upvars.push(J::obj().fs("name", vdi.name.to_string()).f("pl", pj).done());
                }
            }
        }
        let mut blocks = Vec::new();
        for (_bb, data) in body.basic_blocks.iter_enumerated() {
            let mut stmts = Vec::new();
            for st in &data.statements {
                match &st.kind {
                    StatementKind::Assign(b) => {
                        let (pl, rv) = &**b;
                        let pj = self.place(pl);
                        let rj = self.rvalue(rv);
                        let sj = self.span(st.source_info.span);
                        stmts.push(J::obj().fs("k", "assign").f("s", sj).f("pl", pj).f("rv", rj).done());
                    }
                    StatementKind::SetDiscriminant { place, variant_index } => {
                        let pj = self.place(place);
                        let sj = self.span(st.source_info.span);
                        stmts.push(
                            J::obj()
                                .fs("k", "setdiscr")
                                .f("s", sj)
                                .f("pl", pj)
                                .fn_("vi", variant_index.as_usize() as i64)
                                .done(),
                        );
                    }
                    _ => {}
                }
            }
            let term = data.terminator();
            let sj = self.span(term.source_info.span);
            let tj = match &term.kind {
                TerminatorKind::Goto { target } => {
                    J::obj().fs("k", "goto").fn_("t", target.as_usize() as i64).done()
                }
                TerminatorKind::SwitchInt { discr, targets } => {
                    let dj = self.operand(discr);
                    let mut tv = Vec::new();
                    for (val, bb) in targets.iter() {
                        tv.push(J::Arr(vec![J::s(val.to_string()), J::Num(bb.as_usize() as i64)]));
                    }
                    J::obj()
                        .fs("k", "switch")
                        .f("discr", dj)
                        .f("targets", J::Arr(tv))
                        .fn_("otherwise", targets.otherwise().as_usize() as i64)
                        .done()
                }
                TerminatorKind::UnwindResume => J::obj().fs("k", "resume").done(),
                TerminatorKind::UnwindTerminate(_) => J::obj().fs("k", "terminate").done(),
                TerminatorKind::Return => J::obj().fs("k", "return").done(),
                TerminatorKind::Unreachable => J::obj().fs("k", "unreachable").done(),
                TerminatorKind::Drop { place, target, .. } => {
                    let pj = self.place(place);
                    J::obj().fs("k", "drop").f("pl", pj).fn_("t", target.as_usize() as i64).done()
                }
                TerminatorKind::Call { func, args, destination, target, fn_span, .. } => {
                    let fj = self.operand(func);
                    let av: Vec<J> = args.iter().map(|a| self.operand(&a.node)).collect();
                    let dj = self.place(destination);
                    let fsj = self.span(*fn_span);
                    let mut o = J::obj().fs("k", "call").f("f", fj).f("args", J::Arr(av)).f("dest", dj).f("fs", fsj);
                    if let Some(t) = target {
                        o = o.fn_("t", t.as_usize() as i64);
                    }
                    o.done()
                }
                TerminatorKind::TailCall { func, args, .. } => {
                    let fj = self.operand(func);
                    let av: Vec<J> = args.iter().map(|a| self.operand(&a.node)).collect();
                    J::obj().fs("k", "tailcall").f("f", fj).f("args", J::Arr(av)).done()
                }
                TerminatorKind::Assert { cond, expected, target, msg, .. } => {
                    let cj = self.operand(cond);
                    let kind = format!("{:?}", msg);
                    let kind = kind.split('(').next().unwrap_or("").to_string();
                    J::obj()
                        .fs("k", "assert")
                        .f("cond", cj)
                        .fb("expected", *expected)
                        .fs("msg", kind)
                        .fn_("t", target.as_usize() as i64)
                        .done()
                }
                TerminatorKind::FalseEdge { real_target, .. } => {
                    J::obj().fs("k", "goto").fn_("t", real_target.as_usize() as i64).done()
                }
                TerminatorKind::FalseUnwind { real_target, .. } => {
                    J::obj().fs("k", "goto").fn_("t", real_target.as_usize() as i64).done()
                }
                TerminatorKind::Yield { .. } => J::obj().fs("k", "yield").done(),
                TerminatorKind::CoroutineDrop => J::obj().fs("k", "codrop").done(),
                TerminatorKind::InlineAsm { .. } => J::obj().fs("k", "asm").done(),
            };
            let tj = match tj {
                J::Obj(mut f) => {
                    f.push(("s", sj));
                    J::Obj(f)
                }
                o => o,
            };
            let mut bo = J::obj().f("stmts", J::Arr(stmts)).f("term", tj);
            if data.is_cleanup {
                bo = bo.fb("cleanup", true);
            }
            blocks.push(bo.done());
        }
        J::obj()
            .fn_("argc", body.arg_count as i64)
            .f("locals", J::Arr(locals))
            .f("upvars", J::Arr(upvars))
            .f("blocks", J::Arr(blocks))
            .done()
    }
}

pub fn dump_all<'tcx>(tcx: TyCtxt<'tcx>, types: &mut Interner, files: &mut Interner) -> J {
    let mut out = Vec::new();
    let mut keys: Vec<_> = tcx.mir_keys(()).iter().copied().collect();
    keys.sort_by_key(|k| tcx.def_span(k.to_def_id()).lo());
    for ldid in keys {
        let did = ldid.to_def_id();
        let kind = tcx.def_kind(did);
        if !matches!(kind, DefKind::Fn | DefKind::AssocFn | DefKind::Closure) {
            continue;
        }
        if tcx.is_constructor(did) {
            continue;
        }
        if tcx.typeck(ldid).tainted_by_errors.is_some() {
            continue;
        }
        let body = tcx.optimized_mir(did);
        let sp = tcx.def_span(did);
        let (file, line, _) = loc(tcx, sp, files);
        let mut m = M { tcx, body, owner: did, types, files, file };
        let bj = m.dump();
        let mut o = J::obj()
            .fs("def", path_of(tcx, did))
            .fs("dk", format!("{:?}", kind))
            .fn_("file", file)
            .fn_("line", line)
            .fb("expn", sp.from_expansion());
        if let Some((tr, st)) = impl_info(tcx, did) {
            o = o.opt("impl_trait", tr.map(J::s)).fs("impl_self", st);
        }
        out.push(o.f("body", bj).done());
    }
    J::Arr(out)
}
