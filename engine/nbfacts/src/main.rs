//! nbfacts — rustc_private fact extractor for the numbat workspace.
//!
//! Injected with RUSTC_WORKSPACE_WRAPPER under `cargo +nightly check`. For the
//! workspace crates it dumps the *resolved program* as JSON:
//!   - HIR of every body (expressions, patterns, resolved callees, types),
//!   - MIR of every body (CFG, calls resolved with Instance::try_resolve, casts),
//!   - ADT definitions with structured field types, impls, statics, unsafe sites.
//! The rules (engine/rules/*.py) are decided on these facts; no text matching
//! on source files is done for Rust code.

#![feature(rustc_private)]

extern crate rustc_abi;
extern crate rustc_ast;
extern crate rustc_driver;
extern crate rustc_hir;
extern crate rustc_interface;
extern crate rustc_middle;
extern crate rustc_session;
extern crate rustc_span;

mod hirdump;
mod json;
mod mirdump;
mod tydump;

use json::J;
use rustc_driver::{Callbacks, Compilation};
use rustc_interface::interface::Compiler;
use rustc_middle::ty::TyCtxt;
use std::collections::HashMap;

pub struct Interner {
    pub map: HashMap<String, usize>,
    pub list: Vec<String>,
}

impl Interner {
    fn new() -> Self {
        Interner { map: HashMap::new(), list: Vec::new() }
    }
    pub fn id(&mut self, s: String) -> i64 {
        if let Some(i) = self.map.get(&s) {
            return *i as i64;
        }
        let i = self.list.len();
        self.map.insert(s.clone(), i);
        self.list.push(s);
        i as i64
    }
}

struct Facts {
    out: String,
}

impl Callbacks for Facts {
    fn config(&mut self, config: &mut rustc_interface::interface::Config) {
        // querying optimized_mir in a metadata-only build must not be persisted
        config.opts.incremental = None;
    }
    fn after_analysis<'tcx>(&mut self, _c: &Compiler, tcx: TyCtxt<'tcx>) -> Compilation {
        // Do not dump facts for a crate that has errors.
        if tcx.dcx().has_errors().is_some() {
            return Compilation::Continue;
        }
        let mut types = Interner::new();
        let mut files = Interner::new();
        let hir = hirdump::dump_all(tcx, &mut types, &mut files);
        let mir = mirdump::dump_all(tcx, &mut types, &mut files);
        let (adts, impls, statics, traits) = tydump::dump_all(tcx, &mut files);
        let crate_name = tcx.crate_name(rustc_span::def_id::LOCAL_CRATE).to_string();
        let doc = J::obj()
            .fs("crate", crate_name)
            .f("argv", J::Arr(std::env::args().map(J::s).collect()))
            .f(
                "env",
                J::Arr(
                    std::env::vars()
                        .filter(|(k, _)| k.starts_with("CARGO") || k == "OUT_DIR")
                        .map(|(k, v)| J::Arr(vec![J::s(k), J::s(v)]))
                        .collect(),
                ),
            )
            .fs("cwd", std::env::current_dir().map(|p| p.display().to_string()).unwrap_or_default())
            .f("types", J::Arr(types.list.iter().map(|s| J::s(s.clone())).collect()))
            .f("files", J::Arr(files.list.iter().map(|s| J::s(s.clone())).collect()))
            .f("hir", hir)
            .f("mir", mir)
            .f("adts", adts)
            .f("impls", impls)
            .f("statics", statics)
            .f("traits", traits)
            .done();
        let mut s = String::with_capacity(64 << 20);
        doc.write(&mut s);
        // one write per process
        let tmp = format!("{}.tmp.{}", self.out, std::process::id());
        std::fs::write(&tmp, s).expect("nbfacts: cannot write fact file");
        std::fs::rename(&tmp, &self.out).expect("nbfacts: cannot rename fact file");
        Compilation::Continue
    }
}

struct NoFacts;
impl Callbacks for NoFacts {}

fn arg_value<'a>(args: &'a [String], name: &str) -> Option<&'a str> {
    let mut it = args.iter();
    while let Some(a) = it.next() {
        if a == name {
            return it.next().map(|s| s.as_str());
        }
        if let Some(rest) = a.strip_prefix(name) {
            if let Some(v) = rest.strip_prefix('=') {
                return Some(v);
            }
        }
    }
    None
}

fn main() {
    let mut args: Vec<String> = std::env::args().collect();
    // RUSTC_WORKSPACE_WRAPPER: argv[1] is the path of the real rustc; drop it.
    if args.len() > 1 && (args[1].ends_with("rustc") || args[1].contains("/rustc")) {
        args.remove(1);
    }
    let crate_name = arg_value(&args, "--crate-name").unwrap_or("").to_string();
    let crate_type = arg_value(&args, "--crate-type").unwrap_or("lib").to_string();
    let is_test = args.iter().any(|a| a == "--test");
    let out_dir = std::env::var("NBFACTS_OUT").ok();
    let wanted = ["numbat", "numbat_exchange_rates", "nbcontrols"];
    let target = out_dir.is_some()
        && wanted.contains(&crate_name.as_str())
        && !is_test
        && crate_name != "build_script_build";
    if target {
        let cfgtag = std::env::var("NBFACTS_TAG").unwrap_or_else(|_| "default".into());
        let out = format!(
            "{}/{}-{}-{}.json",
            out_dir.unwrap(),
            crate_name,
            if crate_type.contains("bin") { "bin" } else { "lib" },
            cfgtag
        );
        let mut cb = Facts { out };
        rustc_driver::run_compiler(&args, &mut cb);
    } else {
        rustc_driver::run_compiler(&args, &mut NoFacts);
    }
}
