//! Minimal JSON value + serializer (the driver has zero cargo dependencies).

#[derive(Clone, Debug)]
pub enum J {
    Null,
    Bool(bool),
    Num(i64),
    Str(String),
    Arr(Vec<J>),
    Obj(Vec<(&'static str, J)>),
}

impl J {
    pub fn s<S: Into<String>>(s: S) -> J {
        J::Str(s.into())
    }
    pub fn obj() -> ObjB {
        ObjB(Vec::new())
    }
    pub fn write(&self, out: &mut String) {
        match self {
            J::Null => out.push_str("null"),
            J::Bool(b) => out.push_str(if *b { "true" } else { "false" }),
            J::Num(n) => out.push_str(&n.to_string()),
            J::Str(s) => write_str(s, out),
            J::Arr(v) => {
                out.push('[');
                for (i, x) in v.iter().enumerate() {
                    if i > 0 {
                        out.push(',');
                    }
                    x.write(out);
                }
                out.push(']');
            }
            J::Obj(v) => {
                out.push('{');
                for (i, (k, x)) in v.iter().enumerate() {
                    if i > 0 {
                        out.push(',');
                    }
                    write_str(k, out);
                    out.push(':');
                    x.write(out);
                }
                out.push('}');
            }
        }
    }
}

pub struct ObjB(Vec<(&'static str, J)>);

impl ObjB {
    pub fn f(mut self, k: &'static str, v: J) -> Self {
        self.0.push((k, v));
        self
    }
    pub fn fs<S: Into<String>>(self, k: &'static str, v: S) -> Self {
        self.f(k, J::Str(v.into()))
    }
    pub fn fn_(self, k: &'static str, v: i64) -> Self {
        self.f(k, J::Num(v))
    }
    pub fn fb(self, k: &'static str, v: bool) -> Self {
        self.f(k, J::Bool(v))
    }
    pub fn opt(self, k: &'static str, v: Option<J>) -> Self {
        match v {
            Some(v) => self.f(k, v),
            None => self,
        }
    }
    pub fn done(self) -> J {
        J::Obj(self.0)
    }
}

fn write_str(s: &str, out: &mut String) {
    out.push('"');
    for c in s.chars() {
        match c {
            '"' => out.push_str("\\\""),
            '\\' => out.push_str("\\\\"),
            '\n' => out.push_str("\\n"),
            '\r' => out.push_str("\\r"),
            '\t' => out.push_str("\\t"),
            c if (c as u32) < 0x20 => out.push_str(&format!("\\u{:04x}", c as u32)),
            c => out.push(c),
        }
    }
    out.push('"');
}
