//! Type-level facts: ADT definitions with structured field types (foreign ADTs
//! reached from local fields are described too, one level of fields each, so
//! that ownership walks can continue through them), impls, statics, traits.

use crate::hirdump::{loc, path_of, ty_str};
use crate::json::J;
use crate::Interner;
use rustc_hir::def::DefKind;
use rustc_hir::def_id::{DefId, LOCAL_CRATE};
use rustc_middle::ty::{self, Ty, TyCtxt, TypingEnv};
use std::collections::{BTreeMap, HashSet};

/// Structured description of a type.
pub fn ty_json<'tcx>(tcx: TyCtxt<'tcx>, ty: Ty<'tcx>, seen: &mut Vec<DefId>, depth: usize) -> J {
    if depth > 12 {
        return J::obj().fs("k", "deep").fs("s", ty_str(ty)).done();
    }
    match ty.kind() {
        ty::Adt(adt, args) => {
            if !seen.contains(&adt.did()) {
                seen.push(adt.did());
            }
            let targs: Vec<J> = args.types().map(|t| ty_json(tcx, t, seen, depth + 1)).collect();
            J::obj()
                .fs("k", "adt")
                .fs("path", path_of(tcx, adt.did()))
                .fs("krate", tcx.crate_name(adt.did().krate).to_string())
                .f("args", J::Arr(targs))
                .done()
        }
        ty::Ref(_, inner, m) => J::obj()
            .fs("k", "ref")
            .fb("mut", m.is_mut())
            .f("inner", ty_json(tcx, *inner, seen, depth + 1))
            .done(),
        ty::RawPtr(inner, m) => J::obj()
            .fs("k", "rawptr")
            .fb("mut", m.is_mut())
            .f("inner", ty_json(tcx, *inner, seen, depth + 1))
            .done(),
        ty::Tuple(ts) => J::obj()
            .fs("k", "tuple")
            .f("elems", J::Arr(ts.iter().map(|t| ty_json(tcx, t, seen, depth + 1)).collect()))
            .done(),
        ty::Slice(t) => J::obj().fs("k", "slice").f("inner", ty_json(tcx, *t, seen, depth + 1)).done(),
        ty::Array(t, _) => J::obj().fs("k", "array").f("inner", ty_json(tcx, *t, seen, depth + 1)).done(),
        ty::Param(p) => J::obj().fs("k", "param").fs("name", p.name.to_string()).done(),
        ty::Dynamic(preds, _) => {
            let mut traits = Vec::new();
            if let Some(p) = preds.principal_def_id() {
                traits.push(J::s(path_of(tcx, p)));
            }
            for d in preds.auto_traits() {
                traits.push(J::s(path_of(tcx, d)));
            }
            J::obj().fs("k", "dyn").f("traits", J::Arr(traits)).done()
        }
        ty::FnPtr(..) => J::obj().fs("k", "fnptr").fs("s", ty_str(ty)).done(),
        ty::FnDef(did, _) => J::obj().fs("k", "fndef").fs("path", path_of(tcx, *did)).done(),
        ty::Closure(did, _) => J::obj().fs("k", "closure").fs("path", path_of(tcx, *did)).done(),
        ty::Bool | ty::Char | ty::Int(_) | ty::Uint(_) | ty::Float(_) | ty::Str | ty::Never => {
            J::obj().fs("k", "prim").fs("s", ty_str(ty)).done()
        }
        _ => J::obj().fs("k", "other").fs("s", ty_str(ty)).done(),
    }
}

fn adt_json<'tcx>(tcx: TyCtxt<'tcx>, did: DefId, files: &mut Interner, seen: &mut Vec<DefId>) -> J {
    let adt = tcx.adt_def(did);
    let env = TypingEnv::non_body_analysis(tcx, did);
    let mut variants = Vec::new();
    for v in adt.variants() {
        let mut fields = Vec::new();
        for f in &v.fields {
            let ufty = tcx.type_of(f.did).instantiate_identity();
            let fty0 = ufty.skip_norm_wip();
            let fty = tcx.try_normalize_erasing_regions(env, ufty).unwrap_or(fty0);
            let freeze = std::panic::catch_unwind(std::panic::AssertUnwindSafe(|| fty.is_freeze(tcx, env)))
                .unwrap_or(false);
            fields.push(
                J::obj()
                    .fs("name", f.name.to_string())
                    .fs("s", ty_str(fty))
                    .fb("freeze", freeze)
                    .fb("pub", f.vis.is_public())
                    .f("ty", ty_json(tcx, fty, seen, 0))
                    .done(),
            );
        }
        variants.push(J::obj().fs("name", v.name.to_string()).f("fields", J::Arr(fields)).done());
    }
    let sp = tcx.def_span(did);
    let mut o = J::obj()
        .fs("path", path_of(tcx, did))
        .fs("krate", tcx.crate_name(did.krate).to_string())
        .fb("local", did.is_local())
        .fs("kind", if adt.is_enum() { "enum" } else if adt.is_union() { "union" } else { "struct" })
        .fb("unsafe_cell", adt.is_unsafe_cell())
        .f(
            "generics",
            J::Arr(
                tcx.generics_of(did)
                    .own_params
                    .iter()
                    .filter(|p| matches!(p.kind, ty::GenericParamDefKind::Type { .. }))
                    .map(|p| J::s(p.name.to_string()))
                    .collect(),
            ),
        );
    if did.is_local() {
        let (file, line, _) = loc(tcx, sp, files);
        o = o.fn_("file", file).fn_("line", line);
    }
    o.f("variants", J::Arr(variants)).done()
}

pub fn dump_all<'tcx>(tcx: TyCtxt<'tcx>, files: &mut Interner) -> (J, J, J, J) {
    // local ADTs, then the closure of foreign ADTs reachable from their fields
    let mut seen: Vec<DefId> = Vec::new();
    let mut done: HashSet<DefId> = HashSet::new();
    let mut adts: BTreeMap<String, J> = BTreeMap::new();
    let mut impls = Vec::new();
    let mut statics = Vec::new();
    let mut traits = Vec::new();

    for id in tcx.hir_free_items() {
        let did = id.owner_id.to_def_id();
        match tcx.def_kind(did) {
            DefKind::Struct | DefKind::Enum | DefKind::Union => {
                if !seen.contains(&did) {
                    seen.push(did);
                }
            }
            DefKind::Impl { of_trait } => {
                let self_ty = tcx.type_of(did).instantiate_identity().skip_norm_wip();
                let mut tmp = Vec::new();
                let mut o = J::obj()
                    .fs("self", ty_str(self_ty))
                    .f("self_ty", ty_json(tcx, self_ty, &mut tmp, 0))
                    .fb("of_trait", of_trait);
                if let Some(tr) = tcx.impl_opt_trait_ref(did) {
                    let tr = tr.skip_binder();
                    o = o.fs("trait", path_of(tcx, tr.def_id)).fs("trait_ref", ty_str_trait(tcx, tr));
                }
                let sp = tcx.def_span(did);
                let (file, line, _) = loc(tcx, sp, files);
                let is_unsafe = of_trait && tcx.impl_trait_header(did).safety.is_unsafe();
                let auto = tcx.is_automatically_derived(did);
                let items: Vec<J> = tcx
                    .associated_items(did)
                    .in_definition_order()
                    .map(|it| {
                        J::obj()
                            .fs("name", it.name().to_string())
                            .fs("path", path_of(tcx, it.def_id))
                            .fs("kind", format!("{:?}", it.kind).split(|c| c == ' ' || c == '{' || c == '(').next().unwrap_or("").to_string())
                            .done()
                    })
                    .collect();
                impls.push(
                    o.fn_("file", file)
                        .fn_("line", line)
                        .fb("unsafe", is_unsafe)
                        .fb("auto", auto)
                        .fb("expn", sp.from_expansion())
                        .f("items", J::Arr(items))
                        .done(),
                );
            }
            DefKind::Static { mutability, .. } => {
                let ty = tcx.type_of(did).instantiate_identity().skip_norm_wip();
                let env = TypingEnv::fully_monomorphized();
                let freeze = ty.is_freeze(tcx, env);
                let sp = tcx.def_span(did);
                let (file, line, _) = loc(tcx, sp, files);
                statics.push(
                    J::obj()
                        .fs("path", path_of(tcx, did))
                        .fs("s", ty_str(ty))
                        .f("ty", ty_json(tcx, ty, &mut seen, 0))
                        .fb("mut", mutability.is_mut())
                        .fb("freeze", freeze)
                        .fn_("file", file)
                        .fn_("line", line)
                        .done(),
                );
            }
            DefKind::Trait => {
                let items: Vec<J> = tcx
                    .associated_items(did)
                    .in_definition_order()
                    .map(|it| {
                        J::obj()
                            .fs("name", it.name().to_string())
                            .fs("path", path_of(tcx, it.def_id))
                            .fb("default", it.defaultness(tcx).has_value())
                            .done()
                    })
                    .collect();
                traits.push(J::obj().fs("path", path_of(tcx, did)).f("items", J::Arr(items)).done());
            }
            _ => {}
        }
    }
    // statics nested in functions (thread_local!, lazy statics inside fns) are
    // body owners but not free items; pick them up from the body owners.
    for ldid in tcx.hir_body_owners() {
        let did = ldid.to_def_id();
        if let DefKind::Static { mutability, nested, .. } = tcx.def_kind(did) {
            if nested {
                continue;
            }
            let p = path_of(tcx, did);
            if statics.iter().any(|s| matches!(s, J::Obj(f) if f.iter().any(|(k, v)| *k == "path" && matches!(v, J::Str(x) if *x == p)))) {
                continue;
            }
            let ty = tcx.type_of(did).instantiate_identity().skip_norm_wip();
            let freeze = ty.is_freeze(tcx, TypingEnv::fully_monomorphized());
            let sp = tcx.def_span(did);
            let (file, line, _) = loc(tcx, sp, files);
            statics.push(
                J::obj()
                    .fs("path", p)
                    .fs("s", ty_str(ty))
                    .f("ty", ty_json(tcx, ty, &mut seen, 0))
                    .fb("mut", mutability.is_mut())
                    .fb("freeze", freeze)
                    .fn_("file", file)
                    .fn_("line", line)
                    .done(),
            );
        }
    }

    let mut i = 0;
    while i < seen.len() {
        let did = seen[i];
        i += 1;
        if !done.insert(did) {
            continue;
        }
        // do not descend into std/core/alloc internals: their semantics is known by name
        let krate = tcx.crate_name(did.krate).to_string();
        let is_std = matches!(krate.as_str(), "std" | "core" | "alloc" | "hashbrown");
        if is_std && did.krate != LOCAL_CRATE {
            let adt = tcx.adt_def(did);
            adts.insert(
                path_of(tcx, did),
                J::obj()
                    .fs("path", path_of(tcx, did))
                    .fs("krate", krate)
                    .fb("local", false)
                    .fb("opaque_std", true)
                    .fb("unsafe_cell", adt.is_unsafe_cell())
                    .done(),
            );
            continue;
        }
        let j = adt_json(tcx, did, files, &mut seen);
        adts.insert(path_of(tcx, did), j);
    }
    (
        J::Arr(adts.into_values().collect()),
        J::Arr(impls),
        J::Arr(statics),
        J::Arr(traits),
    )
}

fn ty_str_trait<'tcx>(_tcx: TyCtxt<'tcx>, tr: ty::TraitRef<'tcx>) -> String {
    use rustc_middle::ty::print::{with_crate_prefix, with_no_trimmed_paths, PrintTraitRefExt};
    with_crate_prefix!(with_no_trimmed_paths!(format!("{}", tr.print_only_trait_path())))
}
