//! HIR + typeck dump: one JSON tree per body owner (closures are inlined).

use crate::json::J;
use crate::Interner;
use rustc_hir as hir;
use rustc_hir::def::{DefKind, Res};
use rustc_hir::def_id::{DefId, LocalDefId};
use rustc_middle::ty::print::{with_crate_prefix, with_no_trimmed_paths};
use rustc_middle::ty::{self, GenericArgsRef, Instance, Ty, TyCtxt, TypeckResults, TypingEnv};
use rustc_span::Span;

pub fn path_of(tcx: TyCtxt<'_>, did: DefId) -> String {
    with_crate_prefix!(with_no_trimmed_paths!(tcx.def_path_str(did)))
}

pub fn ty_str<'tcx>(ty: Ty<'tcx>) -> String {
    with_crate_prefix!(with_no_trimmed_paths!(format!("{}", ty)))
}

pub fn loc(tcx: TyCtxt<'_>, span: Span, files: &mut Interner) -> (i64, i64, i64) {
    let sm = tcx.sess.source_map();
    let l = sm.lookup_char_pos(span.lo());
    let fname = format!("{}", l.file.name.prefer_local_unconditionally());
    (files.id(fname), l.line as i64, l.col.0 as i64 + 1)
}

/// Resolve a (possibly trait) callee to the concrete instance if possible.
pub fn resolve<'tcx>(
    tcx: TyCtxt<'tcx>,
    owner: DefId,
    did: DefId,
    args: GenericArgsRef<'tcx>,
) -> Option<DefId> {
    if args.len() < tcx.generics_of(did).count() {
        return None;
    }
    let env = TypingEnv::post_analysis(tcx, owner);
    // Erase regions so that resolution does not ICE on inference regions.
    let args = tcx.erase_and_anonymize_regions(args);
    match std::panic::catch_unwind(std::panic::AssertUnwindSafe(|| {
        Instance::try_resolve(tcx, env, did, args)
    })) {
        Ok(Ok(Some(inst))) => Some(inst.def_id()),
        _ => None,
    }
}

struct D<'a, 'tcx> {
    tcx: TyCtxt<'tcx>,
    tr: &'tcx TypeckResults<'tcx>,
    owner: LocalDefId,
    types: &'a mut Interner,
    files: &'a mut Interner,
    file: i64,
}

impl<'a, 'tcx> D<'a, 'tcx> {
    fn span(&mut self, sp: Span) -> J {
        let (f, l, c) = loc(self.tcx, sp, self.files);
        let mut v = vec![J::Num(l), J::Num(c)];
        if sp.from_expansion() || f != self.file {
            v.push(J::Num(if sp.from_expansion() { 1 } else { 0 }));
            v.push(J::Num(f));
        }
        J::Arr(v)
    }

    fn tyid(&mut self, ty: Ty<'tcx>) -> J {
        J::Num(self.types.id(ty_str(ty)))
    }

    fn res_json(&mut self, res: Res, hir_id: hir::HirId) -> J {
        match res {
            Res::Local(id) => J::obj()
                .fs("r", "local")
                .fs("name", self.tcx.hir_name(id).to_string())
                .fn_("id", id.local_id.as_u32() as i64)
                .done(),
            Res::Def(kind, did) => {
                let mut o = J::obj()
                    .fs("r", "def")
                    .fs("dk", format!("{:?}", kind))
                    .fs("path", path_of(self.tcx, did));
                match kind {
                    DefKind::Fn | DefKind::AssocFn => {
                        let args = self.tr.node_args(hir_id);
                        if let Some(r) = resolve(self.tcx, self.owner.to_def_id(), did, args) {
                            o = o.fs("inst", path_of(self.tcx, r));
                        }
                        if !args.is_empty() {
                            o = o.fs(
                                "gargs",
                                with_crate_prefix!(with_no_trimmed_paths!(format!("{:?}", args))),
                            );
                        }
                    }
                    DefKind::Ctor(..) => {
                        // constructor of a struct or a variant: name the ADT + variant
                        let parent = self.tcx.parent(did);
                        match self.tcx.def_kind(parent) {
                            DefKind::Variant => {
                                let adt = self.tcx.parent(parent);
                                o = o
                                    .fs("adt", path_of(self.tcx, adt))
                                    .fs("variant", self.tcx.item_name(parent).to_string());
                            }
                            _ => {
                                o = o.fs("adt", path_of(self.tcx, parent));
                            }
                        }
                    }
                    DefKind::Variant => {
                        let adt = self.tcx.parent(did);
                        o = o
                            .fs("adt", path_of(self.tcx, adt))
                            .fs("variant", self.tcx.item_name(did).to_string());
                    }
                    _ => {}
                }
                o.done()
            }
            Res::SelfCtor(did) | Res::SelfTyAlias { alias_to: did, .. } => {
                J::obj().fs("r", "self").fs("path", path_of(self.tcx, did)).done()
            }
            other => J::obj().fs("r", "other").fs("dbg", format!("{:?}", other)).done(),
        }
    }

    /// ADT + variant named by a pattern / struct-expression path, using the
    /// type of the node (robust against `Self::V`, aliases and `use` renames).
    fn variant_of(&mut self, ty: Ty<'tcx>, res: Res) -> (Option<String>, Option<String>) {
        let ty = ty.peel_refs();
        if let ty::Adt(adt, _) = ty.kind() {
            let adt_path = path_of(self.tcx, adt.did());
            if adt.is_enum() {
                let v = match res {
                    Res::Def(DefKind::Variant, did) => Some(did),
                    Res::Def(DefKind::Ctor(..), did) => Some(self.tcx.parent(did)),
                    _ => None,
                };
                let vn = v.map(|d| self.tcx.item_name(d).to_string());
                return (Some(adt_path), vn);
            }
            return (Some(adt_path), None);
        }
        (None, None)
    }

    fn lit(&mut self, lit: &hir::Lit) -> J {
        use rustc_ast::LitKind::*;
        match &lit.node {
            Str(s, _) => J::obj().fs("lk", "str").fs("v", s.as_str()).done(),
            Char(c) => J::obj().fs("lk", "char").fs("v", c.to_string()).done(),
            Int(n, _) => J::obj().fs("lk", "int").fs("v", n.get().to_string()).done(),
            Float(s, _) => J::obj().fs("lk", "float").fs("v", s.as_str()).done(),
            Bool(b) => J::obj().fs("lk", "bool").fb("v", *b).done(),
            Byte(b) => J::obj().fs("lk", "byte").fn_("v", *b as i64).done(),
            ByteStr(b, _) => J::obj().fs("lk", "bytestr").fs("v", b.as_byte_str().iter().map(|x| format!("{:02x}", x)).collect::<String>()).done(),
            CStr(..) => J::obj().fs("lk", "cstr").done(),
            Err(_) => J::obj().fs("lk", "err").done(),
        }
    }

    fn pat(&mut self, p: &'tcx hir::Pat<'tcx>) -> J {
        use hir::PatKind::*;
        let ty = self.tr.pat_ty(p);
        let t = self.tyid(ty);
        let s = self.span(p.span);
        let o = J::obj().f("s", s).f("t", t);
        match &p.kind {
            Missing => o.fs("k", "Missing").done(),
            Wild => o.fs("k", "Wild").done(),
            Never => o.fs("k", "Never").done(),
            Binding(mode, id, ident, sub) => {
                let subj = sub.map(|s| self.pat(s));
                o.fs("k", "Binding")
                    .fs("name", ident.name.to_string())
                    .fn_("id", id.local_id.as_u32() as i64)
                    .fs("mode", format!("{:?}", mode))
                    .opt("sub", subj)
                    .done()
            }
            Struct(qpath, fields, rest) => {
                let res = self.tr.qpath_res(qpath, p.hir_id);
                let (adt, variant) = self.variant_of(ty, res);
                let fs = fields
                    .iter()
                    .map(|f| {
                        let pj = self.pat(f.pat);
                        J::Arr(vec![J::s(f.ident.name.to_string()), pj])
                    })
                    .collect();
                o.fs("k", "Struct")
                    .opt("adt", adt.map(J::s))
                    .opt("variant", variant.map(J::s))
                    .f("fields", J::Arr(fs))
                    .fb("rest", rest.is_some())
                    .done()
            }
            TupleStruct(qpath, pats, ddpos) => {
                let res = self.tr.qpath_res(qpath, p.hir_id);
                let (adt, variant) = self.variant_of(ty, res);
                let ps = pats.iter().map(|x| self.pat(x)).collect();
                o.fs("k", "TupleStruct")
                    .opt("adt", adt.map(J::s))
                    .opt("variant", variant.map(J::s))
                    .f("pats", J::Arr(ps))
                    .opt("ddpos", ddpos.as_opt_usize().map(|n| J::Num(n as i64)))
                    .done()
            }
            Or(pats) => {
                let ps = pats.iter().map(|x| self.pat(x)).collect();
                o.fs("k", "Or").f("pats", J::Arr(ps)).done()
            }
            Tuple(pats, ddpos) => {
                let ps = pats.iter().map(|x| self.pat(x)).collect();
                o.fs("k", "Tuple")
                    .f("pats", J::Arr(ps))
                    .opt("ddpos", ddpos.as_opt_usize().map(|n| J::Num(n as i64)))
                    .done()
            }
            Box(x) => {
                let pj = self.pat(x);
                o.fs("k", "Box").f("pat", pj).done()
            }
            Deref(x) => {
                let pj = self.pat(x);
                o.fs("k", "Deref").f("pat", pj).done()
            }
            Ref(x, _, m) => {
                let pj = self.pat(x);
                o.fs("k", "Ref").f("pat", pj).fb("mut", m.is_mut()).done()
            }
            Expr(pe) => match &pe.kind {
                hir::PatExprKind::Lit { lit, negated } => {
                    let l = self.lit(lit);
                    o.fs("k", "Lit").f("lit", l).fb("neg", *negated).done()
                }
                hir::PatExprKind::Path(qpath) => {
                    let res = self.tr.qpath_res(qpath, pe.hir_id);
                    let (adt, variant) = self.variant_of(ty, res);
                    let rj = self.res_json(res, pe.hir_id);
                    o.fs("k", "Path")
                        .opt("adt", adt.map(J::s))
                        .opt("variant", variant.map(J::s))
                        .f("res", rj)
                        .done()
                }
            },
            Guard(x, e) => {
                let pj = self.pat(x);
                let ej = self.expr(e);
                o.fs("k", "Guard").f("pat", pj).f("cond", ej).done()
            }
            Range(lo, hi, end) => {
                let mut bound = |pe: &Option<&'tcx hir::PatExpr<'tcx>>| -> Option<J> {
                    pe.map(|pe| match &pe.kind {
                        hir::PatExprKind::Lit { lit, negated } => {
                            let l = self.lit(lit);
                            J::obj().fs("k", "Lit").f("lit", l).fb("neg", *negated).done()
                        }
                        _ => J::obj().fs("k", "Other").done(),
                    })
                };
                let lj = bound(lo);
                let hj = bound(hi);
                o.fs("k", "Range")
                    .opt("lo", lj)
                    .opt("hi", hj)
                    .fs("end", match end {
                        hir::RangeEnd::Included => "Included",
                        hir::RangeEnd::Excluded => "Excluded",
                    })
                    .done()
            }
            Slice(a, m, b) => {
                let aj = a.iter().map(|x| self.pat(x)).collect();
                let mj = m.map(|x| self.pat(x));
                let bj = b.iter().map(|x| self.pat(x)).collect();
                o.fs("k", "Slice").f("before", J::Arr(aj)).opt("mid", mj).f("after", J::Arr(bj)).done()
            }
            Err(_) => o.fs("k", "Err").done(),
        }
    }

    fn block(&mut self, b: &'tcx hir::Block<'tcx>) -> J {
        let mut stmts = Vec::new();
        for st in b.stmts {
            let s = self.span(st.span);
            match &st.kind {
                hir::StmtKind::Let(l) => {
                    let p = self.pat(l.pat);
                    let init = l.init.map(|e| self.expr(e));
                    let els = l.els.map(|b| self.block(b));
                    stmts.push(
                        J::obj()
                            .fs("k", "Let")
                            .f("s", s)
                            .f("pat", p)
                            .opt("init", init)
                            .opt("els", els)
                            .fs("src", format!("{:?}", l.source))
                            .done(),
                    );
                }
                hir::StmtKind::Item(_) => {
                    stmts.push(J::obj().fs("k", "Item").f("s", s).done());
                }
                hir::StmtKind::Expr(e) => {
                    let ej = self.expr(e);
                    stmts.push(J::obj().fs("k", "Expr").f("s", s).f("e", ej).done());
                }
                hir::StmtKind::Semi(e) => {
                    let ej = self.expr(e);
                    stmts.push(J::obj().fs("k", "Semi").f("s", s).f("e", ej).done());
                }
            }
        }
        let tail = b.expr.map(|e| self.expr(e));
        let s = self.span(b.span);
        let is_unsafe = !matches!(b.rules, hir::BlockCheckMode::DefaultBlock);
        let mut o = J::obj().fs("k", "Block").f("s", s).f("stmts", J::Arr(stmts)).opt("tail", tail);
        if is_unsafe {
            o = o.fb("unsafe", true);
        }
        o.done()
    }

    fn callee_fields(&mut self, hir_id: hir::HirId) -> Vec<(&'static str, J)> {
        let mut v = Vec::new();
        if let Some(did) = self.tr.type_dependent_def_id(hir_id) {
            v.push(("m", J::s(path_of(self.tcx, did))));
            let args = self.tr.node_args(hir_id);
            if let Some(r) = resolve(self.tcx, self.owner.to_def_id(), did, args) {
                v.push(("inst", J::s(path_of(self.tcx, r))));
            }
        }
        v
    }

    fn expr(&mut self, e: &'tcx hir::Expr<'tcx>) -> J {
        use hir::ExprKind::*;
        let ty = self.tr.expr_ty(e);
        let t = self.tyid(ty);
        let s = self.span(e.span);
        let mut o = J::obj().f("s", s).f("t", t);
        // adjusted type when it differs (auto-ref/deref, unsizing)
        let aty = self.tr.expr_ty_adjusted(e);
        if aty != ty {
            let at = self.tyid(aty);
            o = o.f("at", at);
        }
        match &e.kind {
            ConstBlock(_) => o.fs("k", "ConstBlock").done(),
            Array(xs) => {
                let v = xs.iter().map(|x| self.expr(x)).collect();
                o.fs("k", "Array").f("elems", J::Arr(v)).done()
            }
            Call(f, args) => {
                let fj = self.expr(f);
                let v = args.iter().map(|x| self.expr(x)).collect();
                o.fs("k", "Call").f("f", fj).f("args", J::Arr(v)).done()
            }
            MethodCall(seg, recv, args, _) => {
                let rj = self.expr(recv);
                let v = args.iter().map(|x| self.expr(x)).collect();
                let mut o = o.fs("k", "MethodCall").fs("name", seg.ident.name.to_string());
                for (k, val) in self.callee_fields(e.hir_id) {
                    o = o.f(k, val);
                }
                o.f("recv", rj).f("args", J::Arr(v)).done()
            }
            Use(x, _) => {
                let xj = self.expr(x);
                o.fs("k", "Use").f("e", xj).done()
            }
            Tup(xs) => {
                let v = xs.iter().map(|x| self.expr(x)).collect();
                o.fs("k", "Tup").f("elems", J::Arr(v)).done()
            }
            Binary(op, a, b) => {
                let aj = self.expr(a);
                let bj = self.expr(b);
                let mut o = o.fs("k", "Binary").fs("op", op.node.as_str());
                for (k, val) in self.callee_fields(e.hir_id) {
                    o = o.f(k, val);
                }
                o.f("l", aj).f("r", bj).done()
            }
            Unary(op, a) => {
                let aj = self.expr(a);
                let mut o = o.fs("k", "Unary").fs("op", format!("{:?}", op));
                for (k, val) in self.callee_fields(e.hir_id) {
                    o = o.f(k, val);
                }
                o.f("e", aj).done()
            }
            Lit(l) => {
                let lj = self.lit(l);
                o.fs("k", "Lit").f("lit", lj).done()
            }
            Cast(x, _) => {
                let xj = self.expr(x);
                o.fs("k", "Cast").f("e", xj).done()
            }
            Type(x, _) => {
                let xj = self.expr(x);
                o.fs("k", "Type").f("e", xj).done()
            }
            DropTemps(x) => {
                let xj = self.expr(x);
                o.fs("k", "DropTemps").f("e", xj).done()
            }
            Let(l) => {
                let p = self.pat(l.pat);
                let i = self.expr(l.init);
                o.fs("k", "Let").f("pat", p).f("init", i).done()
            }
            If(c, th, el) => {
                let cj = self.expr(c);
                let tj = self.expr(th);
                let ej = el.map(|x| self.expr(x));
                o.fs("k", "If").f("cond", cj).f("then", tj).opt("else", ej).done()
            }
            Loop(b, _, src, _) => {
                let bj = self.block(b);
                o.fs("k", "Loop").fs("src", format!("{:?}", src)).f("body", bj).done()
            }
            Match(scrut, arms, src) => {
                let sj = self.expr(scrut);
                let mut av = Vec::new();
                for arm in arms.iter() {
                    let p = self.pat(arm.pat);
                    let g = arm.guard.map(|g| self.expr(g));
                    let b = self.expr(arm.body);
                    let sp = self.span(arm.span);
                    av.push(J::obj().f("s", sp).f("pat", p).opt("guard", g).f("body", b).done());
                }
                o.fs("k", "Match")
                    .fs("src", format!("{:?}", src))
                    .f("scrut", sj)
                    .f("arms", J::Arr(av))
                    .done()
            }
            Closure(c) => {
                let body = self.tcx.hir_body(c.body);
                let params = body.params.iter().map(|p| self.pat(p.pat)).collect();
                let bj = self.expr(body.value);
                o.fs("k", "Closure")
                    .fs("def", path_of(self.tcx, c.def_id.to_def_id()))
                    .f("params", J::Arr(params))
                    .f("body", bj)
                    .done()
            }
            Block(b, _) => {
                let bj = self.block(b);
                // merge: a Block expr is the block object plus type
                match bj {
                    J::Obj(mut fields) => {
                        fields.retain(|(k, _)| *k != "s");
                        let mut o = o;
                        for (k, v) in fields {
                            o = o.f(k, v);
                        }
                        o.done()
                    }
                    other => other,
                }
            }
            Assign(l, r, _) => {
                let lj = self.expr(l);
                let rj = self.expr(r);
                o.fs("k", "Assign").f("l", lj).f("r", rj).done()
            }
            AssignOp(op, l, r) => {
                let lj = self.expr(l);
                let rj = self.expr(r);
                let mut o = o.fs("k", "AssignOp").fs("op", op.node.as_str());
                for (k, val) in self.callee_fields(e.hir_id) {
                    o = o.f(k, val);
                }
                o.f("l", lj).f("r", rj).done()
            }
            Field(x, ident) => {
                let xj = self.expr(x);
                o.fs("k", "Field").fs("name", ident.name.to_string()).f("e", xj).done()
            }
            Index(a, b, _) => {
                let aj = self.expr(a);
                let bj = self.expr(b);
                let mut o = o.fs("k", "Index");
                for (k, val) in self.callee_fields(e.hir_id) {
                    o = o.f(k, val);
                }
                o.f("e", aj).f("idx", bj).done()
            }
            Path(qpath) => {
                let res = self.tr.qpath_res(qpath, e.hir_id);
                let rj = self.res_json(res, e.hir_id);
                o.fs("k", "Path").f("res", rj).done()
            }
            AddrOf(_, m, x) => {
                let xj = self.expr(x);
                o.fs("k", "AddrOf").fb("mut", m.is_mut()).f("e", xj).done()
            }
            Break(_, x) => {
                let xj = x.map(|x| self.expr(x));
                o.fs("k", "Break").opt("e", xj).done()
            }
            Continue(_) => o.fs("k", "Continue").done(),
            Ret(x) => {
                let xj = x.map(|x| self.expr(x));
                o.fs("k", "Ret").opt("e", xj).done()
            }
            Become(x) => {
                let xj = self.expr(x);
                o.fs("k", "Become").f("e", xj).done()
            }
            InlineAsm(_) => o.fs("k", "InlineAsm").done(),
            OffsetOf(..) => o.fs("k", "OffsetOf").done(),
            Struct(qpath, fields, tail) => {
                let res = self.tr.qpath_res(qpath, e.hir_id);
                let (adt, variant) = self.variant_of(ty, res);
                let fs = fields
                    .iter()
                    .map(|f| {
                        let ej = self.expr(f.expr);
                        J::Arr(vec![J::s(f.ident.name.to_string()), ej])
                    })
                    .collect();
                let base = match tail {
                    hir::StructTailExpr::Base(b) => Some(self.expr(b)),
                    _ => None,
                };
                o.fs("k", "Struct")
                    .opt("adt", adt.map(J::s))
                    .opt("variant", variant.map(J::s))
                    .f("fields", J::Arr(fs))
                    .opt("base", base)
                    .done()
            }
            Repeat(x, _) => {
                let xj = self.expr(x);
                o.fs("k", "Repeat").f("e", xj).done()
            }
            Yield(x, _) => {
                let xj = self.expr(x);
                o.fs("k", "Yield").f("e", xj).done()
            }
            UnsafeBinderCast(_, x, _) => {
                let xj = self.expr(x);
                o.fs("k", "UnsafeBinderCast").f("e", xj).done()
            }
            Err(_) => o.fs("k", "Err").done(),
        }
    }
}

pub fn impl_info<'tcx>(tcx: TyCtxt<'tcx>, did: DefId) -> Option<(Option<String>, String)> {
    // nearest enclosing impl of an item (methods, closures inside methods…)
    let mut cur = did;
    loop {
        let k = tcx.def_kind(cur);
        if let DefKind::Impl { .. } = k {
            let self_ty = ty_str(tcx.type_of(cur).instantiate_identity().skip_norm_wip());
            let tr = tcx.impl_opt_trait_ref(cur).map(|t| path_of(tcx, t.skip_binder().def_id));
            return Some((tr, self_ty));
        }
        if cur.is_crate_root() {
            return None;
        }
        match tcx.opt_parent(cur) {
            Some(p) => cur = p,
            None => return None,
        }
    }
}

pub fn dump_all<'tcx>(tcx: TyCtxt<'tcx>, types: &mut Interner, files: &mut Interner) -> J {
    let mut bodies = Vec::new();
    for ldid in tcx.hir_body_owners() {
        let did = ldid.to_def_id();
        if tcx.is_closure_like(did) {
            continue;
        }
        let kind = tcx.def_kind(did);
        if !matches!(
            kind,
            DefKind::Fn | DefKind::AssocFn | DefKind::Const { .. } | DefKind::Static { .. } | DefKind::AssocConst { .. }
        ) {
            continue;
        }
        let body = tcx.hir_body_owned_by(ldid);
        let tr = tcx.typeck(ldid);
        if tr.tainted_by_errors.is_some() {
            continue;
        }
        let sp = tcx.def_span(did);
        let (file, line, _) = loc(tcx, sp, files);
        let mut d = D { tcx, tr, owner: ldid, types, files, file };
        let params: Vec<J> = body.params.iter().map(|p| d.pat(p.pat)).collect();
        let bj = d.expr(body.value);
        let mut o = J::obj()
            .fs("def", path_of(tcx, did))
            .fs("name", tcx.item_name(did).to_string())
            .fs("dk", format!("{:?}", kind))
            .fn_("file", file)
            .fn_("line", line)
            .fb("expn", sp.from_expansion());
        if let Some((tr, st)) = impl_info(tcx, did) {
            o = o.opt("impl_trait", tr.map(J::s)).fs("impl_self", st);
        }
        if matches!(kind, DefKind::Fn | DefKind::AssocFn) {
            let sig = tcx.fn_sig(did).instantiate_identity().skip_norm_wip().skip_binder();
            o = o.fs("ret", ty_str(sig.output()));
            o = o.f("param_tys", J::Arr(sig.inputs().iter().map(|t| J::s(ty_str(*t))).collect()));
            let vis = tcx.visibility(did);
            o = o.fb("pub", vis.is_public());
        }
        bodies.push(o.f("params", J::Arr(params)).f("body", bj).done());
    }
    J::Arr(bodies)
}
