"""Property -> rules table.  Each rule is a function ctx -> RuleOut | [RuleOut]."""
import os
import sys

HERE = os.path.dirname(os.path.abspath(__file__))
sys.path.insert(0, os.path.join(HERE, "rules"))

from families import FAMILIES  # noqa: E402
from snap import rule_snap  # noqa: E402
from trav import rule_trav  # noqa: E402


def trav(name):
    def run(ctx):
        return rule_trav(ctx.lib, FAMILIES[name])

    run.__name__ = "trav_" + name
    return run


# ----------------------------------------------------------------------------- C06
SNAP_EXEMPT = {
    ("resolver", "files"): "diagnostic source registry: the property allows source labels in diagnostics to differ",
    ("resolver", "codesources"): "diagnostic source registry (code-source id -> label)",
    ("resolver", "text_code_source_count"): "counter used only to label `<input:N>` sources",
    ("resolver", "internal_code_source_count"): "counter used only to label `<internal:N>` sources",
    ("load_currency_module_on_demand",): "one-shot latch of the documented lazy loading of `units::currencies`; written only after the nested `use units::currencies` input succeeded",
}


def snap_context(ctx):
    return rule_snap(
        ctx.lib,
        "Context::interpret_with_settings",
        SNAP_EXEMPT,
        exempt_never_assigned=[],
        floors={"dirtying_calls": 4, "snapshots": 4, "restores": 11, "error_exits": 8},
    )


PROPERTIES = {}


def prop(pid, explanation, rules, assumptions=()):
    PROPERTIES[pid] = {"explanation": explanation, "rules": rules, "assumptions": list(assumptions)}

from optab import rule_optab_operands  # noqa: E402
from share import rule_share  # noqa: E402
from taint import rule_html_taint  # noqa: E402

STATIC_EXCEPTIONS = {
    "currency::EXCHANGE_RATES": "process-wide exchange-rate cache (set once by the fetch thread; shared by all sessions on purpose, not session state)",
}


def share_context(ctx):
    return rule_share(ctx.lib, "crate::Context", "Context", (), STATIC_EXCEPTIONS, min_types=100, min_fields=260, check_statics=True)


def share_control(ctx):
    """Positive control: the SHARE matcher must see the planted Rc<RefCell>, Arc<Mutex>, raw pointer,
    unsafe block and static mut of engine/nbfacts/controls."""
    import controls
    from core import RuleOut
    from hirlib import Crate

    c = Crate(controls.load())
    probe = rule_share(c, "crate::Leaky", "Leaky", ("lib.rs",), check_statics=True)
    got = {f.key for f in probe.findings if f.verdict == "violation"}
    want = {"SHARE:Leaky:interior:Rc<..>", "SHARE:Leaky:interior:Arc<..>", "SHARE:Leaky:rawptr:Leaky.raw", "SHARE:Leaky:unsafe:peek", "SHARE:Leaky:static:COUNTER"}
    out = RuleOut("SHARE.control", "positive control for a rule whose expected count on numbat is zero")
    if want <= got:
        out.ok("control", "engine/nbfacts/controls/src/lib.rs", 1, "matcher fired on all %d planted instances" % len(want))
    else:
        out.error("positive control failed: SHARE did not report %s" % sorted(want - got))
    return out


def share_list(ctx):
    return rule_share(ctx.lib, "crate::list::NumbatList", "NumbatList", ("numbat/src/list.rs",), min_types=5, min_fields=2)


def optab_operands(ctx):
    return rule_optab_operands(ctx.lib)


def html_taint(ctx):
    return rule_html_taint(ctx.lib)


TRUST = [
    "rustc's type checker, borrow checker and the nightly rustc_private APIs used by engine/nbfacts (HIR, typeck results, MIR, Instance::try_resolve)",
    "the analysed configuration is `cargo check -p numbat -p numbat-cli --features numbat/html-formatter` (cfg(test) code is out of scope)",
]

prop(
    "C06",
    "Decides the structural mechanism of C06: (SNAP) on every failing exit of Context::interpret_with_settings every component of the session that was modified on the way (computed field-wise from the mod-sets of the callees) is re-assigned from a snapshot taken before the modification; (SHARE) the snapshot is independent of later mutation because no interior mutability / shared mutable pointer is reachable from Context. Not decided: observational equality of the restored clone.",
    [("SNAP", snap_context), ("SHARE", share_context), ("SHARE.control", share_control)],
    TRUST + ["exempt rows in registry.SNAP_EXEMPT (diagnostic source registry, currency lazy-load latch)", "foreign crate types (jiff, compact_str, indexmap, codespan) are observably immutable values"],
)

prop(
    "C20",
    "Decides C20 as a taint property over the HTML renderer: FormattedString text reaches HtmlFormatter output only through html_escape::encode_text, the CSS class interpolated into the attribute is a compile-time constant at every call site, Formatter::format appends only format_part results, and the diagnostic writer copies `buf` into its buffer only through the byte-wise escaper whose copy is guarded by a match on '<', '>' and '&'.",
    [("TAINT", html_taint)],
    TRUST + ["html_escape::encode_text escapes &, <, >", "numbat-wasm (outside the workspace) is not analysed; the property is anchored in numbat/src/html_formatter.rs"],
)

prop(
    "C18",
    "Decides the non-interference clause of C18 by ownership typing: NumbatList stores its elements behind Arc<VecDeque<T>> with no interior mutability and no unsafe code in list.rs, so every write goes through Arc::make_mut / try_unwrap, which never mutate shared storage. Not decided: the window arithmetic (which elements a view shows).",
    [("SHARE", share_list), ("SHARE.control", share_control)],
    TRUST + ["safe Rust's aliasing guarantee: data behind Arc<T> without UnsafeCell cannot be mutated while shared"],
)

prop(
    "C01",
    "Necessary-condition clauses of C01: the solved types reach every typed node — ApplySubstitution visits every payload field (sub-expressions, type schemes, struct infos) of every Expression/Statement/StringPart/Type variant (TRAV). Not decided: correctness of unification, agreement of run-time rational exponents with the static ones.",
    [("TRAV.apply_substitution", trav("apply_substitution")), ("TRAV.apply_substitution_types", trav("apply_substitution_types"))],
    TRUST,
)

prop(
    "C02",
    "Necessary-condition clauses of C02: every sub-expression of every statement is elaborated (TRAV over elaborate_expression / elaborate_statement / elaborate_define_variable / _elaborate_inner). Not decided: that inferred types equal independent dimensional analysis.",
    [("TRAV.elaborate", trav("elaborate"))],
    TRUST,
)

prop(
    "C08",
    "Exact sub-clauses of C08 (general panic freedom is out of reach): stated beliefs in the compile path (`TypedHole => unreachable!`, `Unknown identifier => unreachable!`, `unit should already exist`) are tied to the traversals that establish them — ForAllExpressions (used by find_typed_hole) and Transformer::transform_* visit every expression position (TRAV). Not decided: termination, stack depth, remaining unwrap/index sites.",
    [("TRAV.for_all_expressions", trav("for_all_expressions")), ("TRAV.transform", trav("transform"))],
    TRUST,
)

prop(
    "C09",
    "Necessary-condition clauses of C09: (OPTAB) every opcode is emitted with exactly the number of u16 operands the VM arm decodes, for all 38 opcodes; (TRAV) compile_expression/compile_statement compile every sub-expression of every variant. Not decided: operand order conventions, jump arithmetic, call-frame layout (value-level).",
    [("OPTAB.operands", optab_operands), ("TRAV.compile", trav("compile"))],
    TRUST,
)

prop(
    "C13",
    "Necessary-condition clauses of C13: unit/prefix resolution is applied in every expression position (TRAV over Transformer::transform_*).",
    [("TRAV.transform", trav("transform"))],
    TRUST,
)

prop(
    "C15",
    "Necessary-condition clauses of C15: the pretty printers of Statement, Expression, StringPart, TypeAnnotation and TypeExpression print every child (TRAV).",
    [("TRAV.pretty_print", trav("pretty_print"))],
    TRUST,
)

prop(
    "C16",
    "Necessary-condition clauses of C16: the printed signature and the signature used for calls are the same object transformed the same way — every type scheme of a definition is substituted (ApplySubstitution) and generalised (ForAllTypeSchemes) (TRAV).",
    [("TRAV.for_all_type_schemes", trav("for_all_type_schemes")), ("TRAV.apply_substitution", trav("apply_substitution"))],
    TRUST,
)

prop(
    "C07",
    "Necessary-condition clause of C07 ('a copied session evolves independently'): no interior mutability, no shared mutable pointer and no mutable static other than the listed process-wide exchange-rate cache is reachable from Context; dyn ModuleImporter implementors are walked (SHARE). Not decided: equality of incremental, batched and replayed evaluation.",
    [("SHARE", share_context), ("SHARE.control", share_control)],
    TRUST,
)

from errd import rule_errd  # noqa: E402
from exitrule import rule_exit  # noqa: E402
from prov import rule_prov_assert, rule_prov_convert, rule_prov_simplify  # noqa: E402
from sym import rule_sym_addsub, rule_sym_cmp  # noqa: E402

ERRD_EXEMPT = {
    ("*", "jiff::Span::nanoseconds"): {
        "reason": "argument is (seconds.fract() * 1e9).round(), |x| <= 1e9 by construction, inside the setter's range",
        "shape": "fract",
    },
}


def errd_datetime(ctx):
    return rule_errd(ctx.lib, ["vm::Vm::run_without_cleanup"], ["numbat/src/ffi/datetime.rs", "numbat/src/datetime.rs", "*"], ERRD_EXEMPT, min_fallible=23, min_bodies=17)


def errd_control(ctx):
    import controls
    from core import RuleOut
    from hirlib import Crate

    c = Crate(controls.load())
    probe = rule_errd(c, ["errd_controls"], [], {}, min_fallible=0, lib_prefix="crate::Fallible", err_type="crate::FErr", min_bodies=0)
    bad = [f.detail for f in probe.findings if f.verdict == "violation"]
    out = RuleOut("ERRD.control", "positive control for a rule whose expected count on numbat is zero")
    if len(bad) == 3:
        out.ok("control", "engine/nbfacts/controls/src/lib.rs", 1, "matcher fired on unwrap / expect / ok()-and-ignore")
    else:
        out.error("positive control failed: ERRD reported %d of 3 planted swallowed errors: %s" % (len(bad), bad))
    return out


prop(
    "C04",
    "Necessary-condition clauses of C04 (PROV): every success return of Quantity::convert_to builds its result with the `target_unit` parameter; the VM's ConvertTo arm converts the left operand (popped second; compiled first) to the unit of the right operand, marks the result no_simplify() and attaches the conversion target for display. So the result carries exactly U and is exempt from rewriting. Not decided: magnitude preservation, round trips, transitivity (numeric).",
    [("PROV.convert", lambda ctx: rule_prov_convert(ctx.lib))],
    TRUST,
)

prop(
    "C05",
    "Necessary-condition clause of C05 (PROV): simplification is not applied to a value whose unit the user chose — both full_simplify and full_simplify_with_registry test can_simplify before any rewriting step, the flag is written only by the constructors (true) and no_simplify() (false), and the rewriting functions are reachable only through Vm::simplify_quantity from the three display sites. Not decided: preservation of magnitude and dimension by the heuristics.",
    [("PROV.simplify", lambda ctx: rule_prov_simplify(ctx.lib))],
    TRUST,
)

prop(
    "C11",
    "Decides operand-role symmetry of the comparison implementation (SYM): in Quantity::eq / partial_cmp / partial_cmp_preserve_nan both operands are converted to a unit chosen by a symmetric selector (never one operand into the other's unit), NaN is detected for either operand before any conversion, and the VM arms read the ordering as mirror images (Less -> {<, <=}, Equal -> {<=, >=}, Greater -> {>, >=}, NaN -> false). Not decided: totality for non-NaN values (follows from f64 once both sides are in one unit).",
    [("SYM.cmp", lambda ctx: rule_sym_cmp(ctx.lib))],
    TRUST,
)

prop(
    "C12",
    "Decides operand-role symmetry of addition/subtraction (SYM): both operands are converted to Unit::smaller_unit(a.unit, b.unit), the selector returns the parameter with the smaller base-unit factor through one comparison over both factors, and the zero short-cuts are mirror images. Not decided: floating-point equality of the two orders.",
    [("SYM.addsub", lambda ctx: rule_sym_addsub(ctx.lib))],
    TRUST,
)

prop(
    "C19",
    "Necessary-condition clause of C19 ('out-of-range operations fail with an error instead of producing a wrong date') (ERRD): in the VM's date-time arms, ffi/datetime.rs and datetime.rs every call returning Result<_, jiff::Error> is propagated (`?`, map_err, returned) or branched on, never unwrapped / ok()-ignored, and no panicking or saturating jiff arithmetic is called (one exempt row with a bound argument). Not decided: the algebraic identities and the parse/format round trip.",
    [("ERRD", errd_datetime), ("ERRD.control", errd_control)],
    TRUST + ["jiff's checked_* / try_* APIs report out-of-range results as Err"],
)

prop(
    "C21",
    "Necessary-condition clauses of C21 (PROV/ABORT): assert breaks exactly on a false argument; assert_eq/2 converts the first argument to the unit of the second and decides with `==`; assert_eq/3 converts both to eps's unit and succeeds iff |a-b| <= eps; a Break from a procedure makes the VM dispatch loop return Err at once, so no later statement of the input runs. Not decided: float semantics of the comparison itself.",
    [("PROV.assert", lambda ctx: rule_prov_assert(ctx.lib))],
    TRUST,
)

prop(
    "C22",
    "Decides the exit-status / stream mechanism of the CLI (EXIT): every error kind of the interpretation result prints a diagnostic and yields exit_status_in_case_of_error() (Normal -> Break(Error)); the Ok arm prints only to stdout and yields Continue; in Cli::run a Break returns Err, a success maps to Ok(()), the result is the `.and`-accumulated status; main ends an Err in process::exit(1) after writing to stderr; file and -e sources flow through one parse_and_evaluate call site with the same mode, -e strings joined by newlines; Context::print_diagnostic writes to stderr. Not decided: the actual bytes written.",
    [("EXIT", lambda ctx: rule_exit(ctx.bin, ctx.lib))],
    TRUST,
)

import nbt_rules  # noqa: E402
from ffisig import rule_ffisig  # noqa: E402


def _prefixes(ctx):
    if not hasattr(ctx, "_prefix_table"):
        ctx._prefix_table = nbt_rules.prefix_table(ctx.lib)
    return ctx._prefix_table


def _keywords(ctx):
    """keyword spellings of the tokenizer (alphabetic entries of its own keyword table)"""
    import prec as _prec

    from hirlib import walk as _walk

    tm = _prec.tokenizer_map(ctx.lib)
    kws = {k: v for k, v in tm.items() if k and (k[0].isalpha() or k[0] == "_")}
    # procedure names are inserted through ProcedureKind::name()
    pn = ctx.lib.find_fn("ast::ProcedureKind::name")
    for n in _walk(pn["body"]):
        if n.get("k") == "Lit" and n["lit"].get("lk") == "str":
            kws.setdefault(n["lit"]["v"], "Procedure")
    return kws


FFISIG_WITNESS = {
    "fn:show:dispatch": "`numbat --no-prelude`: `use plot::bar_chart`, `struct LinePlot { a: Scalar }`, `show(LinePlot { a: 1 })` panics at ffi/plot.rs (`Option::unwrap()` on `None`); with the right field names but other types: `Expected value to be a quantity`",
}
PROPERTIES["C08"]["rules"].append(("FFISIG", lambda ctx: rule_ffisig(ctx.lib, ctx.nbt, FFISIG_WITNESS)))
PROPERTIES["C08"]["explanation"] += " (FFISIG) For every native function the sequence of argument extractions in its Rust body (pop_front + unsafe_as_{quantity,string,list,datetime,bool}, as_scalar().unwrap()) agrees in number and kind with its body-less declaration in the .nbt modules and the arity registered in ffi::functions(), so those panics are unreachable for type-checked calls."
PROPERTIES["C13"]["rules"] += [
    ("UNITFORMS", lambda ctx: nbt_rules.rule_unitforms(ctx.nbt, _prefixes(ctx), _keywords(ctx))),
    ("OPTAB.prefix", lambda ctx: nbt_rules.rule_prefix_tables(ctx.lib)),
]
PROPERTIES["C13"]["explanation"] += " (UNITFORMS) The complete finite set of (prefix, alias) forms accepted according to the decorators of the standard library and the prefix table extracted from PrefixParser::prefixes() has exactly one reading per identifier and collides with no variable or function name of any module. (OPTAB.prefix) Prefix::as_string_long/short print every prefix in a spelling the parser table maps back to the same prefix."

prop(
    "C17",
    "Necessary-condition clauses of C17 over the standard library source: (USECLOSURE) every free identifier of every module (values, units with accepted prefixes, dimensions, structs) is defined in the module or in the transitive closure of its `use`s, so no module relies on another having been loaded first; (DUPDEF) no value- or type-level name is defined by two different modules, which is the only way the result could depend on the import order. Not decided: type errors inside modules, constant values.",
    [
        ("USECLOSURE", lambda ctx: nbt_rules.rule_useclosure(ctx.nbt, _prefixes(ctx))),
        ("DUPDEF", lambda ctx: nbt_rules.rule_dupdef(ctx.nbt, _prefixes(ctx))),
    ],
    TRUST + ["engine/nbtlint is an independent re-implementation of the Numbat surface syntax used for name-level facts only; it fails closed (unclassified statements, floors)"],
)

prop(
    "C24",
    "Necessary condition of C24 over the complete finite set of @example snippets: each of the 177 snippets is lexically well formed (strings, interpolation, brackets) and every free identifier (functions, variables, units with accepted prefixes, dimensions, structs) resolves in prelude ∪ units::currencies ∪ the defining module's import closure. Not decided: typing and evaluation of the examples.",
    [("EXAMPLES", lambda ctx: nbt_rules.rule_examples(ctx.nbt, _prefixes(ctx)))],
    TRUST + ["engine/nbtlint front end (see C17)"],
)

from prec import rule_prec  # noqa: E402
import facts as _facts  # noqa: E402

prop(
    "C10",
    "Necessary-condition clauses of C10 (PREC): the level functions of the recursive-descent parser are discovered from Parser::expression through the resolved call graph; for each documented row of book/src/basics/operations.md the token kinds of its documented spellings (mapped through Tokenizer::scan_single_token's own arms and keyword table) are consumed, as prefix or infix/postfix operators, at a level whose nesting depth is ≥ that of every row below it (17 rows, 16 ordered pairs); `^` parses its right operand by self-recursion (right-assoc), conversions and all parse_binop levels fold in a loop (left-assoc). This includes `per` tighter than `/`, implicit multiplication tighter than `/`, unary minus looser than `^` and `!`. Not decided: rejection of every input outside the grammar, number-literal forms.",
    [("PREC", lambda ctx: rule_prec(ctx.lib, ctx.repo or _facts.REPO))],
    TRUST + ["book/src/basics/operations.md is the oracle for the documented precedence"],
)

from oblig import rule_nodrop, rule_oblig  # noqa: E402
from quote import rule_quote  # noqa: E402

PROPERTIES["C01"]["rules"] += [
    ("OBLIG.sound", lambda ctx: rule_oblig(ctx.lib, select=lambda k: "no-lhs~rhs" not in k, min_rows=27)),
    ("NODROP", lambda ctx: rule_nodrop(ctx.lib)),
]
PROPERTIES["C01"]["explanation"] = (
    "Necessary-condition clauses of C01: (OBLIG, soundness side) for every construct whose VM operation can raise a unit incompatibility or pops a typed value "
    "(+, -, ->, the four ordering comparisons, ==/!=, &&/||, !, unary minus, factorial, ^ exponent, if/then/else, list elements, calls through proper functions and function values, "
    "annotations, return types, assert/assert_eq) the type checker emits the matching constraint between the right sub-terms; (NODROP) ConstraintSet::add keeps every constraint that is not "
    "trivially satisfied and solve() succeeds only with no constraint left, so a result discarded with .ok() still has to be solved; "
    + PROPERTIES["C01"]["explanation"].split(": ", 1)[1]
)
PROPERTIES["C02"]["rules"] += [
    ("OBLIG", lambda ctx: rule_oblig(ctx.lib)),
    ("NODROP", lambda ctx: rule_nodrop(ctx.lib)),
]
PROPERTIES["C02"]["explanation"] = (
    "Necessary-condition clauses of C02: (OBLIG) equality constraints are emitted for exactly the constructs listed in the property (addition, subtraction, comparison, conversion, conditional branches, "
    "list elements, annotations, function arguments, return types) and NOT between the operands of *, / and ^ (30 relation rows); (NODROP) no emitted constraint can be dropped; "
    + PROPERTIES["C02"]["explanation"].split(": ", 1)[1]
)
PROPERTIES["C21"]["rules"] += [("OBLIG.assert", lambda ctx: rule_oblig(ctx.lib, select=lambda k: k.startswith("assert"), min_rows=2))]
PROPERTIES["C21"]["explanation"] += " (OBLIG) The checker constrains assert's argument to Bool and all assert_eq arguments to one type (dimension types in the 3-argument form), so the procedures' unsafe_as_* extractions cannot panic."
PROPERTIES["C15"]["rules"] += [("QUOTE", lambda ctx: rule_quote(ctx.lib))]
PROPERTIES["C15"]["explanation"] += " (QUOTE) Every user string payload (string parts, @name/@url/@description/@example) reaches markup::string only through escape_numbat_string and between quote operators, so the echoed text re-reads as the same string literal."

from cmptab import rule_cmptab, rule_slot  # noqa: E402

PROPERTIES["C09"]["rules"] += [("SLOT", lambda ctx: rule_slot(ctx.lib))]
PROPERTIES["C09"]["explanation"] += " (SLOT) The slot operands of GetLocal/GetUpvalue come from a reverse search over the scope vector, so every name refers to its innermost binding."
PROPERTIES["C01"]["rules"] += [("SLOT", lambda ctx: rule_slot(ctx.lib))]
PROPERTIES["C01"]["explanation"] += " (SLOT) Compiled code resolves a re-bound name innermost-first, like the type checker does, so the value read has the type that was checked."
PROPERTIES["C16"]["rules"] += [("CMPTAB", lambda ctx: rule_cmptab(ctx.lib))]
PROPERTIES["C16"]["explanation"] += " (CMPTAB) The comparator that canonicalises dimension types (a table over pairs of DTypeFactor variants) is antisymmetric and transitive, so equal factors are brought together and the canonical form of a signature — the basis of comparing an annotation with the inferred type — is unique."
PROPERTIES["C02"]["rules"] += [("CMPTAB", lambda ctx: rule_cmptab(ctx.lib))]
PROPERTIES["C02"]["explanation"] += " (CMPTAB) dimension-type canonicalisation uses an antisymmetric, transitive variant comparator (necessary for `requires two dimensions to be equal` to be decided on canonical forms)."

from cast import rule_cast  # noqa: E402
from expar import rule_expar  # noqa: E402
from prov import rule_prov_relabel  # noqa: E402

PROPERTIES["C05"]["rules"] += [("PROV.relabel", lambda ctx: rule_prov_relabel(ctx.lib))]
PROPERTIES["C05"]["explanation"] += " (PROV.relabel) Inside full_simplify* a unit changes only through Quantity::convert_to or by scaling the value with the conversion factor; no Quantity is built from an unchanged value with a different unit."

_A = "each element of this kind also calls Vm::add_constant in the same compile step, whose assert on constants.len() fires first (see CAST:add_constant:len(constants)->u16)"
CAST_DISPOSITIONS = {
    # key: ("bounded", argument) | ("witness", how to reproduce)
    "compile_expression:Factorial:expr->u16": ("witness", "`3` followed by 65536 `!` — order wraps to 0, math::factorial panics `assertion failed: order >= 1` (findings/cast_witnesses.py factorial)"),
    "compile_expression:BuildList:len(elements)->u16": ("witness", "`let x = 1` then `len([x, x, … 65536 times])` prints 0 (findings/cast_witnesses.py buildlist)"),
    "compile_expression:GetUpvalue:index_in(name)->u16": ("witness", "`let a0 = 1`, `let a1 = 2`, `let a2 = a1` … `let a65536 = a65535`, then `a65536` prints 1 instead of 2 (findings/cast_witnesses.py upvalue; ~9 min)"),
    "current_offset:len(current_chunk_index)->u16": ("witness", "`let x = 5`, 16400 lines `x`, then `if true then 111 else 222`: the jump offset wraps, the VM panics with index out of bounds (findings/cast_witnesses.py offset; a realistic form found independently by two hunting agents: a file of 16000 lines `1` followed by `print(if true then \"T\" else \"F\")` prints nothing more and exits 0 — after 64 KiB of top-level bytecode every `if` kills the rest of the session silently)"),
    "add_constant:len(constants)->u16": ("witness", "`len([1, 1, … 65536 literals])` panics `assertion failed: self.constants.len() <= u16::MAX` (findings/cast_witnesses.py constants)"),
    "add_ffi_call_args:len(ffi_call_args)->u16": ("witness", "`let x = 1` then 65536 lines `sin(x)` panics `assertion failed: self.ffi_call_args.len() <= u16::MAX` (findings/cast_witnesses.py fficallargs)"),
    "add_string:len(strings)->u16": ("witness", "`let x = 1` then 65537 lines `type(x)` panics `assertion failed: self.strings.len() <= u16::MAX` (findings/cast_witnesses.py addstring)"),
    "compile_expression:Call:len(args)->u16": ("witness", "`fn ffn(p0, …, p65535, qq) = p1` called with 65537 arguments: the frame pointer is computed from args.len() wrapped to 1, the VM panics `index out of bounds` in GetLocal (findings/cast_witnesses.py callargs; ~12 min)"),
    "compile_expression:BuildStructInstance:expr->u16": ("witness", "65537 struct definitions `struct SSt<i> { a: Scalar }`, then `SSt65536 { a: xx }` evaluates to `SSt0 { a: 1 }` (findings/cast_witnesses.py structidx; ~50 min)"),
    "compile_expression:BuildStructInstance:len(fields)->u16": ("witness", "a struct with 65537 fields: instantiation pops only 1 value, `sst.f65536` panics `Expected value to be a struct` (findings/cast_witnesses.py structfields)"),
    "get_function_idx:len(bytecode)->u16": ("witness", "65537 function definitions, then a call: panics `assertion failed: position <= u16::MAX` (findings/cast_witnesses.py functionidx; ~15 min)"),
    "compile_expression:AccessStructField:index_in(struct_type)->u16": ("bounded", "a field index above 65535 needs a struct value with more than 65536 fields, which cannot be built without passing the truncating BuildStructInstance site first (see CAST:compile_expression:BuildStructInstance:len(fields)->u16)"),
    "compile_expression:JoinString:len(expr)->u16": ("bounded", _A),
    "compile_expression:FFICallFunction:len(args)->u16": ("bounded", "the type checker rejects a call whose argument count differs from the declared parameter count (WrongArity), and Vm::add_foreign_function asserts the declared count equals the registry arity (at most 4)"),
    "compile_statement:FFICallProcedure:len(args)->u16": ("bounded", "elaborate_statement rejects procedure calls whose argument count is outside procedure.arity (at most 3)"),
    "add_prefix:index_in(prefixes)->u16": ("bounded", "prefixes are de-duplicated by value and only come from the 34 rows of PrefixParser::prefixes()"),
    "add_prefix:len(prefixes)->u16": ("bounded", "prefixes are de-duplicated by value and only come from the 34 rows of PrefixParser::prefixes()"),
    "add_unit_information:index_in(unit_information)->u16": ("bounded", "an index into unit_information, whose length is kept <= u16::MAX by the assert on the push path of the same function"),
    "add_unit_information:len(unit_information)->u16": ("bounded", "every derived-unit definition first calls Vm::add_constant (dummy unit constant), whose assert fires at the same count (see CAST:add_constant)"),
    "get_ffi_callable_idx:index_in(ffi_callables)->u16": ("bounded", "ffi_callables only holds entries of the fixed registries ffi::functions() (62) and ffi::procedures() (3)"),
}

EXPAR_DISPOSITIONS = {
    "<unit::UnitFactor as arithmetic::Power>::power:mul": ("witness", "`((m/cm)^1e30)^1e30` panics `attempt to multiply with overflow` in UnitFactor::power (the property's own example)"),
    "power:mul": ("witness", "`fn f(x) = x^(2^126) * x^(2^126)` panics `attempt to multiply with overflow` in DType::power via ApplySubstitution (the property's own example)"),
    "elaborate_expression:neg": ("witness", "`fn ff(x) = x^(-(2^126) - 2^126)` panics `attempt to negate with overflow` in TypeChecker::elaborate_expression (the const exponent is i128::MIN)"),
    "dimension_exponent:neg": ("bounded", "the operand is parsed from a non-negative decimal literal with str::parse::<i128>, so it is never i128::MIN and negation cannot overflow"),
}


def cast_rule(ctx):
    return rule_cast(ctx.lib, ["numbat/src/bytecode_interpreter.rs", "numbat/src/vm.rs"], CAST_DISPOSITIONS)


def expar_rule(ctx):
    return rule_expar(ctx.lib, dispositions=EXPAR_DISPOSITIONS, min_sites=18)


PROPERTIES["C08"]["rules"] += [("CAST", cast_rule), ("EXPAR", expar_rule)]
PROPERTIES["C08"]["explanation"] += " (CAST) every narrowing integer cast in the bytecode emitter/VM tables is classified from MIR: exact (masked), bounded (exempt row with the bound argument), guarded only by an assert! (an input-reachable panic) or unguarded (silent truncation) — the property's 65536-`!` example is one instance. (EXPAR) every unchecked operator on Ratio<i128> exponents reachable from interpret_with_settings is listed per call site; sites with a confirmed failing input are findings, sites with a bound argument are exempt, the rest are reported as unresolved advisories (not decided)."

from scope import rule_scope  # noqa: E402

for _pid in ("C02", "C13", "C09"):
    PROPERTIES[_pid]["rules"] += [("SCOPE", lambda ctx: rule_scope(ctx.lib))]
    PROPERTIES[_pid]["explanation"] += " (SCOPE) Function bodies and where-clauses are name-resolved by the per-function transformer clone on which parameters and where-locals are registered as shadowing identifiers."

from pair import rule_dedup, rule_pair_compiler, rule_pair_typechecker, rule_phase  # noqa: E402

PROPERTIES["C02"]["rules"] += [("PHASE", lambda ctx: rule_phase(ctx.lib))]
PROPERTIES["C02"]["explanation"] += " (PHASE) interpret_statements receives only the value unwrapped with `?` from TypeChecker::check over the complete transformed input, check() applies check_statement to every statement and propagates its error, and no call through the print function is reachable from Resolver::resolve, Transformer::transform or TypeChecker::check (call graph with fn-pointer targets): a rejected input prints nothing."
PROPERTIES["C06"]["rules"] += [("PAIR", lambda ctx: rule_pair_typechecker(ctx.lib))]
PROPERTIES["C06"]["explanation"] += " (PAIR) the type checker's env/namespace save() calls of a function definition are each followed by restore() on every success path."
PROPERTIES["C09"]["rules"] += [("PAIR", lambda ctx: rule_pair_compiler(ctx.lib))]
PROPERTIES["C09"]["explanation"] += " (PAIR) the compiler's scope stack (locals.push/pop) and chunk selection (begin_function/end_function) are balanced around every function body."
PROPERTIES["C17"]["rules"] += [("DEDUP", lambda ctx: rule_dedup(ctx.lib))]
PROPERTIES["C17"]["explanation"] += " (DEDUP) Resolver::inlining_pass imports a module only under the negative membership test on imported_modules and records it between the successful import() and the recursive call, so re-imports and cycles change nothing."

from listview import rule_listview  # noqa: E402

PROPERTIES["C18"]["rules"] += [("LISTVIEW", lambda ctx: rule_listview(ctx.lib))]
PROPERTIES["C18"]["explanation"] += " (LISTVIEW) A necessary condition of the value clause: list.rs keeps `view.end == alloc.len()`; every length-changing call on the deque obtained from make_mut happens either where the view is known to be None, or where the view's end is bound and adjusted in the same block — never in a branch where the view may still be Some."

from stridx import rule_stridx  # noqa: E402


def stridx_control(ctx):
    import controls
    from core import RuleOut
    from hirlib import Crate

    c = Crate(controls.load())
    probe = rule_stridx(c, dirs=("lib.rs",), min_bodies=0)
    out = RuleOut("STRIDX.control", "positive control for a rule whose expected count on numbat is zero")
    if any(f.verdict == "violation" and "stridx_control" in f.key for f in probe.findings):
        out.ok("control", "engine/nbfacts/controls/src/lib.rs", 1, "matcher fired on the planted `&s[a..b]`")
    else:
        out.error("positive control failed: STRIDX reported %d sites in the control crate" % probe.count("violation"))
    return out


PROPERTIES["C08"]["rules"] += [("STRIDX", lambda ctx: rule_stridx(ctx.lib)), ("STRIDX.control", stridx_control)]
PROPERTIES["C08"]["explanation"] += " (STRIDX) no native function slices a string with panicking `[range]` indexing (run-time byte offsets); the fallible str::get is the accepted idiom."

from esctab import rule_esctab  # noqa: E402

PROPERTIES["C15"]["rules"] += [("ESCTAB", lambda ctx: rule_esctab(ctx.lib))]
PROPERTIES["C15"]["explanation"] += " (ESCTAB) The printer's string escaper and the parser's un-escaper are inverse tables: every emitted escape reads back as the same character and every character the parser treats specially is escaped."

from history import rule_history  # noqa: E402

PROPERTIES["C07"]["rules"] += [("HISTORY", lambda ctx: rule_history(ctx.lib))]
PROPERTIES["C07"]["explanation"] += " (HISTORY) Necessary condition of the replay clause: SessionHistory::push appends every evaluated input unconditionally and unchanged, and save_inner skips an item only when it failed and error lines are excluded."

from bindorder import rule_bindorder  # noqa: E402

PROPERTIES["C09"]["rules"] += [("BINDORDER", lambda ctx: rule_bindorder(ctx.lib))]
PROPERTIES["C09"]["explanation"] += " (BINDORDER) Necessary condition of 'every name refers to its innermost binding': compile_define_variable pushes the new Local only after the initializer's compile_expression call (MIR dominators), and the DefineFunction arm lays the frame out as scope-open, parameters, where-locals, body, Return, scope-close."

from dtarith import rule_dtarith  # noqa: E402

PROPERTIES["C19"]["rules"] += [("DTARITH", lambda ctx: rule_dtarith(ctx.lib))]
PROPERTIES["C19"]["explanation"] += " (DTARITH) Necessary conditions of `(t + d) - t == d`: the f64 duration is split into whole seconds and nanoseconds with one rounding mode from one value (truncation pairs with fract()), AddToDateTime/SubFromDateTime apply checked_add/checked_sub to the popped date-time, and DiffDateTime subtracts the right operand (popped first) from the left."

from fmttab import rule_fmttab  # noqa: E402

PROPERTIES["C24"]["rules"] += [("FMTTAB", lambda ctx: rule_fmttab(ctx.lib, ctx.nbt, repo=ctx.repo or _facts.REPO))]
PROPERTIES["C24"]["explanation"] += " (FMTTAB) Writer/reader table agreement: every literal date-time string passed to datetime() in an @example or a library body (and the templates today()/date() build) is accepted by one of the strptime calls of datetime::parse_datetime, whose format sets are computed from the const table, the for-loop pattern and the lowered format! template; ISO 8601 / RFC 2822 strings are left undecided."
PROPERTIES["C24"]["assumptions"] = list(PROPERTIES["C24"].get("assumptions", [])) + ["the regular-expression model of jiff's strptime directives (%Y %m %d %H %I %M %S %p %.f %z, whitespace = \\s*) in engine/rules/fmttab.py; unknown directives make a site opaque (nothing is reported against it)"]

from guard import rule_guard  # noqa: E402

PROPERTIES["C13"]["rules"] += [("GUARD", lambda ctx: rule_guard(ctx.lib))]
PROPERTIES["C13"]["explanation"] += " (GUARD) PrefixParser::parse returns a prefixed unit only under the conjunction of the unit's accepts_prefix flag for that spelling kind, the pairing of the returned prefix's kind with metric_prefixes/binary_prefixes, and input == spelling ++ returned unit name, all read from one unit record; the unprefixed return is an exact lookup."

from prec import rule_oprt  # noqa: E402

PROPERTIES["C15"]["rules"] += [("OPRT", lambda ctx: rule_oprt(ctx.lib))]
PROPERTIES["C15"]["explanation"] += " (OPRT) Operator-spelling round trip: each of the 14 BinaryOperator spellings the printer emits is produced by the tokenizer as one token kind, which the parser's level functions map back to the same operator."

from listview import rule_viewread  # noqa: E402

PROPERTIES["C18"]["rules"] += [("VIEWREAD", lambda ctx: rule_viewread(ctx.lib))]
PROPERTIES["C18"]["explanation"] += " (VIEWREAD) Every element read of the shared deque in list.rs is offset by the view window: positional reads take an index derived from self.view, iteration is skip/take derived from it, end-relative reads (pop_front, front, …) do not occur — so a list's elements do not depend on whether its storage is shared."

from trivtab import rule_trivtab  # noqa: E402

for _pid in ("C16", "C02"):
    PROPERTIES[_pid]["rules"] += [("TRIVTAB", lambda ctx: rule_trivtab(ctx.lib))]
    PROPERTIES[_pid]["explanation"] += " (TRIVTAB) The solver's on-the-spot resolution of IsDType for closed types agrees with Type::is_dtype, the predicate the elaborator uses to choose the closed-type (annotated) path: Satisfied unconditionally for dimension types, Violated otherwise — so annotated and inferred code generate equivalent constraints."

from prec import rule_parens  # noqa: E402

PROPERTIES["C15"]["rules"] += [("PARENS", lambda ctx: rule_parens(ctx.lib))]
PROPERTIES["C15"]["explanation"] += " (PARENS) typed_ast::with_parens leaves an operand bare only for expression kinds the parser builds at the call/primary levels (computed from the level chain); kinds built at operator levels are parenthesised."

from stridx import rule_stridx_inclusive  # noqa: E402


def stridx_inclusive_control(ctx):
    import controls
    from core import RuleOut
    from hirlib import Crate

    c = Crate(controls.load())
    probe = rule_stridx_inclusive([c], min_sites=0, skip_tests=False)
    out = RuleOut("STRIDX.inclusive.control", "positive control for a rule whose expected count on numbat is zero")
    if any(f.verdict == "violation" and "stridx_inclusive_control" in f.key for f in probe.findings):
        out.ok("control", "engine/nbfacts/controls/src/lib.rs", 1, "matcher fired on the planted `&s[..=last]`")
    else:
        out.error("positive control failed: STRIDX.inclusive reported %d sites in the control crate" % probe.count("violation"))
    return out


PROPERTIES["C08"]["rules"] += [("STRIDX.inclusive", lambda ctx: rule_stridx_inclusive([ctx.lib, ctx.bin])), ("STRIDX.inclusive.control", stridx_inclusive_control)]
PROPERTIES["C08"]["explanation"] += " (STRIDX.inclusive) Nowhere in the library or the CLI is a string sliced with an inclusive byte range whose end is a run-time offset (such offsets are character START offsets; `..=i` ends inside a multi-byte character and panics)."

from recur import rule_recur  # noqa: E402

RECUR_DISPOSITIONS = {
    "scc:parser::Parser::call": ("witness", "20000 nested parentheses around `1` (findings/recur_witnesses.py parens): `thread 'main' has overflowed its stack`, SIGABRT"),
    "scc:ast::Expression::full_span": ("witness", "`1+1+…+1` with 100000 terms (findings/recur_witnesses.py chain): parsed iteratively into a left-deep tree, then Expression::full_span recurses once per term: stack overflow, SIGABRT"),
}

PROPERTIES["C08"]["rules"] += [("RECUR", lambda ctx: rule_recur(ctx.lib, RECUR_DISPOSITIONS))]
PROPERTIES["C08"]["explanation"] += " (RECUR) Strongly connected components of the MIR call graph reachable from interpret_with_settings that recurse over the token stream or a syntax/type/unit structure are listed; none has a depth guard. Two have witness inputs (known findings: the process aborts with a stack overflow), the rest are reported as unresolved advisories because an earlier phase overflows first."

from travenv import rule_trav_env  # noqa: E402

for _pid in ("C02", "C01"):
    PROPERTIES[_pid]["rules"] += [("TRAV.apply_substitution_env", lambda ctx: rule_trav_env(ctx.lib, FAMILIES["apply_substitution_env"]))]
    PROPERTIES[_pid]["explanation"] += " (TRAV.apply_substitution_env) The solved substitution is applied to the type recorded for every kind of identifier in the checker's environment (variables, functions, the predefined ans/_), so no identifier keeps an unsolved type variable that generalisation would turn into `forall A. A`."

from shift import rule_shift  # noqa: E402


def shift_control(ctx):
    import controls
    from core import RuleOut
    from hirlib import Crate

    c = Crate(controls.load())
    probe = rule_shift([c], min_bodies=0, skip_tests=False)
    out = RuleOut("SHIFT.control", "positive control for a rule whose expected count on numbat is zero")
    if any(f.verdict == "violation" and "shift_control" in f.key for f in probe.findings):
        out.ok("control", "engine/nbfacts/controls/src/lib.rs", 1, "matcher fired on the planted `1u64 << exp`")
    else:
        out.error("positive control failed: SHIFT did not report the planted shift in the control crate")
    return out


for _pid in ("C08", "C04"):
    PROPERTIES[_pid]["rules"] += [("SHIFT", lambda ctx: rule_shift([ctx.lib, ctx.bin])), ("SHIFT.control", shift_control)]
PROPERTIES["C08"]["explanation"] += " (SHIFT) No integer shift by an unbounded run-time amount anywhere in the library or the CLI (panics in checked builds)."
PROPERTIES["C04"]["explanation"] += " (SHIFT) Prefix and unit factors are not computed with wrapping/masked integer shifts: there is no shift by an unbounded run-time amount in the library (2^n by `powi`, not by `1 << n`)."

from perinput import rule_perinput  # noqa: E402

PROPERTIES["C07"]["rules"] += [("PERINPUT", lambda ctx: rule_perinput(ctx.lib))]
PROPERTIES["C07"]["explanation"] += " (PERINPUT) Necessary condition of 'incremental and batched evaluation agree': the per-input epilogue after Vm::run (BytecodeInterpreter::run / interpret_statements) assigns no interpreter field and calls only methods with an empty modification set, so everything later statements read (ans, variables) is written per statement by the bytecode itself."

PROPERTIES["C01"]["rules"] += [("SYM.cmp", lambda ctx: rule_sym_cmp(ctx.lib))]
PROPERTIES["C01"]["explanation"] += " (SYM.cmp zero-operand) The literal 0 is polymorphic, so `x > 0` type-checks for every dimension: the comparison functions never convert the non-zero operand into the unit of a zero operand (verified zero-aware unit selector), which would be a run-time unit error in an accepted program."

from guard import rule_register  # noqa: E402

for _pid in ("C13", "C17"):
    PROPERTIES[_pid]["rules"] += [("REGISTER", lambda ctx: rule_register(ctx.lib))]
    PROPERTIES[_pid]["explanation"] += " (REGISTER) add_other_identifier / add_shadowing_identifier record the name in other_identifiers on every path that returns Ok (MIR must-pass-through), so a parameter or local spelled like a prefixed unit shadows it regardless of which units were imported before."

from acctab import rule_acctab  # noqa: E402

for _pid in ("C15", "C13"):
    PROPERTIES[_pid]["rules"] += [("ACCTAB", lambda ctx: rule_acctab(ctx.lib))]
    PROPERTIES[_pid]["explanation"] += " (ACCTAB) The alias annotation `: short|long|both|none` round-trips: for each of the four AcceptsPrefix values the printer's keyword is lexed and parsed back to the same value."

from constop import rule_constop  # noqa: E402

for _pid in ("C02", "C01"):
    PROPERTIES[_pid]["rules"] += [("CONSTOP", lambda ctx: rule_constop(ctx.lib))]
    PROPERTIES[_pid]["explanation"] += " (CONSTOP) The checker's constant evaluator for exponents applies + - * / ^ with the named operation and, for the non-commutative ones, the left sub-expression's value first: the static exponent equals the one the VM computes."

PROPERTIES["C08"]["rules"] += [("LISTVIEW", lambda ctx: rule_listview(ctx.lib))]
PROPERTIES["C08"]["explanation"] += " (LISTVIEW underflow clause) A bound of a list view is decremented only under a comparison on that bound (no unsigned underflow for a view starting at index 0)."

PROPERTIES["C08"]["rules"] += [("BINDORDER", lambda ctx: rule_bindorder(ctx.lib))]
PROPERTIES["C08"]["explanation"] += " (BINDORDER fn-register clause) A function's name is entered into the compiler's table of function values before its body is compiled, so a self-reference as a value does not reach unreachable!()."

from prec import rule_printfields  # noqa: E402

PROPERTIES["C15"]["rules"] += [("PRINTFIELDS", lambda ctx: rule_printfields(ctx.lib))]
PROPERTIES["C15"]["explanation"] += " (PRINTFIELDS) The printer of struct definitions uses name, type-parameter list and fields; the printer of dimension expressions writes an exponent bare only under is_integer()."

from prec import rule_readable  # noqa: E402

for _pid in ("C15", "C16"):
    PROPERTIES[_pid]["rules"] += [("READABLE", lambda ctx: rule_readable(ctx.lib))]
    PROPERTIES[_pid]["explanation"] += " (READABLE) Every readable type created for a function definition is rendered from the function type instantiated with the user's type-parameter names (one known finding: where-clause locals)."

CONVD_EXEMPT = {
    ("partial_cmp", "fallible:convert_to"): {"reason": "`.ok()?` turns an incompatible-unit error into `None`, which is what PartialOrd is specified to return for incomparable values"},
}


def convd(ctx):
    """every Result of Quantity::convert_to anywhere in the library is propagated or branched on — never unwrapped:
    the type checker guarantees equal dimensions of the operands EXCEPT for the polymorphic zero, whose run-time unit is
    scalar (`mod(0, 3 m)`, `atan2(0, 3 m)` type-check)"""
    o = rule_errd(ctx.lib, [], ["*"], CONVD_EXEMPT, min_fallible=15, lib_prefix="quantity::Quantity::convert_to", err_type="QuantityError", min_bodies=8)
    o.rule = "CONVD"
    o.clause = "no unit-conversion result is unwrapped (a polymorphic zero operand makes conversions of type-correct operands fail)"
    for f in o.findings:
        f.rule = "CONVD"
        f.key = f.key.replace("ERRD:", "CONVD:", 1)
    return o


for _pid in ("C08", "C01"):
    PROPERTIES[_pid]["rules"] += [("CONVD", convd)]
    PROPERTIES[_pid]["explanation"] += " (CONVD) No Result of Quantity::convert_to is unwrapped anywhere in the library (one exempt row with its argument): with a polymorphic zero operand a conversion between type-correct operands can fail at run time."

QERR_EXEMPT = {
    ("is_dimensionless", "fallible:as_scalar"): {"reason": "`is_dimensionless(x)` IS the question whether the conversion to a scalar succeeds; `.is_ok()` is its answer, which is returned"},
}


def qerr(ctx):
    """sibling of CONVD for the wrappers around the conversion: every Result<_, QuantityError> returned by a Quantity
    method (as_scalar, power, …) is propagated or branched on, never unwrapped.  A value of type Scalar can carry a
    non-scalar unit at run time (quantity_cast by design; the unit-less polymorphic zero times infinity = a unit-less
    NaN of any dimension), so `as_scalar()` on a type-correct argument can fail."""
    o = rule_errd(ctx.lib, [], ["*"], QERR_EXEMPT, min_fallible=20, lib_prefix="quantity::Quantity::", err_type="QuantityError", min_bodies=20)
    o.rule = "QERR"
    o.clause = "no Result of a Quantity method is unwrapped (a Scalar-typed value can carry a non-scalar unit at run time)"
    keep = []
    for f in o.findings:
        if ":crate::convert_to#" in f.key:  # CONVD's sites
            continue
        f.rule = "QERR"
        f.key = f.key.replace("ERRD:", "QERR:", 1).replace(":crate::", ":", 1)
        keep.append(f)
    o.findings = keep
    return o


for _pid in ("C08", "C01"):
    PROPERTIES[_pid]["rules"] += [("QERR", qerr)]
    PROPERTIES[_pid]["explanation"] += " (QERR) No Result of any other Quantity method (as_scalar, power, …) is unwrapped either: FFI functions taking a Scalar and the factorial operator report a QuantityError for a Scalar-typed value whose run-time unit is not scalar."

from listview import rule_listeq  # noqa: E402

PROPERTIES["C18"]["rules"] += [("LISTEQ", lambda ctx: rule_listeq(ctx.lib))]
PROPERTIES["C18"]["explanation"] += " (LISTEQ) List equality is decided by the elements alone: no short-cut on the identity of the shared storage, which would make sharing observable for non-reflexive elements (NaN)."

from dtarith import rule_floatcast  # noqa: E402

PROPERTIES["C19"]["rules"] += [("FLOATCAST", lambda ctx: rule_floatcast(ctx.lib))]
PROPERTIES["C19"]["explanation"] += " (FLOATCAST) The date-time code converts floats to integers only with checked conversions (one bounded exempt row), so NaN / infinite arguments are errors, not wrong dates."

from constop import rule_unitdtype  # noqa: E402

for _pid in ("C01", "C08"):
    PROPERTIES[_pid]["rules"] += [("UNITDTYPE", lambda ctx: rule_unitdtype(ctx.lib))]
    PROPERTIES[_pid]["explanation"] += " (UNITDTYPE) The checker requires the defining expression of a derived unit to have a dimension type (the VM pops a quantity for it)."

from prec import rule_operands  # noqa: E402

PROPERTIES["C15"]["rules"] += [("OPERANDS", lambda ctx: rule_operands(ctx.lib))]
PROPERTIES["C15"]["explanation"] += " (OPERANDS) In pretty_print_binop a left operand is bare only for kinds parsed at the same or a tighter level, a right operand only for strictly tighter kinds (bare sets read off the matches! closures, operator depths from the parser's level chain); objects of field accesses and callees go through with_parens."

from semrules import rule_semrules  # noqa: E402

SEM_WITNESS = {
    "LASTRES:compile_expression:GetLastResult:any-depth": "`1 m`, `fn f() = ans`, `\"hello\"`, `print(f() + 1 m)` panics in the VM (`Expected quantity to be on the top of the stack`)",
    "FNREF:vm:CallCallable:late-binding": "`fn inc(x)=x+1`, `let saved=inc`, `fn call_inc(x)=inc(x)`, `fn inc(x)=x+100`: call_inc(1) = 2, saved(1) = 101",
    "UNITENV:elaborate_expression:UnitIdentifier:shadowable-lookup": "`fn f1(m: Scalar) -> Scalar = 3 km` is accepted and f1(1) = 3 km",
    "POLYLIT:literals:checker-vs-conversion": "`inf + 1 m`, `1 m + NaN`, `inf > 1 m` are accepted and fail at run time",
    "FMTSPEC:vm:JoinString:unbounded": "`\"{1:.65536}\"` panics inside strfmt, `\"{1:99999999999}\"` does not terminate",
    "FOREIGNDECL:add_foreign_function:trusted": "`numbat --no-prelude -e 'fn is_nan(x: Bool, y: Bool) -> Bool'` panics (`assertion failed: ff.arity == arity`)",
    "BATCHSTATE:ffi:typechecker-at-end-of-input": "one file `inspect(1 m^2/s^5)`, `unit zork = m^2/s^5`, `dimension Foo = Length^2 / Time^5` prints `[Foo]` / `1 zork`; line by line `[Length² / Time⁵]` / `1 m²/s⁵`",
    "TYPENAMES:to_readable_type:or": "`fn f(x) = x + 1 J` is echoed as `fn f(x: Energy or Torque) -> Energy or Torque`",
    "TYPENAMES:instantiate_for_printing:fresh-names": "`dimension A`, `unit a: A`, `fn f(x) = x*a` is printed as `fn f<A: Dim>(x: A) -> A²`",
    "DTSHAPE:elaborate_expression:datetime-branch-before-solving": "`let t = now()`: `t + abs(-1 h)` is a type error (Operator + can not be applied to DateTime, 'T374), `let d = abs(-1 h)` then `t + d` works",
    "TYPENAMES:instantiate_for_printing:positional-names": "`fn rate<T: Dim, D: Dim>(t: T, d: D) = d / t` is echoed (and shown by `info rate`) as `… -> T / D`; the type is D / T, and the echo is rejected when read back",
    "TYPENAMES:let:forall-in-echo": "`let xs = []` is echoed as `let xs: forall A. List<A> = []`, which does not parse",
    "STRUCTSUBST:type_from_annotation:sequential": "findings/sem_witnesses.nbt: `hh(2 s)` has type Length and value 2 s",
    "RESULTLAST:vm:result-of-an-earlier-statement": "`numbat -e '5 m' -e 'print(\"x\")' -e 'let y = 1'` prints `x` and then `5 m`; line by line `5 m` then `x`, and the last input has no result",
    "HARDNAME:compile:hard-coded-unit-lookup-unwrapped": "`numbat --no-prelude`: `dimension Time`, `unit sec: Time`, `fn now() -> DateTime`, `now() - now()` panics at bytecode_interpreter.rs (`Option::unwrap()` on `None`: no unit called `second`); with `unit second: Length` the difference of two date-times is a Length",
    "BASEUNITS:elaborate_statement:second-base-unit-accepted": "`unit foo: Length`, `1 foo + 1 m` type-checks and fails at run time: unit 'm' can not be converted to 'foo' (the project's own tests define such units, e.g. `unit jump: Length`)",
    "ZEROCONV:vm:ConvertTo:unit-less-zero-target": "`let origin: Length = 0`, `5 m -> origin` type-checks and fails at run time: unit 'm' can not be converted to ''",
    "SUGARNAME:echo:sugar-chosen-by-free-name": "`fn celsius(x) = x + 1` then `celsius(3)` (= 4) is echoed as `3 -> °C`; reading that back in the same session: expected 'Temperature', got 'Scalar' (findings/F72_sugar_by_name.sh)",
    "CMDWORDS:command-words-are-free-identifiers": "file: `let reset = 5`, `reset`, `let z = reset + 1` succeeds (6); typed into the REPL the second line wipes the session and the third fails",
}


def sem(*prefixes):
    def run(ctx):
        if not hasattr(ctx, "_sem"):
            ctx._sem = rule_semrules(ctx.lib, SEM_WITNESS)
        from core import RuleOut

        o = RuleOut("SEM", ctx._sem.clause)
        o.findings = [f for f in ctx._sem.findings if any(f.key.startswith("SEM:" + p) for p in prefixes)]
        o.errors = list(ctx._sem.errors)
        o.analysed = {"sibling_rules": len(o.findings)}
        return o

    return run


_SEM_MAP = {
    "C01": ("LASTRES", "FNREF", "UNITENV", "POLYLIT", "STRUCTSUBST", "BASEUNITS", "ZEROCONV"),
    "C02": ("STRUCTSUBST", "DTSHAPE"),
    "C07": ("FNREF", "BATCHSTATE", "RESULTLAST", "CMDWORDS"),
    "C08": ("LASTRES", "FMTSPEC", "FOREIGNDECL", "HARDNAME"),
    "C09": ("LASTRES", "FNREF"),
    "C13": ("UNITENV",),
    "C15": ("TYPENAMES", "SUGARNAME"),
    "C16": ("TYPENAMES",),
}
for _pid, _pref in _SEM_MAP.items():
    PROPERTIES[_pid]["rules"] += [("SEM", sem(*_pref))]
    PROPERTIES[_pid]["explanation"] += " (SEM: %s) Design-level sibling rules whose violations on this tree are known findings with witnesses (see DESIGN 5′)." % ", ".join(_pref)

# ---------------------------------------------------------------- second hunt round (H7 stdlib/FFI, H8 CLI, H9 front end)
from idchars import rule_idchars  # noqa: E402
from idleerr import rule_idleerr  # noqa: E402
from inspectcmd import rule_inspect  # noqa: E402
from rawval import rule_rawval  # noqa: E402
from strbyte import rule_strbyte  # noqa: E402

PROPERTIES["C10"]["rules"] += [("IDCHARS", lambda ctx: rule_idchars(ctx.lib))]
PROPERTIES["C10"]["explanation"] += " (IDCHARS) The tokenizer's identifier predicates are evaluated (from their HIR: literals, code-point ranges, XID properties) for every character of every symbolic token spelling: none may be an identifier character, or the operator is swallowed into the identifier before it."

PROPERTIES["C08"]["rules"] += [("IDLEERR", lambda ctx: rule_idleerr(ctx.lib))]
PROPERTIES["C08"]["explanation"] += " (IDLEERR) Vm::runtime_error / Vm::backtrace, which index the span tables with the frames' instruction pointers, are called only from code that runs inside Vm::run_without_cleanup (call graph): an error raised between inputs would index an empty chunk (panic) or blame the previous input."

PROPERTIES["C07"]["rules"] += [("INSPECT", lambda ctx: rule_inspect(ctx.lib))]
PROPERTIES["C07"]["explanation"] += " (INSPECT) The Context methods behind `help`, `info` and `list` take &self (Context is Freeze) or never call Context::interpret on the live session: commands are not in the saved history, so they must not change `ans` or anything else a replay depends on."

RAWVAL_EXEMPT = {
    "ffi::functions::value_of": "value_of IS the documented raw accessor (`value_of(x)`: the number in front of whatever unit x has)",
    "interpreter::assert_eq::AssertEq2Error::is_floating_point_inaccuracy": "only decides whether the hint 'likely due to floating point inaccuracy' is appended to a failed assertion's message; the operands are fields the constructor already converted to the unit of the right-hand side",
    "ffi::plot::line_plot": "plot output is covered by no listed property; the axis is labelled with the unit of the first element (a mixed-unit list is plotted at face value — noted in DESIGN §14)",
    "ffi::plot::bar_chart": "plot output is covered by no listed property; see line_plot",
}
for _pid in ("C09", "C19"):
    PROPERTIES[_pid]["rules"] += [("RAWVAL", lambda ctx: rule_rawval(ctx.lib, RAWVAL_EXEMPT))]
    PROPERTIES[_pid]["explanation"] += " (RAWVAL) Every Quantity::unsafe_value() outside quantity.rs follows a conversion to a known unit, is paired with a read of the same quantity's unit, or feeds a unit-insensitive test (4 exempt rows with reasons): FFI functions read Scalar arguments unit-aware."

STRBYTE_EXEMPT = {
    ("ffi::datetime::format_datetime", "len"): "the byte length is only the initial capacity of the output buffer; it never reaches the program",
}
PROPERTIES["C09"]["rules"] += [("STRBYTE", lambda ctx: rule_strbyte(ctx.lib, STRBYTE_EXEMPT))]
PROPERTIES["C09"]["explanation"] += " (STRBYTE) No FFI function applies a byte-offset string API (len, get, range indexing, find, split_at, …) to a program string: lengths and positions exchanged with Numbat code are characters, which the library's position-stepping search functions rely on."

from pendeq import rule_pendeq  # noqa: E402
from sugarrules import rule_negsugar, rule_sugarscope  # noqa: E402
from typeparens import rule_typeparens  # noqa: E402

PROPERTIES["C15"]["rules"] += [("TYPEPARENS", lambda ctx: rule_typeparens(ctx.lib)), ("NEGSUGAR", lambda ctx: rule_negsugar(ctx.lib))]
PROPERTIES["C15"]["explanation"] += " (TYPEPARENS) For every operand position of ast::TypeExpression, the variants printed bare (abstract evaluation of the printer arm, through ast::with_parens) are among those the dimension-expression parser level supplying that operand can return without parentheses (one semantic exemption: products regroup to the same dimension). (NEGSUGAR) The Negate arm of the typed printer singles out the conversion calls the prefix transformer produces, because the text `-(x °C)` is always read as from_celsius(-x)."

PROPERTIES["C10"]["rules"] += [("PENDEQ", lambda ctx: rule_pendeq(ctx.lib))]
PROPERTIES["C10"]["explanation"] += " (PENDEQ) Parser::match_exact is interpreted abstractly over (pending `=` from a split `>=`, wanted kind is `=`, next token matches): with a pending `=` nothing but `=` matches and nothing is consumed; the flag does not outlive a failed statement."

PROPERTIES["C09"]["rules"] += [("SUGARSCOPE", lambda ctx: rule_sugarscope(ctx.lib))]
PROPERTIES["C09"]["explanation"] += " (SUGARSCOPE) Both by-name temperature rewrites in the prefix transformer also consult the transformer's scope tables for the identifier, so a parameter called `celsius` stays a parameter."

ECHOFORM_WITNESS = {
    "unit:bps": "`5 Mbps -> kbps` is echoed as `5 megabps ➞ kilobps`; reading that line back: unknown identifier 'megabps'",
    "unit:LOC": "`3 kLOC` is echoed as `3 kiloLOC`: unknown identifier when read back",
}
PROPERTIES["C15"]["rules"] += [("ECHOFORM", lambda ctx: nbt_rules.rule_echoform(ctx.nbt, _prefixes(ctx), ctx.lib, ECHOFORM_WITNESS))]
PROPERTIES["C15"]["explanation"] += " (ECHOFORM) The (prefix spelling, name field) the typed printer emits for a prefixed unit is compared, for every prefixable unit of the standard library, with the prefix forms that name accepts (two known findings: bps, LOC accept only short prefixes)."

from poporder import rule_poporder  # noqa: E402

PROPERTIES["C09"]["rules"] += [("POPORDER", lambda ctx: rule_poporder(ctx.lib))]
PROPERTIES["C09"]["explanation"] += " (POPORDER) Every pop-loop of the VM (call arguments by name and through function values, list elements, string parts, struct fields) restores the source order exactly when the compile site that emits the instruction did not reverse the operands, and walks per-argument metadata in the direction of the popped values."

from tryconv import rule_tryconv  # noqa: E402

TRYCONV_EXEMPT = {
    "command::CommandParser::new": "the converted value is a byte offset inside ONE line handed to the command parser; it exceeds u32 only for a single line of 4 GiB or more",
}
PROPERTIES["C08"]["rules"] += [("TRYCONV", lambda ctx: rule_tryconv(ctx.lib, TRYCONV_EXEMPT))]
PROPERTIES["C08"]["explanation"] += " (TRYCONV) Every integer TryFrom/TryInto conversion in the library is propagated, applied to a constant, or applied to a value clamped to a constant bound (one exempt function with its bound argument): none is an unwrap of an input-dependent value — this includes the code that renders failures."

# ---------------------------------------------------------------- third hunt round (H10 type checker, H11 units, H12 sessions/CLI, H13 VM)
from aliasreg import rule_aliasreg  # noqa: E402
from dimbound import rule_dimbound, rule_hasfield  # noqa: E402
from expsup import rule_expsup  # noqa: E402

for _pid in ("C01", "C02", "C16"):
    PROPERTIES[_pid]["rules"] += [("DIMBOUND", lambda ctx: rule_dimbound(ctx.lib))]
    PROPERTIES[_pid]["explanation"] += " (DIMBOUND) Every requirement 'this operand is a dimension' goes through enforce_dtype, which records the type parameters of a closed dimension type, so an annotation `<A>` without `: Dim` cannot be used in arithmetic."
PROPERTIES["C02"]["rules"] += [("HASFIELD", lambda ctx: rule_hasfield(ctx.lib))]
PROPERTIES["C02"]["explanation"] += " (HASFIELD) Field-access constraints are solved as soon as the struct constructor is known, not only for closed struct types."
for _pid in ("C15", "C16"):
    PROPERTIES[_pid]["rules"] += [("EXPSUP", lambda ctx: rule_expsup(ctx.lib))]
    PROPERTIES[_pid]["explanation"] += " (EXPSUP) Exponents of printed types use unicode superscripts only in the single-digit range the tokenizer reads back."
for _pid in ("C09", "C13", "C08"):
    PROPERTIES[_pid]["rules"] += [("ALIASREG", lambda ctx: rule_aliasreg(ctx.lib))]
    PROPERTIES[_pid]["explanation"] += " (ALIASREG) The name and every alias of a variable (like those of a unit) are registered with the prefix parser, where reserved identifiers and unit clashes are detected."
PROPERTIES["C08"]["rules"] += [("OPTAB.numops", lambda ctx: _numops_only(ctx))]
PROPERTIES["C08"]["explanation"] += " (OPTAB num_operands) The disassembler's operand table agrees with the decoder for every opcode (a disagreement makes `--debug` transmute operand bytes into opcodes)."


def _numops_only(ctx):
    from core import RuleOut
    from optab import rule_optab_operands

    full = rule_optab_operands(ctx.lib)
    o = RuleOut("OPTAB", "the disassembler's operand table agrees with the decoder")
    o.findings = [f for f in full.findings if ":num_operands:" in f.key]
    o.errors = list(full.errors)
    o.analysed = {"num_operands_rows": len(o.findings)}
    o.floor("num_operands_rows", len(o.findings), 30)
    return o


from freshnames import rule_freshnames  # noqa: E402

for _pid in ("C02", "C16"):
    PROPERTIES[_pid]["rules"] += [("FRESHNAMES", lambda ctx: rule_freshnames(ctx.lib))]
    PROPERTIES[_pid]["explanation"] += " (FRESHNAMES) The first character of generated type-variable names (decoded from the format template) is not an identifier-start character according to the tokenizer's own predicate, so no user type parameter can be the solver's variable."

from intern import rule_intern  # noqa: E402

for _pid in ("C13", "C09"):
    PROPERTIES[_pid]["rules"] += [("INTERN", lambda ctx: rule_intern(ctx.lib))]
    PROPERTIES[_pid]["explanation"] += " (INTERN) The VM tables that de-duplicate entries (prefixes, unit information, functions) look an entry up by the whole value or its destructured key, never by a projection shared by different values."

for _pid in ("C16", "C02"):
    PROPERTIES[_pid]["rules"] += [("TRAV.type_queries", trav("type_queries"))]
    PROPERTIES[_pid]["explanation"] += " (TRAV type_queries) The functions that answer a question about a whole type (type_variables, contains, instantiate) visit every Type payload of every variant, so generalisation keeps the `Dim` bound of a variable wherever it occurs (e.g. only in a function type's return type)."

from quaddiag import rule_quaddiag  # noqa: E402

PROPERTIES["C08"]["rules"] += [("QUADDIAG", lambda ctx: rule_quaddiag(ctx.lib))]
PROPERTIES["C08"]["explanation"] += " (QUADDIAG) Error payloads built inside the statement loop of Parser::parse walk the tokens of the current statement only (a prefix of the whole input made N faulty lines cost N² time and output)."
PROPERTIES["C19"]["rules"] += [("SEM", sem("DTSHAPE"))]
PROPERTIES["C19"]["explanation"] += " (SEM DTSHAPE) known finding: the date-time branch of `+`/`-` is selected on operand types before constraint solving."
PROPERTIES["C19"]["rules"] += [("FMTTAB", lambda ctx: rule_fmttab(ctx.lib, ctx.nbt, repo=ctx.repo or _facts.REPO))]
PROPERTIES["C19"]["explanation"] += " (FMTTAB) Every documented example of the date-time format tables in the manual, and every date-time string of the library, is accepted by a format of parse_datetime."

from paramshadow import rule_paramshadow  # noqa: E402

for _pid in ("C01", "C09", "C02"):
    PROPERTIES[_pid]["rules"] += [("PARAMSHADOW", lambda ctx: rule_paramshadow(ctx.lib))]
    PROPERTIES[_pid]["explanation"] += " (PARAMSHADOW) In the checker the parameters of a function are registered in a scope opened after (inside) the registration of the function itself, so a parameter named like the function shadows it, as it does in the compiler."

from dtoaround import rule_dtoaround  # noqa: E402

PROPERTIES["C08"]["rules"] += [("DTOAROUND", lambda ctx: rule_dtoaround(ctx.lib))]
PROPERTIES["C08"]["explanation"] += " (DTOAROUND) A value printed through pretty_dtoa with `max_decimal_digits(p).round()` is rounded to p decimals in the crate first: pretty_dtoa 0.3.0 overflows (`digits.len() - 1`) when every digit is cut off and the remainder rounds up, which aborted the rendering of ordinary assert_eq failures."

from expform import rule_expform  # noqa: E402

PROPERTIES["C15"]["rules"] += [("EXPFORM", lambda ctx: rule_expform(ctx.lib))]
PROPERTIES["C15"]["explanation"] += " (EXPFORM) The printer of written type annotations branches on the spelling the parser recorded for a power and formats a superscript exponent with the same crate::arithmetic formatter as the inferred-type printer, so the echo of an inferred type is a fixed point of echo/re-read."

from panicapi import rule_panicapi  # noqa: E402

PROPERTIES["C08"]["rules"] += [("PANICAPI", lambda ctx: rule_panicapi(ctx.lib))]
PROPERTIES["C08"]["explanation"] += " (PANICAPI) Dependency functions that are known, by reading them, to panic on a condition of the host environment (plotly::Plot::show without an HTML viewer) are called only inside the closure handed to catch_unwind."

from expsup import rule_uexptab  # noqa: E402

for _pid in ("C08", "C10"):
    PROPERTIES[_pid]["rules"] += [("UEXPTAB", lambda ctx: rule_uexptab(ctx.lib))]
    PROPERTIES[_pid]["explanation"] += " (UEXPTAB) Every UnicodeExponent lexeme the tokenizer can produce is listed in the parser's unicode_exponent_to_int, whose fall-through arm is unreachable!()."

from printcast import rule_printcast  # noqa: E402

PROPERTIES["C15"]["rules"] += [("PRINTCAST", lambda ctx: rule_printcast(ctx.lib))]
PROPERTIES["C15"]["explanation"] += " (PRINTCAST) No function that builds the echo casts a float to an integer with `as` without testing integrality: a spelling chosen from the truncated value prints another number."

PROPERTIES["C09"]["rules"] += [("VIEWREAD", lambda ctx: rule_viewread(ctx.lib))]
PROPERTIES["C09"]["explanation"] += " (VIEWREAD) Every element read of the shared deque in list.rs is offset by the view window, so head/tail/element access return the element the source denotes whether or not the storage is shared (seed C09-5: `head(tail([10, 20, 30]))` = 10)."

from caseguard import rule_caseguard  # noqa: E402

PROPERTIES["C10"]["rules"] += [("CASEGUARD", lambda ctx: rule_caseguard(ctx.lib))]
PROPERTIES["C10"]["explanation"] += " (CASEGUARD) Within one condition of the tokenizer, the two case spellings of a letter (`e`/`E`) are consumed under the same `&&` look-ahead guard."

from fulliter import rule_fulliter  # noqa: E402

for _pid in ("C16", "C02"):
    PROPERTIES[_pid]["rules"] += [("FULLITER", lambda ctx: rule_fulliter(ctx.lib))]
    PROPERTIES[_pid]["explanation"] += " (FULLITER) A method of DType / Type / TypeScheme that returns a collection walks the fields of self without a truncating iterator adapter: generalisation and is_closed() see every type parameter, wherever the canonical order puts it."

NOT_APPLICABLE = {
    "C03": "numerical agreement of conversion factors over 500 units is a statement about run-time values; no structural clause is a necessary condition that is not already covered under C04/C11/C12 (static analysis cannot bound the arithmetic)",
    "C14": "a statement about the decimal rendering of every f64 under every format setting; the code delegates to pretty_dtoa/num_format and no structural clause of Number::pretty_print_with_dtoa_config can be decided without evaluating it",
    "C23": "numeric round trips over function domains; composing the .nbt function bodies algebraically would be symbolic evaluation, which is a different technique family",
}
