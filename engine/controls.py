#!/usr/bin/env python3
"""Positive-control crate: facts for engine/nbfacts/controls (no cargo, direct driver call)."""
import json
import os
import subprocess
import sys
import tempfile

HERE = os.path.dirname(os.path.abspath(__file__))
sys.path.insert(0, HERE)
import facts  # noqa: E402

SRC = os.path.join(HERE, "nbfacts", "controls", "src", "lib.rs")
OUT = os.path.join(facts.CACHE, "facts", "controls")


def build():
    facts.ensure_driver()
    os.makedirs(OUT, exist_ok=True)
    env = dict(os.environ)
    env.update({"LD_LIBRARY_PATH": facts.nightly_sysroot() + "/lib", "NBFACTS_OUT": OUT, "NBFACTS_TAG": "default"})
    with tempfile.TemporaryDirectory() as td:
        cmd = [facts.DRIVER, "rustc", "--crate-name", "nbcontrols", "--crate-type", "lib", "--edition", "2021", SRC,
               "--emit=metadata", "-Zmir-opt-level=0", "-Awarnings", "--out-dir", td]
        subprocess.check_call(cmd, env=env, cwd=os.path.dirname(SRC))
    p = os.path.join(OUT, "nbcontrols-lib-default.json")
    if not os.path.exists(p):
        raise SystemExit("controls: fact file not produced")
    return p


def load():
    p = os.path.join(OUT, "nbcontrols-lib-default.json")
    stale = (not os.path.exists(p)) or os.path.getmtime(p) < max(os.path.getmtime(SRC), os.path.getmtime(facts.DRIVER))
    if stale:
        build()
    with open(p) as f:
        return json.loads(facts.normalize_paths(f.read()))


if __name__ == "__main__":
    print(build())
