"""MIR helpers: CFG, dominators, def chains."""


class Mir:
    def __init__(self, crate, body):
        self.crate = crate
        self.b = body
        self.blocks = body["body"]["blocks"]
        self.locals = body["body"]["locals"]
        self.n = len(self.blocks)
        self.succ = [self._succ(i) for i in range(self.n)]
        self.pred = [[] for _ in range(self.n)]
        for i, ss in enumerate(self.succ):
            for s in ss:
                self.pred[s].append(i)
        self._dom = None
        self.defs = {}  # local -> [(block, kind, payload)]
        for bi, blk in enumerate(self.blocks):
            for st in blk["stmts"]:
                if st.get("k") == "assign" and "p" not in st["pl"]:
                    self.defs.setdefault(st["pl"]["l"], []).append((bi, "rv", st["rv"], st))
            t = blk["term"]
            if t.get("k") == "call" and "p" not in t["dest"]:
                self.defs.setdefault(t["dest"]["l"], []).append((bi, "call", t, t))

    def _succ(self, i):
        t = self.blocks[i]["term"]
        k = t.get("k")
        if k in ("goto", "drop", "assert"):
            return [t["t"]]
        if k == "call":
            return [t["t"]] if "t" in t else []
        if k == "switch":
            return [x[1] for x in t["targets"]] + [t["otherwise"]]
        return []

    def dominators(self):
        if self._dom is not None:
            return self._dom
        n = self.n
        order = []
        seen = [False] * n
        stack = [(0, iter(self.succ[0]))]
        seen[0] = True
        while stack:
            v, it = stack[-1]
            adv = False
            for w in it:
                if not seen[w]:
                    seen[w] = True
                    stack.append((w, iter(self.succ[w])))
                    adv = True
                    break
            if not adv:
                order.append(v)
                stack.pop()
        rpo = list(reversed(order))
        idx = {v: i for i, v in enumerate(rpo)}
        idom = {0: 0}
        changed = True
        while changed:
            changed = False
            for v in rpo[1:]:
                ps = [p for p in self.pred[v] if p in idom]
                if not ps:
                    continue
                new = ps[0]
                for p in ps[1:]:
                    a, b = p, new
                    while a != b:
                        while idx[a] > idx[b]:
                            a = idom[a]
                        while idx[b] > idx[a]:
                            b = idom[b]
                    new = a
                if idom.get(v) != new:
                    idom[v] = new
                    changed = True
        self._dom = idom
        return idom

    def dominates(self, a, b):
        idom = self.dominators()
        if b not in idom:
            return False
        x = b
        while True:
            if x == a:
                return True
            if x == 0 or x not in idom:
                return a == 0
            x = idom[x]

    def name(self, l):
        return self.locals[l].get("name")

    def ty(self, l):
        return self.crate.types[self.locals[l]["t"]]

    def trace(self, op, depth=0, seen=None):
        """Facts about where an operand comes from: {'fields': set, 'calls': set, 'names': set, 'consts': set, 'ops': set}"""
        acc = {"fields": set(), "calls": set(), "names": set(), "consts": set(), "ops": set()}
        seen = seen if seen is not None else set()

        def place(pl):
            for p in pl.get("p", []):
                if isinstance(p, dict) and "f" in p:
                    acc["fields"].add(p["f"])
            l = pl["l"]
            nm = self.name(l)
            if nm:
                acc["names"].add(nm)
            if l in seen or depth > 12:
                return
            seen.add(l)
            for (bi, kind, payload, _st) in self.defs.get(l, []):
                if kind == "rv":
                    rv = payload
                    if rv.get("rv") == "binop":
                        acc["ops"].add(rv["op"])
                    for k in ("op", "a", "b"):
                        if isinstance(rv.get(k), dict):
                            operand(rv[k])
                    if "pl" in rv:
                        place(rv["pl"])
                    for o in rv.get("ops", []) or []:
                        operand(o)
                else:
                    f = payload["f"]
                    if f.get("o") == "const" and "fn" in f:
                        acc["calls"].add(f.get("inst") or f["fn"])
                    for a in payload.get("args", []):
                        operand(a)

        def operand(o):
            if o.get("o") in ("copy", "move"):
                place(o["pl"])
            elif o.get("o") == "const" and "c" in o:
                acc["consts"].add(o["c"])

        operand(op)
        return acc


# ---------------------------------------------------------------- boolean guards
def bool_source(m, op, depth=0):
    """Follow a bool operand back through copies/moves and `!` to the local that a call wrote.
    -> (local, number of negations) or None"""
    if op.get("o") not in ("copy", "move") or "p" in op["pl"] or depth > 10:
        return None
    l = op["pl"]["l"]
    defs = m.defs.get(l, [])
    if len(defs) != 1:
        return (l, 0)
    (bi, kind, payload, _st) = defs[0]
    if kind == "call":
        return (l, 0)
    rv = payload
    if rv.get("rv") == "use" and isinstance(rv.get("op"), dict):
        r = bool_source(m, rv["op"], depth + 1)
        return r if r else (l, 0)
    if rv.get("rv") == "unop" and rv.get("op") == "Not":
        r = bool_source(m, rv["a"], depth + 1)
        if r:
            return (r[0], r[1] + 1)
    return (l, 0)


def guarded_blocks(m, dest_local, want_true):
    """Blocks that execute only when the bool written to `dest_local` is `want_true`: blocks dominated by the
    corresponding successor of a switch on (a copy / negation of) that local, where that successor has the switch
    block as its only predecessor.  Returns (set of blocks, [switch block indices])."""
    heads = []
    switches = []
    for i, blk in enumerate(m.blocks):
        t = blk["term"]
        if t.get("k") != "switch":
            continue
        src = bool_source(m, t["discr"])
        if not src or src[0] != dest_local:
            continue
        switches.append(i)
        zero = [tg for (v, tg) in t["targets"] if str(v) == "0"]
        nonzero = [tg for (v, tg) in t["targets"] if str(v) != "0"] + [t["otherwise"]]
        value_true = nonzero if src[1] % 2 == 0 else zero
        value_false = zero if src[1] % 2 == 0 else nonzero
        for tg in (value_true if want_true else value_false):
            if m.pred[tg] == [i] or set(m.pred[tg]) == {i}:
                heads.append(tg)
    out = set()
    for b in range(m.n):
        if any(m.dominates(h, b) for h in heads):
            out.add(b)
    return out, switches
