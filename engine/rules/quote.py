"""R17 QUOTE — user string payloads reach `markup::string` only through `escape_numbat_string`
and between quote operators (so the echoed form re-reads as the same string literal)."""
from core import RuleOut
from errd import parent_map
from hirlib import callee, peel, peel_refs, walk


def is_quote_op(n):
    n = peel(n)
    if n.get("k") == "Call" and (callee(n) or "").endswith("markup::operator") and n["args"]:
        a = peel_refs(n["args"][0])
        return a.get("k") == "Lit" and a["lit"].get("v") == '"'
    return False


def chain_leaves(top):
    out = []

    def rec(n):
        n = peel(n)
        if n.get("k") == "Binary" and n.get("op") == "+":
            rec(n["l"])
            rec(n["r"])
        else:
            out.append(n)

    rec(top)
    return out


def enclosing_chain(node, pm):
    cur = node
    while True:
        p = pm.get(id(cur))
        if p is None:
            return cur
        if p.get("k") in ("DropTemps", "Use"):
            cur = p
            continue
        if p.get("k") == "Binary" and p.get("op") == "+":
            cur = p
            continue
        return cur


def leaf_index(leaves, node):
    for i, l in enumerate(leaves):
        if any(x is node for x in walk(l)):
            return i
    return None


def bracketed(node, pm):
    top = enclosing_chain(node, pm)
    leaves = chain_leaves(top)
    i = leaf_index(leaves, node)
    if i is None:
        return False
    return 0 < i < len(leaves) - 1 and is_quote_op(leaves[i - 1]) and is_quote_op(leaves[i + 1])


def rule_quote(crate, files=("numbat/src/typed_ast.rs",), min_sites=2):
    out = RuleOut("QUOTE", "string payloads are echoed escaped and between quotes")
    sites = 0
    # callers of <StringPart as PrettyPrint>::pretty_print that bracket the parts with quotes
    sp_callers_ok = False
    for d, b in crate.hir.items():
        pm = None
        for n in walk(b["body"]):
            if n.get("k") == "MethodCall" and "StringPart" in (n.get("inst") or "") and (n.get("inst") or "").endswith("::pretty_print"):
                pm = pm or parent_map(b["body"])
                # the call sits inside iter().map(|p| p.pretty_print()).sum(): climb to the closure's enclosing call chain
                cur = n
                while True:
                    p = pm.get(id(cur))
                    if p is None:
                        break
                    if p.get("k") == "Binary" and p.get("op") == "+":
                        break
                    cur = p
                if bracketed(cur, pm):
                    sp_callers_ok = True
    for d, b in crate.hir.items():
        if not any(crate.file_of(b).endswith(f) for f in files):
            continue
        pm = None
        short = d.split("::")[-1] if not b.get("impl_trait") else "<%s>::%s" % (b.get("impl_self", "").split("::")[-1].split("<")[0], b["name"])
        idx = 0
        for n in walk(b["body"]):
            if n.get("k") != "Call" or not (callee(n) or "").endswith("markup::string"):
                continue
            arg = peel_refs(n["args"][0])
            if arg.get("k") == "Lit":
                continue
            sites += 1
            pm = pm or parent_map(b["body"])
            f, l = crate.loc(b, n)
            key = "%s:string#%d" % (short, idx)
            idx += 1
            escaped = any(x.get("k") == "Call" and (callee(x) or "").endswith("escape_numbat_string") for x in walk(n["args"][0]))
            top_is_escape = False
            a0 = peel(n["args"][0])
            while a0.get("k") == "MethodCall" and a0["name"] in ("into", "to_compact_string", "clone", "to_string"):
                a0 = peel(a0["recv"])
            if a0.get("k") == "Call" and (callee(a0) or "").endswith("escape_numbat_string"):
                top_is_escape = True
            problems = []
            if not (escaped and top_is_escape):
                problems.append("the payload is not passed through escape_numbat_string")
            br = bracketed(n, pm)
            if not br:
                if "StringPart" in b.get("impl_self", "") and sp_callers_ok:
                    br = True
                else:
                    problems.append("it is not placed between `\"` operators")
            if problems:
                out.violation(key, f, l, "%s: `markup::string(..)` of a string payload: %s (the echoed text would not re-read as the same string literal)" % (short, "; ".join(problems)))
            else:
                out.ok(key, f, l, "escaped with escape_numbat_string and enclosed in quotes")
    out.analysed = {"string_sites": sites, "stringpart_callers_bracketed": sp_callers_ok}
    out.floor("string_sites", sites, min_sites)
    return out
