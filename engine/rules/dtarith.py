"""DTARITH — structural necessary conditions of `(t + d) - t == d` and `(t + d) - d == t` in the VM's date-time arms.

  split     the duration (f64 seconds) is split into a whole-second part and a nanosecond part that are handed to
            one jiff::Span.  The two parts must come from the same value and use the SAME rounding mode:
            truncation (`to_i64`, `trunc`, `as i64`) pairs with `fract()`; `floor` pairs with `x - x.floor()`, …
            A mixed pair (floor + fract) is off by one second for every negative non-integral duration.
  opmap     AddToDateTime applies checked_add and SubFromDateTime applies checked_sub, both to the date-time popped
            last (the left operand) with the span built from the quantity popped first.
  diff      DiffDateTime computes `lhs.since(&rhs)` with lhs the date-time popped LAST (pushed first = left operand);
            swapping them negates every difference.
"""
from core import RuleOut
from hirlib import callee, local_of, pat_variants, peel, peel_refs, strip_generics, walk

OP = "crate::vm::Op"
WHOLE_MODES = {"floor": "floor", "ceil": "ceil", "round": "round", "trunc": "trunc", "round_ties_even": "round"}


def _arms(crate, run):
    found = {}
    for m in walk(run["body"]):
        if m.get("k") == "Match" and str(m.get("src")) == "Normal" and strip_generics(crate.ty(peel_refs(m["scrut"]))) == OP:
            for a in m["arms"]:
                vs = pat_variants(a["pat"], OP)
                if vs and vs <= {"AddToDateTime", "SubFromDateTime", "DiffDateTime"} and len(m["arms"]) > 10:
                    found[frozenset(vs)] = a
    return found


def _lets(body):
    d = {}
    for n in walk(body):
        if n.get("k") == "Let" and "src" in n and n.get("init") is not None and n["pat"].get("k") == "Binding":
            d[n["pat"]["id"]] = n
    return d


def _chain(e, lets, names, roots, depth=0):
    """method names applied on the way from a root local to e (through let-bound intermediates)"""
    for x in walk(e):
        k = x.get("k")
        if k == "MethodCall":
            names.append(x["name"])
        elif k == "Cast":
            names.append("as")
        elif k == "Binary":
            names.append("bin:" + str(x.get("op")))
        elif k == "Path" and x["res"].get("r") == "local":
            i = x["res"]["id"]
            if i in lets and depth < 6:
                init = lets[i]["init"]
                sub_names, sub_roots = [], set()
                _chain(init, lets, sub_names, sub_roots, depth + 1)
                # a let whose initializer contains no float rounding at all is a root candidate
                names.extend(sub_names)
                roots |= sub_roots or {i}
                roots.add(i)
            else:
                roots.add(i)


def rule_dtarith(crate):
    out = RuleOut("DTARITH", "date-time plus/minus duration splits the duration consistently and applies the operator it names; the difference is left minus right")
    run = crate.find_fn("vm::Vm::run_without_cleanup")
    f = crate.file_of(run)
    arms = _arms(crate, run)
    addsub = arms.get(frozenset({"AddToDateTime", "SubFromDateTime"}))
    diff = arms.get(frozenset({"DiffDateTime"}))
    if addsub is None or diff is None:
        out.error("anchor missing: AddToDateTime|SubFromDateTime arm or DiffDateTime arm of Vm::run_without_cleanup")
        return out
    n_sites = 0
    # ---------------- split
    # the span may be built in the arm itself or in a crate-local helper the arm calls (one level)
    split_owner, split_body = run, addsub["body"]
    candidates = [(run, addsub["body"])]
    for n in walk(addsub["body"]):
        if n.get("k") in ("MethodCall", "Call"):
            cb = crate.hir.get(callee(n) or "")
            if cb is not None and cb is not run:
                candidates.append((cb, cb["body"]))
    for (owner_fn, body) in candidates:
        if any(x.get("k") == "MethodCall" and x["name"] in ("try_seconds", "seconds") for x in walk(body)) and any(x.get("k") == "MethodCall" and x["name"] in ("try_nanoseconds", "nanoseconds") for x in walk(body)):
            split_owner, split_body = owner_fn, body
            break
    lets = _lets(split_body)
    whole_calls = [n for n in walk(split_body) if n.get("k") == "MethodCall" and n["name"] in ("try_seconds", "seconds")]
    nano_calls = [n for n in walk(split_body) if n.get("k") == "MethodCall" and n["name"] in ("try_nanoseconds", "nanoseconds")]
    af, al = crate.loc(run, addsub["pat"])
    if len(whole_calls) != 1 or len(nano_calls) != 1:
        out.error("anchor missing: the AddToDateTime arm does not build its span from exactly one seconds(..) and one nanoseconds(..) call (%d, %d)" % (len(whole_calls), len(nano_calls)))
    else:
        n_sites += 2
        wn, wr, fn_, fr = [], set(), [], set()
        _chain(whole_calls[0]["args"][0], lets, wn, wr)
        _chain(nano_calls[0]["args"][0], lets, fn_, fr)
        wmodes = {WHOLE_MODES[x] for x in wn if x in WHOLE_MODES}
        wmode = "trunc" if not wmodes else (wmodes.pop() if len(wmodes) == 1 else "mixed")
        if not (set(wn) & {"to_i64", "trunc", "as", "floor", "ceil", "round"}):
            wmode = "none"
        # fractional part
        if "fract" in fn_:
            fmode = "trunc"
        elif any(x.startswith("bin:Sub") for x in fn_):
            ms = {WHOLE_MODES[x] for x in fn_ if x in WHOLE_MODES and x != "round"}
            fmode = ms.pop() if len(ms) == 1 else "unknown"
        elif any(x.startswith("bin:Rem") for x in fn_):
            fmode = "trunc"
        else:
            fmode = "unknown"
        wf, wl = crate.loc(split_owner, whole_calls[0])
        common = {i for i in (wr & fr) if i in lets and crate.ty(lets[i]["pat"]) == "f64"}
        if not common:
            out.violation("vm:AddToDateTime:split:same-source", wf, wl, "the whole-second part and the nanosecond part of the span are not derived from one common value")
        else:
            out.ok("vm:AddToDateTime:split:same-source", wf, wl, "both parts derive from the same f64 seconds value")
        if wmode == fmode and wmode in ("trunc", "floor", "ceil"):
            out.ok("vm:AddToDateTime:split:rounding", wf, wl, "whole seconds by %s (%s), sub-second part by the matching complement (%s)" % (wmode, [x for x in wn if not x.startswith("bin:")], [x for x in fn_ if not x.startswith("bin:")]))
        elif fmode == "unknown" or wmode in ("none", "mixed"):
            out.advisory("vm:AddToDateTime:split:rounding", wf, wl, "unrecognised split idiom (whole: %s, fraction: %s); not decided" % (wn, fn_))
        else:
            out.violation("vm:AddToDateTime:split:rounding", wf, wl, "the whole-second part is taken by %s but the sub-second part is the complement of %s (methods: whole %s, fraction %s): for negative non-integral durations seconds + nanoseconds differs from the duration by one second, so (t + d) - t != d" % (wmode, fmode, [x for x in wn if not x.startswith("bin:")], [x for x in fn_ if not x.startswith("bin:")]))
    # ---------------- opmap
    inner = None
    for m in walk(addsub["body"]):
        if m.get("k") == "Match" and str(m.get("src")) == "Normal" and strip_generics(crate.ty(peel_refs(m["scrut"]))) == OP:
            inner = m
    arm_lets = _lets(addsub["body"])
    pops_dt = [n for n in arm_lets.values() if (callee(peel(n["init"])) or "").endswith("Vm::pop_datetime")]
    if inner is None or len(pops_dt) != 1:
        out.error("anchor missing: inner `match op` / single pop_datetime of the AddToDateTime arm")
    else:
        want = {"AddToDateTime": "checked_add", "SubFromDateTime": "checked_sub"}
        for a in inner["arms"]:
            vs = pat_variants(a["pat"], OP)
            if not vs:
                continue
            for v in vs:
                n_sites += 1
                calls = [n for n in walk(a["body"]) if n.get("k") == "MethodCall" and n["name"] in ("checked_add", "checked_sub", "saturating_add", "saturating_sub")]
                cf, cl = crate.loc(run, a["pat"])
                key = "vm:%s:operator" % v
                if len(calls) == 1 and calls[0]["name"] == want.get(v) and local_of(calls[0]["recv"]) == pops_dt[0]["pat"]["id"]:
                    out.ok(key, cf, cl, "%s applies %s to the popped date-time" % (v, want[v]))
                else:
                    out.violation(key, cf, cl, "%s must apply %s to the popped date-time; found %s" % (v, want.get(v), [c["name"] for c in calls]))
    # ---------------- diff
    dlets = _lets(diff["body"])
    pops = sorted([n for n in dlets.values() if (callee(peel(n["init"])) or "").endswith("Vm::pop_datetime")], key=lambda n: (n["s"][0], n["s"][1]))
    since = [n for n in walk(diff["body"]) if n.get("k") == "MethodCall" and n["name"] in ("since", "until", "duration_since", "duration_until")]
    df, dl = crate.loc(run, diff["pat"])
    if len(pops) != 2 or len(since) != 1:
        out.error("anchor missing: DiffDateTime arm needs two pop_datetime lets and one since/until call (%d, %d)" % (len(pops), len(since)))
    else:
        n_sites += 1
        first, second = pops[0]["pat"], pops[1]["pat"]  # first popped = right operand
        s = since[0]
        recv = local_of(s["recv"])
        arg = local_of(s["args"][0])
        sf, sl = crate.loc(run, s)
        good = (s["name"] in ("since", "duration_since") and recv == second["id"] and arg == first["id"]) or (s["name"] in ("until", "duration_until") and recv == first["id"] and arg == second["id"])
        if good:
            out.ok("vm:DiffDateTime:orientation", sf, sl, "difference = (date-time popped last, `%s`) minus (date-time popped first, `%s`)" % (second["name"], first["name"]))
        else:
            out.violation("vm:DiffDateTime:orientation", sf, sl, "the difference is taken in the wrong direction: `%s` (popped first = right operand) must be subtracted from `%s`" % (first["name"], second["name"]))
    # ---------------- diff precision: the difference reaches the result as FRACTIONAL seconds
    INT_ACCESSORS = {"as_secs", "as_millis", "as_micros", "as_nanos", "get_seconds", "get_milliseconds", "get_minutes", "get_hours", "whole_seconds", "num_seconds"}
    FRAC_ACCESSORS = {"total", "as_secs_f64", "as_secs_f32", "as_millis_f64", "as_fractional_seconds"}
    from_f64 = [n for n in walk(diff["body"]) if n.get("k") == "Call" and (callee(n) or "").endswith("Number::from_f64")]
    if len(from_f64) == 1:
        n_sites += 1
        names, roots = [], set()
        _chain(from_f64[0]["args"][0], dlets, names, roots)
        ff, fl = crate.loc(run, from_f64[0])
        ints = [x for x in names if x in INT_ACCESSORS]
        fracs = [x for x in names if x in FRAC_ACCESSORS]
        if ints and not fracs:
            out.violation("vm:DiffDateTime:precision", ff, fl, "the difference of two date-times is taken through the integer accessor `%s()`: its sub-second part is dropped, so (t + d) - t != d for every d with a fractional number of seconds" % ints[0])
        elif fracs:
            out.ok("vm:DiffDateTime:precision", ff, fl, "the difference is converted with the fractional accessor `%s`" % fracs[0])
        else:
            out.advisory("vm:DiffDateTime:precision", ff, fl, "unrecognised way of turning the difference into seconds (%s); not decided" % [x for x in names if not x.startswith("bin:")][:6])
    out.analysed = {"sites": n_sites}
    out.floor("sites", n_sites, 5)
    return out


def rule_floatcast(crate, files=("numbat/src/ffi/datetime.rs", "numbat/src/datetime.rs")):
    """FLOATCAST — in the date-time code a float is turned into an integer only by a CHECKED conversion (`to_i64()`),
    never by `as`: the `as` cast maps NaN to 0 and saturates infinities, which turns an invalid argument into a valid
    but wrong date (from_unixtime(NaN) = 1970-01-01) instead of an error.  Exempt: the rounding of a fractional part
    (`(x.fract() * 1e9).round() as i64`, bounded by construction)."""
    out = RuleOut("FLOATCAST", "no unchecked float-to-integer cast in the date-time code")
    n = 0
    bodies = [b for d, b in crate.hir.items() if any(crate.file_of(b).endswith(x) for x in files) and "::tests::" not in d]
    run = crate.find_fn("vm::Vm::run_without_cleanup")
    arms = _arms(crate, run)
    scopes = [(b, b["body"]) for b in bodies] + [(run, a["body"]) for a in arms.values()]
    for (fn, body) in scopes:
        for c in walk(body):
            if c.get("k") != "Cast":
                continue
            src = crate.ty(c["e"])
            dst = crate.ty(c)
            if src not in ("f64", "f32") or not (dst.startswith("i") or dst.startswith("u")):
                continue
            n += 1
            cf, cl = crate.loc(fn, c)
            key = "%s:%s->%s" % (fn["name"], src, dst)
            if any(x.get("k") == "MethodCall" and x["name"] == "fract" for x in walk(c["e"])):
                out.exempt(key, cf, cl, "rounds `fract() * 1e9`: |x| <= 1e9 by construction")
            else:
                out.violation(key, cf, cl, "`<float> as %s` in `%s`: NaN becomes 0 and infinities saturate, so an invalid argument yields a valid but wrong date instead of an error (use the checked `to_i64()`)" % (dst, fn["name"]))
    if n == 0 or not any(f.verdict == "violation" for f in out.findings):
        out.ok("no-unchecked-float-cast", files[0], 1, "%d float-to-integer cast(s) in the date-time code, all bounded" % n)
    out.analysed = {"bodies": len(scopes), "float_to_int_casts": n}
    out.floor("bodies", len(scopes), 10)
    return out
