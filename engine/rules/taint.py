"""R5 TAINT — a source reaches a sink only through a sanitiser (HIR, per function, with named summaries)."""
import re

from core import RuleOut
from hirlib import callee, callee_decl, peel, peel_refs, place_path, walk

CLEAN_METHODS = {"is_empty", "len", "contains", "starts_with", "ends_with", "eq", "ne", "fg", "bold", "is_some", "is_none"}


class Taint:
    def __init__(self, crate, fn, sources, sanitizers, sink_fields=(), self_name="self"):
        self.crate = crate
        self.fn = fn
        self.san = [re.compile(s) for s in sanitizers]
        self.tainted = set(sources)
        self.sink_fields = set(sink_fields)
        self.self_id = None
        for p in fn["params"]:
            if p.get("k") == "Binding" and p.get("name") == self_name:
                self.self_id = p["id"]
        self.sanitized_calls = []
        self.fix()

    def is_san(self, n):
        for c in (callee(n), callee_decl(n)):
            if c and any(r.search(c) for r in self.san):
                return True
        return False

    def expr_tainted(self, e):
        """Deep: does the value of e (or anything it is built from) carry taint?"""
        if isinstance(e, list):
            return any(self.expr_tainted(x) for x in e)
        if not isinstance(e, dict):
            return False
        k = e.get("k")
        if k == "Path":
            r = e["res"]
            return r.get("r") == "local" and r["id"] in self.tainted
        if k == "Lit":
            return False
        if k in ("Call", "MethodCall"):
            if self.is_san(e):
                return False
            if k == "MethodCall" and e["name"] in CLEAN_METHODS:
                return False
        if k == "Closure":
            return self.expr_tainted(e["body"])
        if k in ("If",):
            return self.expr_tainted(e["then"]) or (e.get("else") is not None and self.expr_tainted(e["else"]))
        if k == "Match":
            return any(self.expr_tainted(a["body"]) for a in e["arms"])
        if k == "Block":
            t = e.get("tail")
            return self.expr_tainted(t) if t is not None else False
        if k in ("Let",):
            return False
        for kk, v in e.items():
            if kk in ("s", "t", "at", "res", "lit", "pat", "params"):
                continue
            if kk == "fields" and isinstance(v, list):
                if any(isinstance(it, list) and len(it) == 2 and self.expr_tainted(it[1]) for it in v):
                    return True
                continue
            if isinstance(v, (dict, list)) and self.expr_tainted(v):
                return True
        return False

    def fix(self):
        nodes = list(walk(self.fn["body"]))
        changed = True
        while changed:
            changed = False

            def taint_pat(p):
                nonlocal changed
                for b in walk(p):
                    if b.get("k") == "Binding" and b["id"] not in self.tainted:
                        self.tainted.add(b["id"])
                        changed = True

            for n in nodes:
                k = n.get("k")
                if k == "Let" and n.get("init") is not None and "pat" in n:
                    if self.expr_tainted(n["init"]):
                        taint_pat(n["pat"])
                elif k == "Match":
                    if self.expr_tainted(n["scrut"]):
                        for a in n["arms"]:
                            taint_pat(a["pat"])
                elif k in ("Assign", "AssignOp"):
                    p = place_path(n["l"])
                    if p and p[0] != self.self_id and self.expr_tainted(n["r"]):
                        if p[0] not in self.tainted:
                            self.tainted.add(p[0])
                            changed = True
                elif k == "MethodCall":
                    # mutation of a local through a &mut method with a tainted argument
                    if self.is_san(n):
                        continue
                    p = place_path(n["recv"])
                    if p and p[0] != self.self_id and not p[2]:
                        at = self.crate.ty(peel(n["recv"]), adjusted=True)
                        ty = self.crate.ty(peel(n["recv"]))
                        if (at.startswith("&mut") or ty.startswith("&mut")) and self.expr_tainted(n["args"]):
                            if p[0] not in self.tainted:
                                self.tainted.add(p[0])
                                changed = True
                    # closure parameters of iterator adaptors over tainted receivers
                    if self.expr_tainted(n["recv"]):
                        for a in n["args"]:
                            a = peel(a)
                            if a.get("k") == "Closure":
                                for cp in a["params"]:
                                    taint_pat(cp)

    def return_exprs(self):
        out = []
        b = peel(self.fn["body"])
        if b.get("k") == "Block":
            if b.get("tail") is not None:
                out.append(b["tail"])
        else:
            out.append(b)
        for n in walk(self.fn["body"], into_closures=False):
            if n.get("k") == "Ret" and n.get("e") is not None:
                out.append(n["e"])
        return out

    def sink_calls(self):
        """(node, tainted?) for every call that writes into self.<sink field>."""
        res = []
        for n in walk(self.fn["body"]):
            if n.get("k") == "MethodCall":
                p = place_path(n["recv"])
                if p and p[0] == self.self_id and p[2] and p[2][0] in self.sink_fields:
                    at = self.crate.ty(peel(n["recv"]), adjusted=True)
                    if at.startswith("&mut"):
                        res.append((n, self.expr_tainted(n["args"])))
            if n.get("k") == "Call":
                for a in n["args"]:
                    a2 = peel(a)
                    if a2.get("k") == "AddrOf" and a2.get("mut"):
                        p = place_path(a2["e"])
                        if p and p[0] == self.self_id and p[2] and p[2][0] in self.sink_fields:
                            others = [x for x in n["args"] if x is not a]
                            res.append((n, (not self.is_san(n)) and self.expr_tainted(others)))
        return res


def binding_ids(fn, names):
    ids = set()
    for p in fn["params"]:
        for b in walk(p):
            if b.get("k") == "Binding" and b["name"] in names:
                ids.add(b["id"])
    return ids


def is_constant_expr(crate, fn, e, depth=0):
    """True if e can only evaluate to values built from literals / unit variants (through let, if, match)."""
    e = peel_refs(e)
    k = e.get("k")
    if k == "Lit":
        return True
    if k == "Path":
        r = e["res"]
        if r.get("r") == "def":
            return True  # constants, unit variants (None)
        if r.get("r") == "local" and depth < 6:
            for n in walk(fn["body"]):
                if n.get("k") == "Let" and n.get("init") is not None and n.get("pat", {}).get("k") == "Binding" and n["pat"]["id"] == r["id"]:
                    return is_constant_expr(crate, fn, n["init"], depth + 1)
        return False
    if k == "Call":
        f = peel(e["f"])
        if f.get("k") == "Path" and f["res"].get("variant") in ("Some",):
            return all(is_constant_expr(crate, fn, a, depth + 1) for a in e["args"])
        return False
    if k == "If":
        return is_constant_expr(crate, fn, e["then"], depth + 1) and (e.get("else") is None or is_constant_expr(crate, fn, e["else"], depth + 1))
    if k == "Match":
        return all(is_constant_expr(crate, fn, a["body"], depth + 1) for a in e["arms"])
    if k == "Block":
        return e.get("tail") is not None and is_constant_expr(crate, fn, e["tail"], depth + 1)
    return False


SAN_LIB = [r"^html_escape::encode_"]


def carries_text(crate, ty):
    """False only for types that cannot hold user text: field-less enums, numbers, bool."""
    from hirlib import strip_generics

    t = strip_generics(ty)
    if t in ("bool", "u8", "u16", "u32", "u64", "usize", "i8", "i16", "i32", "i64", "isize", "f32", "f64", "()"):
        return False
    adt = crate.adts.get(t)
    if adt and adt.get("kind") == "enum" and all(not v["fields"] for v in adt.get("variants", [])):
        return False
    return True


def rule_html_taint(crate):
    out = RuleOut("TAINT", "user text reaches HTML output only through html_escape / the byte-wise escaper")
    # ---- html_format(class, content): `content` -> return only through encode_text; `class` is trusted here and
    #      must be a constant at every call site (checked below)
    hf = crate.find_fn("html_formatter::html_format")
    f = crate.file_of(hf)
    t = Taint(crate, hf, binding_ids(hf, {"content"}), SAN_LIB)
    rets = t.return_exprs()
    bad = [r for r in rets if t.expr_tainted(r)]
    if bad:
        out.violation("html_format:content->return", *crate.loc(hf, bad[0]), detail="`content` reaches the returned markup without passing through html_escape::encode_*")
    else:
        out.ok("html_format:content->return", f, hf["line"], "%d return expression(s): `content` only flows through html_escape::encode_*" % len(rets))
    # ---- call sites of html_format: class argument constant
    n_sites = 0
    for d, b in crate.hir.items():
        for n in walk(b["body"]):
            if n.get("k") == "Call" and (callee(n) or "").endswith("html_formatter::html_format"):
                n_sites += 1
                cf, cl = crate.loc(b, n)
                if is_constant_expr(crate, b, n["args"][0]):
                    out.ok("html_format:class-constant:%s" % d.split("::")[-1], cf, cl, "class argument is built from literals only")
                else:
                    out.violation("html_format:class-constant:%s" % d.split("::")[-1], cf, cl, "the CSS class argument of html_format is not a compile-time constant (it is interpolated unescaped into an attribute)")
    # ---- HtmlFormatter::format_part: payload text -> return only through html_format
    fp = None
    for b in crate.impl_methods("markup::Formatter", "format_part"):
        if "HtmlFormatter" in b.get("impl_self", ""):
            fp = b
    if fp is None:
        out.error("anchor missing: <HtmlFormatter as Formatter>::format_part")
    else:
        src = set()
        for p in fp["params"]:
            for bnd in walk(p):
                if bnd.get("k") == "Binding" and bnd["name"] != "self" and carries_text(crate, crate.ty(bnd)):
                    src.add(bnd["id"])
        t = Taint(crate, fp, src, SAN_LIB + [r"html_formatter::html_format$"])
        rets = t.return_exprs()
        bad = [r for r in rets if t.expr_tainted(r)]
        if not src:
            out.error("format_part: no text payload binding found")
        elif bad:
            out.violation("format_part:text->return", *crate.loc(fp, bad[0]), detail="the text payload of FormattedString reaches the result without html_format/html_escape")
        else:
            out.ok("format_part:text->return", crate.file_of(fp), fp["line"], "text payload reaches the result only through html_format")
    # ---- Formatter::format (default method): markup -> output only through format_part
    fm = crate.find_fn("markup::Formatter::format")
    t = Taint(crate, fm, binding_ids(fm, {"markup"}), [r"Formatter::format_part$", r"Formatter>?::format_part$"])
    rets = t.return_exprs()
    bad = [r for r in rets if t.expr_tainted(r)]
    if bad:
        out.violation("Formatter::format:markup->return", *crate.loc(fm, bad[0]), detail="markup text is appended to the output without going through format_part")
    else:
        out.ok("Formatter::format:markup->return", crate.file_of(fm), fm["line"], "output is built from format_part results only")
    # ---- HtmlWriter::write: buf -> self.buffer only through a sanitiser
    wr = None
    for b in crate.impl_methods("std::io::Write", "write"):
        if "HtmlWriter" in b.get("impl_self", ""):
            wr = b
    if wr is None:
        out.error("anchor missing: <HtmlWriter as io::Write>::write")
    else:
        t = Taint(crate, wr, binding_ids(wr, {"buf"}), SAN_LIB + [r"html_formatter::html_escape_bytes$"], sink_fields={"buffer"})
        sinks = t.sink_calls()
        n_t = 0
        for (n, tainted) in sinks:
            sf, sl = crate.loc(wr, n)
            if tainted:
                n_t += 1
                out.violation("HtmlWriter::write:buf->buffer", sf, sl, "`buf` (diagnostic text quoting user source) is copied into the HTML buffer without escaping")
        if not sinks:
            out.error("HtmlWriter::write: no write into self.buffer found")
        elif n_t == 0:
            out.ok("HtmlWriter::write:buf->buffer", crate.file_of(wr), wr["line"], "%d writes into self.buffer; `buf` reaches them only through the escaper" % len(sinks))
        # the escaper itself: every non-literal byte it emits is the default arm of a match that handles < > &
        esc = crate.find_fn("html_formatter::html_escape_bytes", required=False)
        if esc is not None:
            ok, why = check_byte_escaper(crate, esc)
            if ok:
                out.ok("html_escape_bytes:guarded-copy", crate.file_of(esc), esc["line"], why)
            else:
                out.violation("html_escape_bytes:guarded-copy", crate.file_of(esc), esc["line"], why)
    # any other writer into HtmlWriter.buffer?
    writers = 0
    for d, b in crate.hir.items():
        if "HtmlWriter" not in b.get("impl_self", "") and "html_formatter" not in d:
            continue
        for n in walk(b["body"]):
            if n.get("k") == "MethodCall":
                p = place_path(n["recv"])
                if p and p[2] and p[2][0] == "buffer" and crate.ty(peel(n["recv"]), adjusted=True).startswith("&mut"):
                    writers += 1
                    if not (b.get("impl_trait", "").endswith("io::Write") and b["name"] in ("write", "flush")):
                        out.violation("HtmlWriter.buffer:writer:%s" % b["name"], *crate.loc(b, n), detail="HtmlWriter.buffer is written outside <HtmlWriter as io::Write>::write")
    out.analysed = {"html_format_call_sites": n_sites, "buffer_write_sites": writers, "functions": 4}
    out.floor("html_format_call_sites", n_sites, 1)
    out.floor("buffer_write_sites", writers, 1)
    return out


def check_byte_escaper(crate, fn):
    """Every byte pushed into the output is a literal, or the scrutinee byte in the catch-all arm of a match
    whose other arms handle b'<', b'>' and b'&'."""
    needed = {60, 62, 38}
    matches = [n for n in walk(fn["body"]) if n.get("k") == "Match" and str(n.get("src")) == "Normal"]
    for m in matches:
        lits = set()
        for a in m["arms"]:
            for p in walk(a["pat"]):
                if p.get("k") == "Lit" and p["lit"].get("lk") in ("byte", "int", "char"):
                    v = p["lit"]["v"]
                    try:
                        lits.add(int(v) if not isinstance(v, str) or v.isdigit() else ord(v))
                    except (ValueError, TypeError):
                        pass
        if needed <= lits:
            # pushes of non-literals must only occur in the wildcard arm
            for a in m["arms"]:
                is_default = a["pat"].get("k") in ("Wild", "Binding")
                for n in walk(a["body"]):
                    if n.get("k") == "MethodCall" and n["name"] in ("push", "extend_from_slice", "extend", "write_all", "write"):
                        nonlit = [x for x in n["args"] if peel_refs(x).get("k") not in ("Lit",)]
                        if nonlit and not is_default:
                            return False, "a non-literal is emitted in an arm that handles a metacharacter"
            # no output outside the match
            return True, "output bytes are literals, or the input byte in the default arm of a match handling '<', '>' and '&'"
    return False, "no match on the input byte that handles '<', '>' and '&' was found in the escaper"
