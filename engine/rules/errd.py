"""R15 ERRD — error discipline for date/time arithmetic: every fallible jiff call is propagated into an
error (or branched on), and no panicking / saturating jiff arithmetic is used."""
import re

from core import RuleOut
from hirlib import callee, children, arm_children, is_try, peel, try_inner, walk

PASS_THROUGH = {"map_err", "map", "and_then", "or_else", "ok_or", "ok_or_else"}
SWALLOW = {"unwrap", "expect", "ok", "unwrap_or", "unwrap_or_default", "unwrap_or_else", "unwrap_unchecked", "is_ok", "is_err", "err"}

# panicking or saturating jiff APIs (the fallible counterparts are try_* / checked_*)
DENY = [
    (re.compile(r"^<jiff::.* as std::ops::(Add|Sub|AddAssign|SubAssign|Neg|Mul)(<.*>)?>::"), "operator on a jiff type panics on overflow"),
    (re.compile(r"^jiff::Span::(years|months|weeks|days|hours|minutes|seconds|milliseconds|microseconds|nanoseconds)$"), "panicking Span setter (use try_*)"),
    (re.compile(r"^jiff::(SignedDuration|Timestamp|Zoned|civil::\w+)::saturating_"), "saturating arithmetic produces a wrong date instead of an error"),
    (re.compile(r"^<\w+ as jiff::ToSpan>::"), "ToSpan helpers panic when out of range"),
    (re.compile(r"^jiff::civil::(date|time|datetime)$"), "panicking civil constructor"),
    (re.compile(r"^jiff::(Timestamp|Zoned|civil::\w+)::(constant|new_unchecked)"), "unchecked constructor"),
]


def parent_map(root):
    pm = {}
    stack = [root]
    while stack:
        x = stack.pop()
        if isinstance(x, list):
            for y in x:
                stack.append(y)
            continue
        if not isinstance(x, dict):
            continue
        ch = list(arm_children(x)) if ("k" not in x and "pat" in x and "body" in x) else list(children(x))
        for c in ch:
            if isinstance(c, dict):
                pm[id(c)] = x
                stack.append(c)
            elif isinstance(c, list):
                for y in c:
                    if isinstance(y, dict):
                        pm[id(y)] = x
                        stack.append(y)
    return pm


def classify_consumer(node, pm, crate):
    """How is the Result value of `node` consumed? returns (verdict, description)."""
    cur = node
    for _ in range(40):
        p = pm.get(id(cur))
        if p is None:
            return "ok", "function/closure result"
        k = p.get("k")
        if k in ("DropTemps", "Use", "Type", "AddrOf"):
            cur = p
            continue
        if k == "Block" and p.get("tail") is cur:
            cur = p
            continue
        if k == "MethodCall" and p.get("recv") is cur:
            nm = p["name"]
            if nm in PASS_THROUGH:
                cur = p
                continue
            if nm in SWALLOW:
                return "violation", "`.%s()` discards or panics on the error" % nm
            return "advisory", "consumed by `.%s()`" % nm
        if k == "Call":
            f = peel(p["f"])
            if f.get("k") == "Path" and f["res"].get("path", "").endswith("Try::branch"):
                return "ok", "propagated with `?`"
            # argument of another call (e.g. checked_add(to_span(n)?)): value flows on
            return "ok", "passed on as an argument"
        if k == "Match":
            if is_try(p):
                return "ok", "propagated with `?`"
            return "ok", "matched on"
        if k == "Let" and "src" not in p:  # `if let PAT = expr`
            return "ok", "branched on with `if let`"
        if k == "Let" and "src" in p:  # let statement
            pat = p["pat"]
            if pat.get("k") == "Wild":
                return "violation", "`let _ =` ignores the error"
            if pat.get("k") == "Binding":
                return "ok", "bound to `%s` (a Result value)" % pat["name"]
            return "ok", "destructured"
        if k == "Ret":
            return "ok", "returned"
        if k == "Closure":
            return "ok", "closure result"
        if k in ("Semi",):
            return "violation", "the Result is dropped by `;`"
        if "k" not in p and "body" in p:  # match arm body
            cur = p
            # climb to the enclosing Match
            continue
        if k in ("If",):
            if p.get("cond") is cur:
                return "ok", "condition"
            cur = p
            continue
        if k in ("Expr",):
            cur = p
            continue
        if k in ("Struct", "Tup", "Array", "Binary", "Assign"):
            return "ok", "stored"
        cur = p
    return "advisory", "consumer not classified"


def rule_errd(crate, scope_fns, scope_files, exempt=None, min_fallible=8, lib_prefix="jiff::", err_type="jiff::Error", min_bodies=10):
    out = RuleOut("ERRD", "fallible date/time operations are turned into errors; no panicking or saturating jiff arithmetic")
    exempt = exempt or {}
    bodies = []
    for s in scope_fns:
        bodies.append(crate.find_fn(s))
    for d, b in crate.hir.items():
        if any(crate.file_of(b).endswith(sf) for sf in scope_files) and b not in bodies:
            bodies.append(b)
    if "*" in scope_files:
        # crate-wide: every non-test body that calls into the library at all (moving code never loses coverage)
        for d, b in crate.hir.items():
            if b in bodies or "::tests::" in d or "::test::" in d:
                continue
            if any((callee(n) or "").find(lib_prefix) >= 0 for n in walk(b["body"]) if n.get("k") in ("Call", "MethodCall")):
                bodies.append(b)
    n_fallible = n_deny = n_calls = 0
    for b in bodies:
        short = b["def"].split("::")[-1]
        pm = parent_map(b["body"])
        counts = {}
        for n in walk(b["body"]):
            if n.get("k") not in ("Call", "MethodCall", "Binary", "Unary", "AssignOp"):
                continue
            c = callee(n)
            if not c or lib_prefix not in c:
                continue
            n_calls += 1
            f, l = crate.loc(b, n)
            leaf = c.split("::")[-1]
            idx = counts.get(leaf, 0)
            counts[leaf] = idx + 1
            key = "%s:%s#%d" % (short, c.replace(lib_prefix, ""), idx)
            # (2) deny list
            hit = None
            for rx, why in DENY:
                if rx.search(c):
                    hit = why
            if hit:
                n_deny += 1
                ex = exempt.get((short, c)) or exempt.get(("*", c))
                if ex:
                    ok_shape = ex.get("shape") is None or any(x.get("k") == "MethodCall" and x["name"] == ex["shape"] for a in (n.get("args") or []) for x in walk(a))
                    if ok_shape:
                        out.exempt(key, f, l, ex["reason"])
                    else:
                        out.violation(key, f, l, "%s: %s (the exempt row's bound argument no longer has the expected shape)" % (c, hit))
                else:
                    out.violation(key, f, l, "%s: %s" % (c, hit))
                continue
            # (1) fallible calls
            t = crate.ty(n)
            if t.startswith("std::result::Result<") and err_type in t:
                n_fallible += 1
                verdict, why = classify_consumer(n, pm, crate)
                exf = exempt.get((short, "fallible:" + leaf))
                if verdict == "violation" and exf:
                    out.exempt(key, f, l, exf["reason"])
                    continue
                if verdict == "ok":
                    out.ok(key, f, l, "%s -> %s" % (leaf, why))
                elif verdict == "violation":
                    out.violation(key, f, l, "result of fallible %s: %s" % (c, why))
                else:
                    out.advisory(key, f, l, "%s: %s" % (c, why))
    out.analysed = {"bodies": len(bodies), "jiff_calls": n_calls, "fallible_calls": n_fallible, "denylisted_calls": n_deny}
    out.floor("fallible_calls", n_fallible, min_fallible)
    out.floor("bodies", len(bodies), min_bodies)
    return out
