"""R14 EXIT — the CLI maps interpretation results to exit status and streams faithfully (numbat-cli)."""
from core import RuleOut
from hirlib import callee, ctor_variant, local_of, pat_variants, peel, peel_refs, place_path, strip_generics, walk

RESULT = "std::result::Result"
CF = "std::ops::ControlFlow"


def callees_in(node):
    out = []
    for n in walk(node):
        c = callee(n) if n.get("k") in ("Call", "MethodCall") else None
        if c:
            out.append((c, n))
    return out


def tail_value(e):
    """The expression that gives a block/arm its value."""
    e = peel(e)
    while e.get("k") == "Block" and e.get("tail") is not None:
        e = peel(e["tail"])
    return e


def is_ctor(e, adt, variant):
    cv = ctor_variant(e)
    return bool(cv) and cv[0] == adt and cv[1] == variant


def top_variant(pat, adt):
    v = pat_variants(pat, adt)
    return v


def rule_exit(bin_crate, lib_crate):
    out = RuleOut("EXIT", "exit status / stream selection follow the interpretation result on every path")
    pe = bin_crate.find_fn("Cli::parse_and_evaluate")
    f = bin_crate.file_of(pe)

    # ---- (i) the match over the interpretation result
    result_matches = []
    for n in walk(pe["body"]):
        if n.get("k") == "Match" and str(n.get("src")) == "Normal":
            t = bin_crate.ty(peel(n["scrut"]))
            if t.startswith(RESULT) and "numbat::NumbatError" in t and "InterpreterResult" in t:
                vs = [pat_variants(a["pat"], RESULT) for a in n["arms"]]
                # the dispatching match has payload patterns on Err
                if any(v == {"Err"} for v in vs) and any(len(list(walk(a["pat"]))) > 3 for a in n["arms"]):
                    result_matches.append(n)
    # keep the one whose arms carry bodies with calls (not the `Ok(_) => Ok(())` summary)
    disp = [m for m in result_matches if any(callees_in(a["body"]) for a in m["arms"])]
    if len(disp) != 1:
        out.error("anchor missing: expected one dispatch `match` over the interpretation result in Cli::parse_and_evaluate, found %d" % len(disp))
        return out
    m = disp[0]
    cf_local = None
    n_err = 0
    for a in m["arms"]:
        vs = pat_variants(a["pat"], RESULT)
        af, al = bin_crate.loc(pe, a["pat"])
        cs = [c for c, _ in callees_in(a["body"])]
        val = tail_value(a["body"])
        if vs is None:
            out.violation("parse_and_evaluate:catch-all", af, al, "a catch-all arm swallows interpretation results without deciding the exit status")
            continue
        if vs == {"Err"}:
            n_err += 1
            kind = "?"
            for p in walk(a["pat"]):
                if p.get("adt") == "numbat::NumbatError" and p.get("variant"):
                    kind = p["variant"]
            key = "parse_and_evaluate:Err(%s)" % kind
            prints = [c for c in cs if c.endswith("::print_diagnostic")]
            to_stdout = [c for c in cs if c == "std::io::_print"]
            status = val.get("k") == "MethodCall" and (callee(val) or "").endswith("ExecutionMode::exit_status_in_case_of_error")
            problems = []
            if not prints:
                problems.append("prints no diagnostic")
            if to_stdout:
                problems.append("writes to stdout")
            if not status:
                problems.append("its value is not `execution_mode.exit_status_in_case_of_error()`")
            if problems:
                out.violation(key, af, al, "the %s arm %s" % (kind, "; ".join(problems)))
            else:
                out.ok(key, af, al, "prints a diagnostic (%s) and yields exit_status_in_case_of_error()" % prints[0].split("::")[-2])
        elif vs == {"Ok"}:
            key = "parse_and_evaluate:Ok"
            problems = []
            if not is_ctor(val, CF, "Continue"):
                problems.append("its value is not ControlFlow::Continue(())")
            if any(c == "std::io::_eprint" or c.endswith("::print_diagnostic") for c in cs):
                problems.append("writes to stderr / prints a diagnostic")
            if not any(c == "std::io::_print" for c in cs):
                problems.append("prints nothing to stdout")
            if problems:
                out.violation(key, af, al, "the Ok arm: " + "; ".join(problems))
            else:
                out.ok(key, af, al, "results and printed values go to stdout (std::io::_print only); value is Continue")
    # error kinds covered = variants of NumbatError
    ne = lib_crate.adts.get("crate::NumbatError")
    if ne:
        kinds = {v["name"] for v in ne["variants"]}
        seen = set()
        for a in m["arms"]:
            for p in walk(a["pat"]):
                if p.get("adt") == "numbat::NumbatError" and p.get("variant"):
                    seen.add(p["variant"])
        for k in sorted(kinds - seen):
            out.violation("parse_and_evaluate:Err(%s)" % k, f, pe["line"], "error kind %s has no arm of its own" % k)

    # the match value is what ends up in ParseEvaluationOutcome.control_flow
    ok_flow = False
    for n in walk(pe["body"]):
        if n.get("k") == "Let" and n.get("init") is not None and peel(n["init"]) is m and n["pat"].get("k") == "Binding":
            cf_local = n["pat"]["id"]
    ret = tail_value(pe["body"])
    if ret.get("k") == "Struct" and cf_local is not None:
        for name, e in ret["fields"]:
            if name == "control_flow" and local_of(e) == cf_local:
                ok_flow = True
    if ok_flow:
        out.ok("parse_and_evaluate:control_flow", f, pe["line"], "the dispatch result is returned as `control_flow` unchanged")
    else:
        out.violation("parse_and_evaluate:control_flow", f, pe["line"], "the returned `control_flow` is not the value of the dispatch match")

    # ---- exit_status_in_case_of_error: Normal -> Break(Error)
    es = bin_crate.find_fn("ExecutionMode::exit_status_in_case_of_error")
    b = tail_value(es["body"])
    good = False
    if b.get("k") == "If":
        cond_vars = set()
        for n in walk(b["cond"]):
            if n.get("adt", "").endswith("ExecutionMode") and n.get("variant"):
                cond_vars.add(n["variant"])
        th = tail_value(b["then"])
        el = tail_value(b["else"]) if b.get("else") is not None else None
        th_break = is_ctor(th, CF, "Break") and any(x.get("k") == "Path" and x["res"].get("variant") == "Error" for x in walk(th))
        el_cont = el is not None and is_ctor(el, CF, "Continue")
        negated = peel(b["cond"]).get("k") == "Unary"
        if cond_vars == {"Normal"} and th_break and el_cont and not negated:
            good = True
    elif b.get("k") == "Match":
        arms = {}
        for a in b["arms"]:
            vs = pat_variants(a["pat"], "crate::ExecutionMode")
            for v in vs or ["_"]:
                arms[v] = tail_value(a["body"])
        n_ = arms.get("Normal")
        if n_ is not None and is_ctor(n_, CF, "Break") and any(x.get("k") == "Path" and x["res"].get("variant") == "Error" for x in walk(n_)):
            good = True
    if good:
        out.ok("exit_status_in_case_of_error:Normal", bin_crate.file_of(es), es["line"], "Normal mode maps to Break(ExitStatus::Error)")
    else:
        out.violation("exit_status_in_case_of_error:Normal", bin_crate.file_of(es), es["line"], "in Normal (file / -e) mode an error does not map to ControlFlow::Break(ExitStatus::Error)")

    # ---- (ii) Cli::run
    run = bin_crate.find_fn("Cli::run")
    rf = bin_crate.file_of(run)
    sites = [n for n in walk(run["body"]) if n.get("k") == "MethodCall" and (callee(n) or "").endswith("Cli::parse_and_evaluate")]
    if len(sites) != 1:
        out.violation("run:single-site", rf, run["line"], "file and -e input do not flow through a single parse_and_evaluate call site in Cli::run (%d sites)" % len(sites))
    else:
        s = sites[0]
        mode = ctor_variant(s["args"][2]) if len(s["args"]) >= 3 else None
        if mode and mode[1] == "Normal":
            out.ok("run:single-site", *bin_crate.loc(run, s), detail="one call site, ExecutionMode::Normal for both file and -e sources")
        else:
            out.violation("run:single-site", *bin_crate.loc(run, s), detail="parse_and_evaluate is not called with ExecutionMode::Normal")
    # Break -> Err, decided on the MIR of Cli::run by a forward dataflow of Result status: from every edge on which
    # the control_flow of a parse_and_evaluate outcome is known to be Break, every path to the function's return
    # yields Err (whatever the idiom: match + bail!, if is_break(), accumulated `.and(..)`); and an Err value is
    # constructed only on such paths (a successful input never produces a failure status).
    from mirlib import Mir
    from statusflow import RESULT as _R, break_heads, flow

    m = Mir(bin_crate, bin_crate.find_mir("Cli::run"))
    heads, producers = break_heads(m, "Cli::parse_and_evaluate")
    if not producers:
        out.error("anchor missing: call of Cli::parse_and_evaluate in the MIR of Cli::run")
    elif not heads:
        out.violation("run:Break->Err", rf, run["line"], "Cli::run never tests the control_flow of the parse_and_evaluate outcome for Break: a failed input cannot make it return Err")
    else:
        prod_blocks = [i for i, blk in enumerate(m.blocks) if blk["term"].get("k") == "call" and (blk["term"]["f"].get("inst") or blk["term"]["f"].get("fn") or "").endswith("Cli::parse_and_evaluate")]
        for (h, sw, line) in heads:
            rets, reached = flow(m, h)
            bad = [b for b, v in rets.items() if v != "Err"]
            if bad:
                again = [p for p in prod_blocks if p in reached]
                out.violation("run:Break->Err", rf, line, "after an input ended in Break, Cli::run can still return a value that is not known to be Err (return at line %s%s): the failure of an earlier input is lost" % (m.blocks[bad[0]]["term"]["s"][0], "; the loop continues with the next input" if again else ""))
            else:
                out.ok("run:Break->Err", rf, line, "from the Break edge every path to the return yields Err (%d return block(s))" % len(rets))
        # Err constructed only on Break paths
        dominated = set()
        for (h, _sw, _l) in heads:
            for b in range(m.n):
                if m.dominates(h, b):
                    dominated.add(b)
        stray = []
        for bi, blk in enumerate(m.blocks):
            for st in blk["stmts"]:
                rv = st.get("rv") or {}
                if st.get("k") == "assign" and rv.get("rv") == "aggr" and rv.get("adt") == _R and rv.get("variant") == "Err" and bi not in dominated:
                    stray.append(st["s"][0])
        if stray:
            out.violation("run:Continue->Ok", rf, stray[0], "Cli::run constructs an Err status outside the paths on which an input ended in Break")
        else:
            out.ok("run:Continue->Ok", rf, run["line"], "no Err status is constructed except on Break paths (`?` propagation of I/O errors aside)")
    # -e expressions joined by "\n"
    joined = False
    for n in walk(run["body"]):
        if n.get("k") == "MethodCall" and n["name"] == "join" and n["args"]:
            a = peel_refs(n["args"][0])
            if a.get("k") == "Lit" and a["lit"].get("v") == "\n":
                joined = True
                out.ok("run:expressions-joined", *bin_crate.loc(run, n), detail="-e expressions are joined with \"\\n\" (same as lines of a file)")
    if not joined:
        out.violation("run:expressions-joined", rf, run["line"], "-e expressions are not joined by a newline before evaluation")

    # ---- (iii) main
    mn = bin_crate.find_fn("crate::main")
    mf = bin_crate.file_of(mn)
    exits = [(n, peel(n["args"][0])) for n in walk(mn["body"]) if n.get("k") == "Call" and callee(n) == "std::process::exit"]
    found = False
    for n in walk(mn["body"]):
        if n.get("k") == "If":
            c = peel(n["cond"])
            if c.get("k") == "Let" and c["pat"].get("variant") == "Err" and any((callee(x) or "").endswith("Cli::run") for x in walk(c["init"]) if x.get("k") in ("MethodCall", "Call")):
                found = True
                codes = [peel(x["args"][0]) for x in walk(n["then"]) if x.get("k") == "Call" and callee(x) == "std::process::exit"]
                lits = [int(c_["lit"]["v"]) for c_ in codes if c_.get("k") == "Lit"]
                blk = peel(n["then"])
                last = blk.get("tail")
                if last is None and blk.get("stmts"):
                    last = blk["stmts"][-1].get("e")
                last = peel(last) if last is not None else {}
                diverges = last.get("k") == "Call" and callee(last) == "std::process::exit"
                if codes and len(lits) == len(codes) and all(v != 0 for v in lits) and diverges:
                    out.ok("main:Err->exit(nonzero)", *bin_crate.loc(mn, n), detail="an Err from Cli::run ends in process::exit(%s)" % lits)
                else:
                    out.violation("main:Err->exit(nonzero)", *bin_crate.loc(mn, n), detail="the error branch of main does not end in process::exit(<non-zero constant>) (codes: %s)" % lits)
                if n.get("else") is not None:
                    for x in walk(n["else"]):
                        if x.get("k") == "Call" and callee(x) == "std::process::exit":
                            a = peel(x["args"][0])
                            if not (a.get("k") == "Lit" and int(a["lit"]["v"]) == 0):
                                out.violation("main:Ok->exit(0)", *bin_crate.loc(mn, x), detail="the success branch exits with a non-zero status")
                # stderr for the message
                if any((callee(x) or "").endswith("StandardStream::stderr") or callee(x) == "std::io::_eprint" for x in walk(n["then"]) if x.get("k") in ("Call", "MethodCall")):
                    out.ok("main:Err->stderr", *bin_crate.loc(mn, n), detail="the failure message goes to stderr")
                else:
                    out.violation("main:Err->stderr", *bin_crate.loc(mn, n), detail="the failure message is not written to stderr")
    if not found:
        out.error("anchor missing: `if let Err(e) = Cli::new(..).and_then(|cli| cli.run())` in main")
    # after the if: main must not exit non-zero on the success path
    stmts = peel(mn["body"]).get("stmts", [])
    # ---- (iv) Context::print_diagnostic writes to stderr
    pd = lib_crate.find_fn("Context::print_diagnostic")
    cs = [c for c, _ in callees_in(pd["body"])]
    if any(c.endswith("StandardStream::stderr") for c in cs) and not any(c.endswith("StandardStream::stdout") or c == "std::io::_print" for c in cs):
        out.ok("Context::print_diagnostic:stderr", lib_crate.file_of(pd), pd["line"], "diagnostics are emitted to StandardStream::stderr")
    else:
        out.violation("Context::print_diagnostic:stderr", lib_crate.file_of(pd), pd["line"], "diagnostics are not (only) written to stderr")
    out.analysed = {"err_arms": n_err, "exit_calls_in_main": len(exits), "parse_and_evaluate_sites_in_run": len(sites)}
    out.floor("err_arms", n_err, 4)
    out.floor("exit_calls_in_main", len(exits), 3)
    return out
