"""GUARD (R18) — PrefixParser::parse hands out a *prefixed* unit only under the guards the unit was declared with.

Every `return PrefixParserResult::UnitIdentifier(_, <prefix>, <unit_name>, _)` whose prefix is not `Prefix::none()`
must be control-dependent (conjuncts of the enclosing `if`) on

  accepts   `info.accepts_prefix.long`  or  `info.accepts_prefix.short`                      (@aliases(x: short|long|both))
  kind      `is_metric && info.metric_prefixes || is_binary && info.binary_prefixes`, the two flags computed from the
            SAME prefix value that is returned                                               (@metric_prefixes/@binary_prefixes)
  spelling  `input.starts_with(S)` and `input[S.len()..] == unit_name`, where S is the long spelling of the table row
            when the accepts-conjunct is `.long` and an element of the row's short spellings when it is `.short`, and
            unit_name is the name that is returned
  record    all guard fields and the returned span / full name are read from one and the same `info`

and the unprefixed return is guarded by an exact lookup `self.units.get(input)`.  Dropping or mixing any of these
makes a name resolve to a unit (or a prefix) its declaration does not allow."""
from core import RuleOut
from errd import parent_map
from hirlib import callee, ctor_variant, local_of, peel, peel_refs, place_path, walk


BOOL_LETS = {}  # local id -> initializer, for `let name = <bool expr>;` (a named sub-condition is inlined)


def expand(e):
    e = peel(e)
    seen = 0
    while e.get("k") == "Path" and e["res"].get("r") == "local" and e["res"]["id"] in BOOL_LETS and seen < 5:
        init = peel(BOOL_LETS[e["res"]["id"]])
        if init.get("k") == "Binary" and init.get("op") in ("&&", "||"):
            e = init
            seen += 1
        else:
            break
    return e


def conj(e):
    e = expand(e)
    if e.get("k") == "Binary" and e.get("op") == "&&":
        return conj(e["l"]) + conj(e["r"])
    return [e]


def disj(e):
    e = expand(e)
    if e.get("k") == "Binary" and e.get("op") == "||":
        return disj(e["l"]) + disj(e["r"])
    return [e]


def field_path(e):
    p = place_path(e)
    if p:
        return p[0], tuple(p[2])
    return None


def rule_guard(crate):
    out = RuleOut("GUARD", "a prefixed unit is returned only under the accepts-prefix, prefix-kind and spelling guards of its declaration")
    fn = crate.find_fn("prefix_parser::PrefixParser::parse")
    f = crate.file_of(fn)
    pm = parent_map(fn["body"])
    input_id = fn["params"][1]["id"] if len(fn["params"]) > 1 and fn["params"][1].get("k") == "Binding" else None
    lets = {}
    for n in walk(fn["body"]):
        if n.get("k") == "Let" and "src" in n and n.get("init") is not None and n["pat"].get("k") == "Binding":
            lets[n["pat"]["id"]] = n["init"]
    BOOL_LETS.clear()
    BOOL_LETS.update(lets)
    # row bindings of the prefix table loop: tuple pattern (long, shorts, prefix)
    rows = []
    for n in walk(fn["body"]):
        if n.get("k") in ("Tuple",) and len(n.get("pats", [])) == 3 and all(q.get("k") == "Binding" for q in n["pats"]):
            if "Prefix" in crate.ty(n["pats"][2]):
                rows.append(tuple(q["id"] for q in n["pats"]))
    n_ret = 0
    k_pref = 0
    for r in walk(fn["body"]):
        if r.get("k") != "Ret" or r.get("e") is None:
            continue
        cv = ctor_variant(r["e"])
        if not cv or cv[1] != "UnitIdentifier":
            continue
        n_ret += 1
        call = peel(r["e"])
        args = call["args"]
        rf, rl = crate.loc(fn, r)
        # enclosing if
        cur = r
        enc = None
        while id(cur) in pm:
            p = pm[id(cur)]
            if p.get("k") == "If" and any(x is r for x in walk(p["then"])):
                enc = p
                break
            cur = p
        a1 = peel_refs(args[1])
        unprefixed = a1.get("k") == "Call" and (callee(a1) or "").endswith("Prefix::none")
        if unprefixed:
            key = "parse:unprefixed:exact-lookup"
            c = peel(enc["cond"]) if enc else {}
            good = c.get("k") == "Let" and peel(c["init"]).get("k") == "MethodCall" and peel(c["init"])["name"] == "get" and (place_path(peel(c["init"])["recv"]) or (0, 0, []))[2] == ["units"] and local_of(peel(c["init"])["args"][0]) == input_id
            if good:
                out.ok(key, rf, rl, "the unprefixed unit is returned only for an exact hit of `self.units.get(input)`")
            else:
                out.violation(key, rf, rl, "the unprefixed UnitIdentifier return is not guarded by an exact lookup of the whole input in `self.units`")
            continue
        idx = k_pref
        k_pref += 1
        base = "parse:prefixed#%d" % idx
        if enc is None:
            out.violation(base + ":guarded", rf, rl, "a prefixed unit is returned unconditionally")
            continue
        # conjuncts of every enclosing `if` whose then-branch holds the return
        cs = []
        cur2 = r
        while id(cur2) in pm:
            p2 = pm[id(cur2)]
            if p2.get("k") == "If" and any(x is r for x in walk(p2["then"])) and peel(p2["cond"]).get("k") != "Let":
                cs += conj(p2["cond"])
            cur2 = p2
        # early exits (`if c { continue }`) before the return are guards this rule does not model: when one exists
        # in the prefix loop (beyond the `ends_with` pre-filter of the unit loop), a missing conjunct is not reported
        early = 0
        for x in walk(fn["body"]):
            if x.get("k") == "If" and x.get("else") is None and any(y.get("k") in ("Continue", "Break") for y in walk(x["then"])):
                if (x["s"][0], x["s"][1]) < (r["s"][0], r["s"][1]) and not any(y.get("k") == "MethodCall" and y["name"] == "ends_with" for y in walk(x["cond"])):
                    early += 1
        viol = out.violation if early == 0 else (lambda key, f_, l_, d_: out.advisory(key, f_, l_, "not decided (the loop has %d early-exit guard(s) this rule does not model): %s" % (early, d_)))
        pref_id = local_of(args[1])
        row = next((rw for rw in rows if rw[2] == pref_id), None)
        if row is None:
            out.violation(base + ":prefix-from-row", rf, rl, "the returned prefix is not the prefix column of the table row the guards were evaluated for")
            continue
        info_ids = set()
        # ---- accepts
        mode = None
        for c in cs:
            fp = field_path(c)
            if fp and len(fp[1]) == 2 and fp[1][0] == "accepts_prefix" and fp[1][1] in ("long", "short"):
                mode = fp[1][1] if mode is None else "both"
                info_ids.add(fp[0])
        if mode in ("long", "short"):
            out.ok(base + ":accepts", rf, rl, "guarded by info.accepts_prefix.%s" % mode)
        else:
            viol(base + ":accepts", rf, rl, "the return of a prefixed unit does not depend on exactly one of info.accepts_prefix.long / .short: a unit declared `short`-only (or `long`-only) is accepted with the other kind of prefix spelling")
        # ---- kind
        kind_ok = False
        for c in cs:
            ds = disj(c)
            if len(ds) != 2:
                continue
            seen = {}
            for d in ds:
                parts = conj(d)
                flds = [field_path(x) for x in parts]
                flds = [x for x in flds if x]
                fl = [x for x in flds if x[1] in (("metric_prefixes",), ("binary_prefixes",))]
                flags = []
                for x in parts:
                    x = peel(x)
                    lid = local_of(x)
                    init = peel(lets[lid]) if lid in lets else x
                    if init.get("k") == "MethodCall" and init["name"] in ("is_metric", "is_binary") and local_of(init["recv"]) == pref_id:
                        flags.append(init["name"])
                if len(fl) == 1 and len(flags) == 1 and len(parts) == 2:
                    seen[fl[0][1][0]] = flags[0]
                    info_ids.add(fl[0][0])
            if seen == {"metric_prefixes": "is_metric", "binary_prefixes": "is_binary"}:
                kind_ok = True
        if kind_ok:
            out.ok(base + ":kind", rf, rl, "guarded by (is_metric && info.metric_prefixes || is_binary && info.binary_prefixes) on the returned prefix")
        else:
            viol(base + ":kind", rf, rl, "the return of a prefixed unit is not guarded by the pairing of the returned prefix's kind with the unit's metric_prefixes / binary_prefixes declaration: a metric prefix is accepted on a unit that only allows binary prefixes (or vice versa, or on a unit that allows none)")
        # ---- spelling
        want_src = row[0] if mode == "long" else row[1]
        spell_ok = False
        unit_ret = local_of(peel(args[2])["recv"]) if peel(args[2]).get("k") == "MethodCall" else local_of(args[2])
        for c in cs:
            sw = [x for x in walk(c) if x.get("k") == "MethodCall" and x["name"] == "starts_with" and local_of(x["recv"]) == input_id]
            eqs = [x for x in walk(c) if x.get("k") == "Binary" and x.get("op") == "=="]
            if not sw:
                continue
            for s in sw:
                sid = local_of(s["args"][0])
                # sid is the row's long spelling, or a closure parameter iterating the row's short spellings
                src_ok = False
                if mode == "long":
                    src_ok = sid == row[0]
                elif mode == "short":
                    for x in walk(c):
                        if x.get("k") == "MethodCall" and x["name"] in ("any", "find", "position") and any(local_of(y) == row[1] for y in walk(x["recv"]) if y.get("k") == "Path"):
                            for cl in x["args"]:
                                cl = peel(cl)
                                if cl.get("k") == "Closure" and any(q.get("k") == "Binding" and q["id"] == sid for p_ in cl.get("params", []) for q in walk(p_)):
                                    src_ok = True
                if not src_ok:
                    continue
                # suffix equality with the returned unit name
                scope = c
                for e in [x for x in walk(scope) if x.get("k") == "Binary" and x.get("op") == "=="]:
                    sides = [peel_refs(e["l"]), peel_refs(e["r"])]
                    idxs = [x for x in sides if x.get("k") == "Index"]
                    others = [x for x in sides if x.get("k") != "Index"]
                    if len(idxs) == 1 and others and local_of(idxs[0]["e"]) == input_id and local_of(others[0]) == unit_ret:
                        lens = [y for y in walk(idxs[0]["idx"]) if y.get("k") == "MethodCall" and y["name"] == "len" and local_of(y["recv"]) == sid]
                        if lens:
                            spell_ok = True
        # the long form keeps starts_with and == in two conjuncts: retry over the whole condition
        if not spell_ok and mode == "long":
            sw = [x for x in walk(enc["cond"]) if x.get("k") == "MethodCall" and x["name"] == "starts_with" and local_of(x["recv"]) == input_id and local_of(x["args"][0]) == row[0]]
            for e in [x for x in (peel(y) for y in cs) if x.get("k") == "Binary" and x.get("op") == "=="]:
                sides = [peel_refs(e["l"]), peel_refs(e["r"])]
                idxs = [x for x in sides if x.get("k") == "Index"]
                others = [x for x in sides if x.get("k") != "Index"]
                if sw and len(idxs) == 1 and others and local_of(idxs[0]["e"]) == input_id and local_of(others[0]) == unit_ret:
                    if [y for y in walk(idxs[0]["idx"]) if y.get("k") == "MethodCall" and y["name"] == "len" and local_of(y["recv"]) == row[0]]:
                        spell_ok = any(x is peel(y) for y in cs for x in sw) or any(any(z is x for z in walk(y)) for y in cs for x in sw)
        if mode not in ("long", "short"):
            out.advisory(base + ":spelling", rf, rl, "not decided (no accepts-conjunct to pair the spelling with)")
        elif spell_ok:
            out.ok(base + ":spelling", rf, rl, "input = <%s spelling of the row> ++ <returned unit name>" % mode)
        else:
            viol(base + ":spelling", rf, rl, "the guard does not establish input == <%s spelling of the returned prefix> ++ <returned unit name> (starts_with on the row's %s spelling and equality of the remainder with the returned name)" % (mode, mode))
        # ---- record
        span_src = field_path(args[0])
        name_src = None
        a3 = peel(args[3])
        if a3.get("k") == "MethodCall":
            name_src = field_path(a3["recv"])
        rec_ids = set(info_ids)
        if span_src:
            rec_ids.add(span_src[0])
        if name_src:
            rec_ids.add(name_src[0])
        if len(rec_ids) == 1 and span_src and name_src:
            out.ok(base + ":record", rf, rl, "guards, definition span and full name are read from the same unit record")
        else:
            viol(base + ":record", rf, rl, "the guard fields and the returned span / full name come from different unit records")
    out.analysed = {"unit_returns": n_ret, "prefixed_returns": k_pref, "table_rows_patterns": len(rows)}
    out.floor("unit_returns", n_ret, 2)
    out.floor("prefixed_returns", k_pref, 1)
    return out


def rule_register(crate):
    """REGISTER — a name handed to PrefixParser::add_other_identifier / add_shadowing_identifier is recorded in
    `other_identifiers` on EVERY path that returns Ok (must-pass-through on the MIR).  parse() consults that map first;
    a registration that is skipped for some names lets a parameter or local spelled like a (prefixed) unit be read as
    that unit — depending on which units happen to be defined at that moment, i.e. on the import order."""
    from mirlib import Mir

    out = RuleOut("REGISTER", "every successfully registered identifier is recorded in other_identifiers")
    n = 0
    for suffix in ("prefix_parser::PrefixParser::add_other_identifier", "prefix_parser::PrefixParser::add_shadowing_identifier"):
        hfn = crate.find_fn(suffix)
        f = crate.file_of(hfn)
        m = Mir(crate, crate.find_mir(suffix))
        inserts = set()
        ok_blocks = set()
        for i, blk in enumerate(m.blocks):
            t = blk["term"]
            if t.get("k") == "call":
                name = t["f"].get("inst") or t["f"].get("fn") or ""
                if name.split("::")[-1] in ("insert", "entry", "extend") and t.get("args") and "other_identifiers" in m.trace(t["args"][0])["fields"]:
                    inserts.add(i)
            for st in blk["stmts"]:
                rv = st.get("rv") or {}
                if st.get("k") == "assign" and st["pl"]["l"] == 0 and "p" not in st["pl"] and rv.get("rv") == "aggr" and rv.get("variant") == "Ok":
                    ok_blocks.add(i)
        short = suffix.split("::")[-1]
        n += 1
        if not inserts:
            out.violation("%s:records" % short, f, hfn["line"], "%s never inserts into other_identifiers" % short)
            continue
        if not ok_blocks:
            out.error("anchor missing: no `Ok(..)` result in %s" % short)
            continue
        # reachability from entry avoiding insert blocks
        seen = set()
        stack = [0]
        while stack:
            b = stack.pop()
            if b in seen or b in inserts:
                continue
            seen.add(b)
            stack.extend(m.succ[b])
        leak = sorted(seen & ok_blocks)
        if leak:
            line = m.blocks[leak[0]]["stmts"][-1]["s"][0] if m.blocks[leak[0]]["stmts"] else hfn["line"]
            out.violation("%s:records" % short, f, line, "%s can return Ok without recording the identifier in other_identifiers: PrefixParser::parse then still resolves the name as a (prefixed) unit — a function parameter or local like `ys`/`ms` is read as yoctosecond/millisecond when the unit `s` is already defined, so the meaning of a module depends on what was imported before it" % short)
        else:
            out.ok("%s:records" % short, f, hfn["line"], "every Ok return passes through `other_identifiers.insert`")
    out.analysed = {"functions": n}
    out.floor("functions", n, 2)
    return out
