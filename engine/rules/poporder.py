"""POPORDER — values that the compiler pushes in source order are put back into source order by the VM.

Arguments of calls, elements of lists and parts of interpolated strings are compiled one after the other, so at run time
the LAST one is on top of the stack.  An instruction that pops n values in a loop therefore sees them in reverse and has
to restore the order — `push_front`, prepending (`part + &joined`), or a reversal afterwards — unless the compiler
emitted them reversed in the first place (struct fields: `sorted_fields.rev()`), in which case the VM must NOT reverse
again.  For every pop-loop of Vm::run_without_cleanup:

    restores(VM arm)  XOR  reversed(compile site that emits the op)          must hold,

and where the popped value is wrapped together with per-argument metadata (`Arg { value: self.pop(), type_, span }`),
the metadata has to be walked in the same (descending) direction, or every value is paired with the type and span of
another argument.  Sibling arms (FFICallFunction / FFICallProcedure and the foreign branch of CallCallable) are thereby
held to the same behaviour: a builtin called through a function value gets its arguments like one called by name."""
from core import RuleOut
from errd import parent_map
from hirlib import callee, ctor_variant, local_of, pat_variants, peel, peel_refs, place_path, walk

OP = "crate::vm::Op"


def _is_pop(x):
    if x.get("k") != "MethodCall" or x["name"] != "pop":
        return False
    p = place_path(x["recv"])
    return bool(p and p[1] == "self" and p[2] in ([], ["stack"]))


def _iter_desc(e):
    """direction in which a for-loop walks per-argument metadata: 'counter' (0..n), 'desc' (.rev()), 'asc'"""
    e = peel_refs(e)
    if e.get("k") == "Struct" and str(e.get("adt", "")).startswith("std::ops::Range"):
        return "counter"
    names = [x["name"] for x in walk(e) if x.get("k") == "MethodCall"]
    if "rev" in names:
        return "desc"
    return "asc"


def rule_poporder(crate):
    out = RuleOut("POPORDER", "every pop-loop of the VM restores the source order exactly when the compiler did not reverse it, and pairs values with their own metadata")
    run = crate.find_fn("vm::Vm::run_without_cleanup")
    f = crate.file_of(run)
    pm = parent_map(run["body"])
    # op -> arm
    arm_of = {}
    for m in walk(run["body"]):
        if m.get("k") == "Match" and str(m.get("src")) == "Normal":
            for a in m["arms"]:
                vs = pat_variants(a["pat"], OP)
                if vs:
                    for x in walk(a["body"]):
                        arm_of[id(x)] = (a, vs)
    # compile side: for every emitted op, is the loop that compiles its operands reversed?
    emitted = {}
    for nm in ("bytecode_interpreter::BytecodeInterpreter::compile_expression", "bytecode_interpreter::BytecodeInterpreter::compile_statement"):
        cf = crate.find_fn(nm)
        for m in walk(cf["body"]):
            if m.get("k") != "Match" or str(m.get("src")) != "Normal":
                continue
            for a in m["arms"]:
                ops = set()
                for c in walk(a["body"]):
                    if c.get("k") == "MethodCall" and (callee(c) or "").startswith("crate::vm::Vm::add_op") and c.get("args"):
                        a0 = peel(c["args"][0])
                        if a0.get("k") == "Path" and a0["res"].get("variant"):
                            ops.add(a0["res"]["variant"])
                if not ops:
                    continue
                rev = None
                for fl in walk(a["body"]):
                    if fl.get("k") == "Match" and str(fl.get("src", "")).startswith("ForLoop") and fl["scrut"].get("k") == "Call" and (callee(fl["scrut"]) or "").endswith("IntoIterator::into_iter") and any(y.get("k") == "MethodCall" and (callee(y) or "").endswith("compile_expression") for y in walk(fl)):
                        it = fl["scrut"]["args"][0] if fl["scrut"].get("args") else fl["scrut"]
                        d = _iter_desc(it)
                        # follow a local iterator (`let sorted_fields = …; for … in sorted_fields.rev()`)
                        rev = (d == "desc") if rev is None else (rev or d == "desc")
                for o in ops:
                    if rev is not None:
                        emitted[o] = emitted.get(o, False) or rev
    n = 0
    # pop-loops may live in helper methods of the VM that the arms call (`self.pop_ffi_args(..)`): they belong to the
    # instructions whose arms call the helper
    loops = []  # (function body record, loop node, arm, ops)
    for fl in walk(run["body"]):
        if fl.get("k") == "Match" and str(fl.get("src", "")).startswith("ForLoop") and id(fl) in arm_of:
            loops.append((run, fl, arm_of[id(fl)][0], arm_of[id(fl)][1]))
    helper_ops = {}
    for x in walk(run["body"]):
        if x.get("k") == "MethodCall" and id(x) in arm_of:
            c = callee(x) or ""
            if c.startswith("crate::vm::Vm::") and c in crate.hir and c != run["def"]:
                helper_ops.setdefault(c, (arm_of[id(x)][0], set()))[1].update(arm_of[id(x)][1])
    for c, (harm, hops) in sorted(helper_ops.items()):
        hb = crate.hir[c]
        for fl in walk(hb["body"]):
            if fl.get("k") == "Match" and str(fl.get("src", "")).startswith("ForLoop") and any(_is_pop(y) for y in walk(fl)):
                loops.append((hb, fl, {"body": hb["body"]}, hops))
    for (owner_fn, fl, arm, vs) in loops:
        if not (fl["scrut"].get("k") == "Call" and (callee(fl["scrut"]) or "").endswith("IntoIterator::into_iter")):
            continue  # the inner `match iter.next()` of the desugaring
        pops = [x for x in walk(fl) if _is_pop(x)]
        if not pops:
            continue
        ops = sorted(vs)
        # how are the popped values collected?
        how = None
        site = pops[0]
        for x in walk(fl):
            if x.get("k") == "MethodCall" and x["name"] in ("push_front", "push_back", "push", "insert") and any(_is_pop(y) for a_ in x.get("args", []) for y in walk(a_)):
                how = x["name"]
                site = x
            if x.get("k") == "Assign":
                r = peel(x["r"])
                tgt = local_of(x["l"])
                if r.get("k") == "Binary" and str(r.get("op")) in ("+", "Add") and tgt is not None:
                    l_is = any(y.get("k") == "Path" and y["res"].get("id") == tgt for y in walk(r["l"]))
                    r_is = any(y.get("k") == "Path" and y["res"].get("id") == tgt for y in walk(r["r"]))
                    if r_is and not l_is:
                        how, site = "prepend", x
                    elif l_is and not r_is:
                        how, site = "append", x
        if how is None:
            continue
        n += 1
        sf, sl = crate.loc(owner_fn, site)
        restores = how in ("push_front", "prepend")
        if not restores:
            # a reversal of the collection later in the arm restores the order as well
            restores = any(x.get("k") == "MethodCall" and x["name"] in ("reverse", "rev") for x in walk(arm["body"]) if x.get("s", [0])[0] > fl["s"][0])
        comp_rev = [emitted[o] for o in ops if o in emitted]
        key = "%s:order" % "+".join(ops)
        if not comp_rev:
            out.advisory(key, sf, sl, "pop-loop collected with `%s`; the compile site that emits %s was not found (not decided)" % (how, "/".join(ops)))
        elif all(restores != cr for cr in comp_rev):
            out.ok(key, sf, sl, "popped values are collected with `%s` (%s) and the compiler emits the operands %s" % (how, "restores the source order" if restores else "keeps the popped order", "reversed" if comp_rev[0] else "in source order"))
        else:
            out.violation(key, sf, sl, "the operands of %s are compiled %s, so they come off the stack %s, and the VM collects them with `%s`, which %s: the instruction sees them in REVERSE source order (`let fv = mod; fv(7, 3)` computes mod(3, 7))" % ("/".join(ops), "reversed" if comp_rev[0] else "in source order", "first-to-last" if comp_rev[0] else "last-to-first", how, "reverses them again" if restores else "keeps that order"))
        # metadata pairing
        structs = [y for y in walk(fl) if y.get("k") == "Struct" and str(y.get("adt", "")).endswith("ffi::Arg")]
        if structs:
            it = fl["scrut"]["args"][0] if fl["scrut"].get("args") else fl["scrut"]
            d = _iter_desc(it)
            if d == "counter":
                # call_arg = &xs[num_args - 1 - i]  (descending)  |  &xs[i] (ascending)
                idx = [y for y in walk(fl) if y.get("k") == "Index"]
                desc = any(any(z.get("k") == "Binary" and str(z.get("op")) in ("-", "Sub") for z in walk(i_.get("idx") or i_.get("index") or i_)) for i_ in idx)
                d = "desc" if desc else "asc"
            n += 1
            key2 = "%s:metadata" % "+".join(ops)
            if d == "desc":
                out.ok(key2, sf, sl, "argument metadata is walked last-to-first, like the popped values")
            else:
                out.violation(key2, sf, sl, "values are popped last argument first, but the per-argument metadata (type, span) is walked first-to-last: every value is paired with the type and span of another argument")
    out.analysed = {"pop_loops": n, "ops_with_compile_direction": len(emitted)}
    out.floor("pop_loops", n, 5)
    return out
