"""QUADDIAG — per-statement diagnostics are built from the tokens of that statement.

Parser::parse collects one error per faulty statement and continues.  An error payload that is built inside the
statement loop from `tokens` must start at the statement's first token: a prefix of the WHOLE token stream
(`tokens.iter().take(self.current)`, `&tokens[..self.current]`) makes every error carry a copy of everything before it —
the "trailing '=' sign" hint then quotes the previous statements (`Use \\`let leta=1⏎b = …\\``) and N faulty lines cost
N² time, memory and output (8000 lines `a = 1`: 20 s, 131 MB), which is not "finishing promptly" for an input without
any nesting."""
from core import RuleOut
from hirlib import callee, local_of, peel, peel_refs, place_path, walk


def rule_quaddiag(crate):
    out = RuleOut("QUADDIAG", "error payloads built in the statement loop of Parser::parse use the tokens of the current statement only")
    fn = crate.find_fn("parser::Parser::parse")
    f = crate.file_of(fn)
    tok_ids = {p["id"] for p in fn["params"] if p.get("k") == "Binding" and p.get("name") == "tokens"}
    loops = [x for x in walk(fn["body"]) if x.get("k") == "Loop"]
    if not tok_ids or not loops:
        out.error("anchor missing: parameter `tokens` / statement loop of Parser::parse")
        return out
    outer = loops[0]
    # locals assigned/declared inside the loop body (per-statement values such as `statement_start`)
    per_iter = {s_["pat"]["id"] for s_ in walk(outer) if s_.get("k") == "Let" and s_["pat"].get("k") == "Binding"}
    n = 0
    for x in walk(outer):
        # (a) tokens.iter()…: needs a .skip(<per-iteration local>) in the same chain
        if x.get("k") == "MethodCall" and x["name"] == "iter" and local_of(x["recv"]) in tok_ids:
            n += 1
            xf, xl = crate.loc(fn, x)
            # the chain this iter() is the root of
            chain = [y for y in walk(outer) if y.get("k") == "MethodCall" and any(z is x for z in walk(y["recv"]))]
            skips = [y for y in chain if y["name"] == "skip" and y.get("args") and local_of(y["args"][0]) in per_iter]
            if skips:
                out.ok("parse:tokens-iter#%d" % n, xf, xl, "iteration starts at a per-statement position (skip)")
            else:
                out.violation("parse:tokens-iter#%d" % n, xf, xl, "inside the statement loop, `tokens.iter()` is walked from the FIRST token of the input (no `.skip(<start of the statement>)`): the diagnostic built here quotes all earlier statements and N faulty statements cost N² time and output")
        # (b) &tokens[a..b]: `a` must be a per-iteration local
        if x.get("k") == "Index":
            base = x.get("e") or x.get("base")
            if base is not None and local_of(base) in tok_ids:
                idx = x.get("idx") or x.get("index") or {}
                rng = peel_refs(idx)
                if rng.get("k") == "Struct" and "Range" in str(rng.get("adt", "")):
                    n += 1
                    xf, xl = crate.loc(fn, x)
                    fields = {str(it[0]): it[1] for it in rng.get("fields", []) if isinstance(it, list)}
                    start = fields.get("start")
                    if start is not None and local_of(start) in per_iter:
                        out.ok("parse:tokens-slice#%d" % n, xf, xl, "the slice starts at a per-statement position")
                    else:
                        out.violation("parse:tokens-slice#%d" % n, xf, xl, "inside the statement loop a slice of `tokens` starts at the beginning of the input: the diagnostic quotes all earlier statements (quadratic output)")
    if n == 0:
        out.ok("parse:no-token-walk", f, fn["line"], "no payload is built from the token stream inside the statement loop")
    out.analysed = {"token_walks_in_statement_loop": n}
    return out
