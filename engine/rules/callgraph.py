"""Call graph from the MIR facts (direct calls resolved with Instance::try_resolve; closures folded into
their parent function; indirect calls through fn pointers / dyn objects kept as typed pseudo-edges)."""
import re

_CLOSURE = re.compile(r"::\{closure#\d+\}")


def owner(def_path):
    return _CLOSURE.sub("", def_path)


class CallGraph:
    def __init__(self, crate):
        self.crate = crate
        self.edges = {}  # caller -> set(callee)
        self.rev = {}
        self.sites = {}  # (caller, callee) -> [line]
        self.indirect = {}  # caller -> [(type string, line)]
        self.fnptr_targets = {}  # fn pointer type -> {functions reified to it}
        n = 0
        for d, b in crate.mir.items():
            caller = owner(d)
            self.edges.setdefault(caller, set())
            for blk in b["body"]["blocks"]:
                t = blk["term"]
                if t.get("k") not in ("call", "tailcall"):
                    continue
                f = t["f"]
                if f.get("o") == "const" and "fn" in f:
                    callee = owner(f.get("inst") or f["fn"])
                    self.edges[caller].add(callee)
                    self.rev.setdefault(callee, set()).add(caller)
                    self.sites.setdefault((caller, callee), []).append(t["s"][0])
                    n += 1
                else:
                    # indirect call: type of the callee operand
                    pl = f.get("pl")
                    ty = ""
                    if pl is not None:
                        ty = crate.types[b["body"]["locals"][pl["l"]]["t"]]
                    self.indirect.setdefault(caller, []).append((ty, t["s"][0]))
            # fn items referenced as values: passed on (map(f), …) they count as potential calls of the
            # referencing function; reified to a fn pointer and stored in data (`Callable::Procedure(print)`) they
            # are only *targets* of indirect calls through a pointer of that type
            for blk in b["body"]["blocks"]:
                for st in blk["stmts"]:
                    rv = st.get("rv") or {}
                    reify = rv.get("rv") == "cast" and "ReifyFnPointer" in rv.get("ck", "")
                    for op in _operands(st):
                        if op.get("o") == "const" and "fn" in op:
                            callee = owner(op.get("inst") or op["fn"])
                            if reify:
                                self.fnptr_targets.setdefault(rv.get("to", ""), set()).add(callee)
                                continue
                            self.edges[caller].add(callee)
                            self.rev.setdefault(callee, set()).add(caller)
                t = blk["term"]
                for op in t.get("args", []) or []:
                    if op.get("o") == "const" and "fn" in op:
                        callee = owner(op.get("inst") or op["fn"])
                        self.edges[caller].add(callee)
                        self.rev.setdefault(callee, set()).add(caller)
        self.n_edges = n
        # indirect calls through a fn pointer reach every function reified to that pointer type
        for caller, lst in self.indirect.items():
            for (ty, _line) in lst:
                t = ty.lstrip("&").replace("mut ", "")
                for fty, targets in self.fnptr_targets.items():
                    if fty == t or fty in ty:
                        for callee in targets:
                            self.edges.setdefault(caller, set()).add(callee)
                            self.rev.setdefault(callee, set()).add(caller)
        # calls that stay on a trait method declaration (generic callers such as Product<Factor>::power calling
        # Factor::power) may reach every implementation of that method in the crate
        trait_items = {}
        for tpath, tr in crate.traits.items():
            for it in tr["items"]:
                trait_items[it["path"]] = (tpath, it["name"])
        impl_items = {}
        for im in crate.impls:
            t = im.get("trait")
            if not t:
                continue
            for it in im["items"]:
                impl_items.setdefault((t, it["name"]), []).append(owner(it["path"]))
        for caller in list(self.edges):
            for callee in list(self.edges[caller]):
                if callee in trait_items:
                    for impl_fn in impl_items.get(trait_items[callee], []):
                        self.edges[caller].add(impl_fn)
                        self.rev.setdefault(impl_fn, set()).add(caller)

    def find(self, suffix):
        hits = [d for d in self.edges if d == suffix or d.endswith("::" + suffix)]
        hits += [d for d in self.rev if (d == suffix or d.endswith("::" + suffix)) and d not in hits]
        return hits

    def callers(self, callee):
        return self.rev.get(callee, set())

    def reachable(self, roots, stop=()):
        seen = set()
        stack = list(roots)
        while stack:
            x = stack.pop()
            if x in seen or x in stop:
                continue
            seen.add(x)
            stack.extend(self.edges.get(x, ()))
        return seen

    def path(self, src, dst, stop=()):
        """One call path src -> dst (list of defs) or None."""
        prev = {src: None}
        queue = [src]
        while queue:
            x = queue.pop(0)
            if x == dst:
                out = []
                while x is not None:
                    out.append(x)
                    x = prev[x]
                return list(reversed(out))
            for y in self.edges.get(x, ()):
                if y not in prev and y not in stop:
                    prev[y] = x
                    queue.append(y)
        return None


def _operands(st):
    rv = st.get("rv")
    if not rv:
        return []
    out = []
    for k in ("op", "a", "b"):
        if isinstance(rv.get(k), dict):
            out.append(rv[k])
    out.extend(rv.get("ops", []) or [])
    return out
