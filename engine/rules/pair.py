"""R13 PAIR — acquire/release pairing on the success path; R19 DEDUP; R12 PHASE."""
from callgraph import CallGraph
from core import RuleOut
from hirlib import callee, ctor_variant, is_try, local_of, pat_variants, peel, peel_refs, place_path, strip_generics, try_inner, walk
from optab import unconditional_calls


def find_arm(crate, fn, enum, variant, with_some_body=False):
    arms = []
    for m in walk(fn["body"]):
        if m.get("k") == "Match" and str(m.get("src")) == "Normal" and strip_generics(crate.ty(peel_refs(m["scrut"]))) == enum:
            for a in m["arms"]:
                if pat_variants(a["pat"], enum) == {variant}:
                    arms.append(a)
    return arms


def pairs_in(crate, fn, body, pairs, out, label, err_exempt_reason):
    """pairs: [(acquire method, release method)] — matched per receiver path."""
    calls = []
    unconditional_calls(body, lambda c: c.get("k") == "MethodCall" and any(c["name"] in p for p in pairs), calls, False)
    events = []
    for (c, cond) in calls:
        p = place_path(c["recv"])
        recv = ".".join(p[2]) if p else "?"
        events.append((c["s"][0], c["s"][1], c["name"], recv, cond, c))
    events.sort(key=lambda e: (e[0], e[1]))
    n = 0
    for (acq, rel) in pairs:
        for i, e in enumerate(events):
            if e[2] != acq:
                continue
            n += 1
            key = "%s:%s.%s" % (label, e[3], acq)
            f, l = crate.loc(fn, e[5])
            later = [x for x in events[i + 1:] if x[2] == rel and x[3] == e[3]]
            if e[4]:
                out.advisory(key, f, l, "`%s.%s()` is conditional; not classified" % (e[3], acq))
                continue
            uncond = [x for x in later if not x[4]]
            if not later:
                out.violation(key, f, l, "`%s.%s()` is never followed by `%s.%s()` in this arm: the scope opened for the function leaks into the following definitions" % (e[3], acq, e[3], rel))
            elif not uncond:
                out.violation(key, f, l, "`%s.%s()` is only released conditionally: some success path leaves the function scope open" % (e[3], acq))
            else:
                # no success return between acquire and release
                early = []
                for x in walk(body):
                    if x.get("k") == "Ret" and x.get("e") is not None:
                        cv = ctor_variant(x["e"])
                        if cv and cv[1] == "Ok" and (e[0], e[1]) < (x["s"][0], x["s"][1]) < (uncond[0][0], uncond[0][1]):
                            early.append(x)
                if early:
                    out.violation(key, f, l, "a success return on line %d lies between `%s()` and `%s()`" % (early[0]["s"][0], acq, rel))
                else:
                    out.ok(key, f, l, "released by `%s.%s()` on line %d on every success path (error exits: %s)" % (e[3], rel, uncond[0][0], err_exempt_reason))
    return n


def rule_pair_typechecker(crate):
    out = RuleOut("PAIR", "every scope opened for a function definition is closed again on the success path")
    fn = crate.find_fn("typechecker::TypeChecker::elaborate_statement")
    arms = find_arm(crate, fn, "crate::ast::Statement", "DefineFunction")
    if len(arms) != 1:
        out.error("anchor missing: DefineFunction arm of elaborate_statement")
        return out
    n = pairs_in(crate, fn, arms[0]["body"], [("save", "restore")], out, "elaborate_statement:DefineFunction",
                 "the whole type checker is restored from its snapshot by Context::interpret_with_settings, rule SNAP")
    out.analysed = {"acquires": n}
    out.floor("acquires", n, 3)
    return out


def rule_pair_compiler(crate):
    out = RuleOut("PAIR", "the compiler's scope stack and chunk selection are balanced around a function body")
    fn = crate.find_fn("bytecode_interpreter::BytecodeInterpreter::compile_statement")
    arms = find_arm(crate, fn, "crate::typed_ast::Statement", "DefineFunction")
    n = 0
    for a in arms:
        n += pairs_in(crate, fn, a["body"], [("push", "pop"), ("begin_function", "end_function")], out, "compile_statement:DefineFunction",
                      "compile_statement's DefineFunction arm has no error exit")
    # push/pop must be on self.locals; filter advisory noise from Vec pushes on other receivers
    out.findings = [f for f in out.findings if "locals.push" in f.key or "begin_function" in f.key]
    out.analysed = {"acquires": len(out.findings)}
    out.floor("acquires", len(out.findings), 2)
    return out


def rule_dedup(crate):
    """R19: Resolver::inlining_pass imports a module only if it is not yet in imported_modules, and records it
    before recursing (so re-imports and cycles change nothing).  Decided on the MIR: the block that calls
    ModuleImporter::import executes only on the `false` outcome of a membership test over imported_modules
    (whatever the source idiom: `if !any {..}`, `if any { continue }`, a named bool, let-else …), and a push to
    imported_modules dominates the recursive call."""
    from mirlib import Mir, guarded_blocks

    out = RuleOut("DEDUP", "module import is guarded by the membership test and recorded before recursion")
    fn = crate.find_fn("resolver::Resolver::inlining_pass")
    f = crate.file_of(fn)
    m = Mir(crate, crate.find_mir("resolver::Resolver::inlining_pass"))
    tests, imports, pushes, recs = [], [], [], []
    for i, blk in enumerate(m.blocks):
        t = blk["term"]
        if t.get("k") != "call":
            continue
        name = t["f"].get("inst") or t["f"].get("fn") or ""
        short = name.split("::")[-1]
        if short in ("any", "contains", "contains_key") and t.get("args"):
            tr = m.trace(t["args"][0])
            if "imported_modules" in tr["fields"]:
                tests.append((i, t))
        elif name.endswith("ModuleImporter::import"):
            imports.append((i, t))
        elif short in ("push", "insert") and t.get("args") and "imported_modules" in m.trace(t["args"][0])["fields"]:
            pushes.append((i, t))
        elif name.endswith("Resolver::inlining_pass"):
            recs.append((i, t))
    if not imports or not recs:
        out.error("anchor missing: inlining_pass has %d ModuleImporter::import call(s) and %d recursive call(s)" % (len(imports), len(recs)))
        return out
    if not tests:
        out.violation("inlining_pass:guard", f, fn["line"], "the import is not guarded by a negative membership test on imported_modules: a module imported twice (or cyclically) is inlined again")
        return out
    safe = set()
    for (ti, t) in tests:
        if "p" in t["dest"]:
            continue
        blocks, _sw = guarded_blocks(m, t["dest"]["l"], want_true=False)
        safe |= blocks
    for (bi, t) in imports:
        if bi in safe:
            out.ok("inlining_pass:guard", f, t["s"][0], "ModuleImporter::import executes only on the `not yet imported` outcome of the membership test over imported_modules (line %d)" % tests[0][1]["s"][0])
        else:
            out.violation("inlining_pass:guard", f, t["s"][0], "the import is not guarded by a negative membership test on imported_modules: a module imported twice (or cyclically) is inlined again")
    for (ri, t) in recs:
        doms = [p for (p, _t) in pushes if m.dominates(p, ri)]
        imp_doms = [p for (p, _t) in imports if m.dominates(p, ri)]
        if doms and imp_doms and any(m.dominates(ip, pp) for ip in imp_doms for pp in doms):
            out.ok("inlining_pass:record-before-recursion", f, t["s"][0], "imported_modules.push lies between the successful import() and the recursive inlining_pass on every path (cycles terminate)")
        else:
            out.violation("inlining_pass:record-before-recursion", f, t["s"][0], "the module is not recorded in imported_modules before the recursive inlining_pass: cyclic imports recurse forever and repeated imports inline the module twice")
    out.analysed = {"import_calls": len(imports), "recursions": len(recs), "membership_tests": len(tests), "record_sites": len(pushes)}
    return out


def rule_phase(crate):
    """R12: whole-input type checking dominates interpretation; no print effect before/inside checking."""
    out = RuleOut("PHASE", "a rejected input is rejected as a whole before any of its statements runs")
    fn = crate.find_fn("Context::interpret_with_settings")
    f = crate.file_of(fn)
    from sym import let_inits

    inits = let_inits(fn)
    # interpret_statements argument derives from the unwrapped Ok of typechecker.check(..)
    run = [x for x in walk(fn["body"]) if x.get("k") == "MethodCall" and x["name"] == "interpret_statements"]
    if len(run) != 1:
        out.error("anchor missing: exactly one interpret_statements call in interpret_with_settings (found %d)" % len(run))
        return out
    r = run[0]

    def derives_from_call(e, method, depth=0, seen=None):
        seen = seen if seen is not None else set()
        for x in walk(e):
            if x.get("k") == "MethodCall" and x["name"] == method:
                return x
            if x.get("k") == "Path" and x["res"].get("r") == "local" and x["res"]["id"] in inits and x["res"]["id"] not in seen and depth < 8:
                seen.add(x["res"]["id"])
                y = derives_from_call(inits[x["res"]["id"]], method, depth + 1, seen)
                if y is not None:
                    return y
        return None

    stm_arg = r["args"][1] if len(r["args"]) > 1 else None
    chk = derives_from_call(stm_arg, "check") if stm_arg is not None else None
    through_try = False
    # the local passed must be bound by `let x = result?` (only the Ok value flows on)
    lid = local_of(stm_arg) if stm_arg is not None else None
    if lid in inits and is_try(peel(inits[lid])):
        through_try = True
    if chk is not None and (callee(chk) or "").endswith("TypeChecker::check") and through_try:
        out.ok("interpret_with_settings:check-before-run", *crate.loc(fn, r), detail="interpret_statements receives the value unwrapped with `?` from TypeChecker::check over the whole statement vector")
    else:
        out.violation("interpret_with_settings:check-before-run", *crate.loc(fn, r), detail="the statements handed to interpret_statements do not come from the Ok result of TypeChecker::check (`?`): statements could run although a later one is ill-typed")
    # check() receives the whole transformed vector (not a prefix / per-statement slice)
    if chk is not None:
        a = peel_refs(chk["args"][0])
        whole = a.get("k") == "Path"
        tr = derives_from_call(chk["args"][0], "transform")
        if whole and tr is not None:
            out.ok("interpret_with_settings:check-whole-input", *crate.loc(fn, chk), detail="TypeChecker::check is given the complete output of Transformer::transform")
        else:
            out.violation("interpret_with_settings:check-whole-input", *crate.loc(fn, chk), detail="TypeChecker::check is not given the complete transformed statement vector")
    # TypeChecker::check returns at the first failing statement and checks every statement
    ck = crate.find_fn("typechecker::TypeChecker::check")
    loops = [x for x in walk(ck["body"]) if x.get("k") == "Loop"]
    inner = [x for l in loops for x in walk(l) if x.get("k") == "MethodCall" and x["name"] == "check_statement"]
    tries = [x for l in loops for x in walk(l) if x.get("k") == "Match" and is_try(x) and any(y is inner[0] for y in walk(try_inner(x)))] if inner else []
    if inner and tries:
        out.ok("TypeChecker::check:all-statements", crate.file_of(ck), ck["line"], "check_statement is applied to every statement in a loop and its error is propagated with `?`")
    else:
        out.violation("TypeChecker::check:all-statements", crate.file_of(ck), ck["line"], "TypeChecker::check does not check every statement or swallows a statement's error")
    # who may reach the print function: only the interpreter phase
    cg = CallGraph(crate)
    printers = set()
    for d, b in crate.mir.items():
        for blk in b["body"]["blocks"]:
            t = blk["term"]
            if t.get("k") == "call" and t["f"].get("o") == "const":
                s_ = (t["f"].get("inst") or t["f"].get("fn") or "") + " " + t["f"].get("gargs", "")
                if ("call_mut" in s_ or "Fn::call" in s_ or "call_once" in s_) and "FnMut<(&crate::markup::Markup,)>" in s_:
                    from callgraph import owner as _owner

                    printers.add(_owner(d))
    printers = sorted(printers)
    phases = {
        "Resolver::resolve": "crate::resolver::Resolver::resolve",
        "Transformer::transform": "crate::prefix_transformer::Transformer::transform",
        "TypeChecker::check": "crate::typechecker::TypeChecker::check",
    }
    for label, root in phases.items():
        if root not in cg.edges:
            out.error("call graph: %s not found" % root)
            continue
        reach = cg.reachable([root])
        bad = sorted(p for p in printers if p in reach)
        if bad:
            path = cg.path(root, bad[0])
            out.violation("no-print-in:%s" % label, f, fn["line"], "a call through the print function is reachable from %s: %s" % (label, " → ".join(x.split("::")[-1] for x in (path or [root, bad[0]]))))
        else:
            out.ok("no-print-in:%s" % label, f, fn["line"], "no call through PrintFunction is reachable from %s (%d functions)" % (label, len(reach)))
    out.analysed = {"print_call_sites": len(printers), "call_edges": cg.n_edges}
    out.floor("print_call_sites", len(printers), 1)
    return out
