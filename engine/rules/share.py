"""R2 SHARE — ownership premises: no shared mutable state reachable from a root type."""
from core import RuleOut
from hirlib import walk

INTERIOR = (
    "std::cell::",
    "core::cell::",
    "std::sync::Mutex",
    "std::sync::RwLock",
    "std::sync::atomic::",
    "core::sync::atomic::",
    "std::sync::OnceLock",
    "std::sync::LazyLock",
    "std::sync::Once",
    "std::sync::Condvar",
    "std::sync::mpsc::",
    "std::sync::Barrier",
    "std::thread::LocalKey",
    "once_cell::",
    "parking_lot::",
)
SHARED_PTR = ("std::sync::Arc", "std::rc::Rc", "std::sync::Weak", "std::rc::Weak")


def is_interior(path):
    return any(path.startswith(p) for p in INTERIOR)


class Walker:
    def __init__(self, crate, out, label):
        self.crate = crate
        self.out = out
        self.label = label
        self.seen = set()
        self.n_types = 0
        self.n_fields = 0
        self.shared = []  # (chain, pointee string)
        self.foreign = set()
        self.dyn_traits = set()

    def implementors(self, trait_path):
        res = []
        for im in self.crate.impls:
            if im.get("trait") == trait_path:
                res.append(im)
        return res

    def walk_ty(self, ty, chain, local_owner):
        k = ty.get("k")
        if k == "adt":
            path = ty["path"]
            if is_interior(path):
                self.report("interior", chain, path)
                return
            if path in SHARED_PTR:
                self.shared.append((" → ".join(chain), path))
            for a in ty.get("args", []):
                self.walk_ty(a, chain + [path.split("::")[-1] + "<..>"], local_owner)
            self.walk_adt(path, chain)
        elif k in ("ref",):
            if ty.get("mut"):
                self.report("mutref", chain, "&mut")
            self.walk_ty(ty["inner"], chain + ["&"], local_owner)
        elif k == "rawptr":
            if local_owner:
                self.report("rawptr", chain, "*const/*mut")
        elif k in ("slice", "array"):
            self.walk_ty(ty["inner"], chain + ["[]"], local_owner)
        elif k == "tuple":
            for e in ty["elems"]:
                self.walk_ty(e, chain, local_owner)
        elif k == "dyn":
            for tr in ty["traits"]:
                if tr.startswith("std::marker::") or tr.startswith("core::marker::"):
                    continue
                self.dyn_traits.add(tr)
                impls = self.implementors(tr)
                if not impls and not tr.startswith("std::") and not tr.startswith("core::"):
                    self.out.advisory("%s:dyn:%s" % (self.label, tr), "", 0, "no implementor of %s found in the analysed crate" % tr)
                for im in impls:
                    st = im.get("self_ty")
                    if st:
                        self.walk_ty(st, chain + ["dyn %s = %s" % (tr.split("::")[-1], im["self"].split("::")[-1])], local_owner)
        elif k == "fnptr":
            pass
        elif k == "closure":
            self.report("closure", chain, "closure type stored in a field")

    def walk_adt(self, path, chain):
        if path in self.seen:
            return
        self.seen.add(path)
        adt = self.crate.adts.get(path)
        self.n_types += 1
        if adt is None:
            self.foreign.add(path)
            return
        if adt.get("unsafe_cell"):
            self.report("interior", chain, path)
            return
        if adt.get("opaque_std"):
            return
        local = bool(adt.get("local"))
        if not local:
            self.foreign.add(path)
        for v in adt.get("variants", []):
            for f in v["fields"]:
                self.n_fields += 1
                name = "%s.%s" % (path.split("::")[-1], f["name"])
                if local:
                    self.walk_ty(f["ty"], chain + [name], True)
                else:
                    # foreign crate: only look for interior mutability stored inline / in type arguments
                    self.walk_ty(f["ty"], chain + [name], False)

    def report(self, kind, chain, what):
        key = "%s:%s:%s" % (self.label, kind, chain[-1] if chain else "?")
        adt_name = chain[0] if chain else ""
        self.out.violation(key, "", 0, "%s reachable from %s through %s (%s)" % (what, self.label, " → ".join(chain), kind))


def rule_share(crate, root_path, label, unsafe_files=(), static_exceptions=None, min_types=1, min_fields=1, check_statics=False):
    out = RuleOut("SHARE", "no shared mutable state is reachable from `%s` (a clone is independent of the original)" % label)
    root = crate.adt(root_path)
    w = Walker(crate, out, label)
    w.walk_adt(root["path"], [label])
    f = crate.files[root["file"]] if "file" in root else ""
    for fnd in out.findings:
        if not fnd.file:
            fnd.file, fnd.line = f, root.get("line", 0)
    # one obligation per reachable type: it holds no interior mutability / raw pointer
    bad_types = {x.key for x in out.findings if x.verdict == "violation"}
    out.ok("%s:types" % label, f, root.get("line", 0), "%d types / %d fields reachable from %s hold no Cell/RefCell/Mutex/RwLock/Atomic/OnceLock, no raw pointer in workspace types" % (w.n_types, w.n_fields, label)) if not bad_types else None
    for chain, ptr in w.shared:
        out.ok("%s:shared:%s" % (label, chain.split(" → ")[-1]), f, root.get("line", 0), "%s at %s: pointee has no interior mutability (walked)" % (ptr, chain))
    # (e) unsafe in the named files
    n_unsafe = 0
    bodies = 0
    for d, b in crate.hir.items():
        bf = crate.file_of(b)
        if not any(bf.endswith(u) for u in unsafe_files):
            continue
        bodies += 1
        for n in walk(b["body"]):
            if n.get("k") == "Block" and n.get("unsafe"):
                s = n.get("s", [])
                if len(s) >= 3 and s[2] == 1:
                    continue  # macro-generated (format_args!)
                n_unsafe += 1
                out.violation("%s:unsafe:%s" % (label, d.split("::")[-1]), bf, s[0] if s else b["line"], "`unsafe` block in %s" % d)
    for im in crate.impls:
        imf = crate.files[im["file"]]
        if any(imf.endswith(u) for u in unsafe_files) and im.get("unsafe") and not im.get("auto"):
            n_unsafe += 1
            out.violation("%s:unsafe-impl:%s" % (label, im["self"]), imf, im["line"], "`unsafe impl` in the owner module")
    if unsafe_files:
        out.ok("%s:no-unsafe" % label, unsafe_files[0], 0, "%d bodies in %s contain no `unsafe` block and no `unsafe impl`" % (bodies, ",".join(unsafe_files))) if n_unsafe == 0 else None
    # (f) statics
    static_exceptions = static_exceptions or {}
    for st in crate.statics if check_statics else []:
        key = "%s:static:%s" % (label, st["path"].split("::", 1)[-1])
        sf = crate.files[st["file"]]
        if st.get("mut"):
            out.violation(key, sf, st["line"], "`static mut` %s" % st["path"])
        elif not st.get("freeze"):
            ex = None
            for pat, reason in static_exceptions.items():
                if st["path"].endswith(pat):
                    ex = reason
            ty = st["ty"]
            set_once = ty.get("k") == "adt" and ty["path"] in ("std::sync::OnceLock", "std::sync::LazyLock", "std::cell::OnceCell") and ty.get("args")
            inner_ok = False
            if set_once:
                probe = RuleOut("probe")
                pw = Walker(crate, probe, "static")
                pw.walk_ty(ty["args"][0], [st["path"]], True)
                inner_ok = probe.count("violation") == 0
            if set_once and inner_ok:
                out.ok(key, sf, st["line"], "set-once cell of immutable data (%s)" % st["s"][:90])
            elif ex:
                out.exempt(key, sf, st["line"], ex)
            else:
                out.violation(key, sf, st["line"], "static %s: %s has interior mutability and is not a set-once cell of immutable data" % (st["path"], st["s"]))
        else:
            out.ok(key, sf, st["line"], "immutable static (%s is Freeze)" % st["s"][:80])
    out.analysed = {
        "root": root["path"],
        "types": w.n_types,
        "fields": w.n_fields,
        "shared_pointers": len(w.shared),
        "foreign_opaque": sorted(w.foreign),
        "dyn_traits": sorted(w.dyn_traits),
        "statics": len(crate.statics),
        "unsafe_sites": n_unsafe,
    }
    out.floor("types[%s]" % label, w.n_types, min_types)
    out.floor("fields[%s]" % label, w.n_fields, min_fields)
    return out
