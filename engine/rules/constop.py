"""CONSTOP — the type checker's constant evaluator (exponents of dimensionful bases) applies each binary operator the
way the VM does at run time: the operation named by the operator, with the LEFT sub-expression's value as first and
the RIGHT one's as second operand for the non-commutative operators (- / ^), and division guarded against a zero
divisor taken from the right operand.  A swapped operand makes the static dimension `Length^(b-a)` while the value is
computed with `a-b`: consistent programs are rejected and inconsistent ones accepted."""
from core import RuleOut
from hirlib import callee, local_of, pat_variants, peel, peel_refs, strip_generics, walk

BINOP = "crate::ast::BinaryOperator"
WANT = {"Add": ("add",), "Sub": ("sub",), "Mul": ("mul",), "Div": ("div",), "Power": ("pow",)}
NONCOMM = {"Sub", "Div", "Power"}


def rule_constop(crate):
    out = RuleOut("CONSTOP", "the constant evaluator applies each operator with its operands in source order")
    fn = crate.find_fn("typechecker::const_evaluation::evaluate_const_expr")
    f = crate.file_of(fn)
    # lhs / rhs value locals: let x = evaluate_const_expr(<binding of pattern field lhs|rhs>)
    field_binding = {}
    for p in walk(fn["body"]):
        if p.get("k") == "Struct" and p.get("variant") == "BinaryOperator" and p.get("fields"):
            for it in p["fields"]:
                if isinstance(it, list) and len(it) == 2 and str(it[0]) in ("lhs", "rhs"):
                    for q in walk(it[1]):
                        if q.get("k") == "Binding":
                            field_binding[q["id"]] = str(it[0])
    side = {}
    for n in walk(fn["body"]):
        if n.get("k") == "Let" and n.get("init") is not None and n["pat"].get("k") == "Binding":
            for c in walk(n["init"]):
                if c.get("k") == "Call" and (callee(c) or "").endswith("evaluate_const_expr") and c["args"]:
                    src = local_of(c["args"][0])
                    if src in field_binding:
                        side[n["pat"]["id"]] = field_binding[src]
    if set(side.values()) != {"lhs", "rhs"}:
        out.error("anchor missing: the values of the lhs / rhs sub-expressions in evaluate_const_expr")
        return out
    m = None
    for x in walk(fn["body"]):
        if x.get("k") == "Match" and str(x.get("src")) == "Normal" and strip_generics(crate.ty(peel_refs(x["scrut"]))) == BINOP:
            m = x
    if m is None:
        out.error("anchor missing: match on the binary operator in evaluate_const_expr")
        return out
    n = 0
    for a in m["arms"]:
        vs = pat_variants(a["pat"], BINOP)
        if not vs or len(vs) != 1:
            continue
        v = next(iter(vs))
        if v not in WANT:
            continue
        n += 1
        af, al = crate.loc(fn, a["pat"])
        ops = []
        for c in walk(a["body"]):
            if c.get("k") == "MethodCall":
                nm = c["name"].replace("checked_", "").replace("wrapping_", "").replace("saturating_", "")
                if nm in ("add", "sub", "mul", "div", "pow", "powi"):
                    ops.append((nm.replace("powi", "pow"), [c["recv"]] + list(c["args"])))
            elif c.get("k") == "Call":
                nm = (callee(c) or "").split("::")[-1].replace("checked_", "")
                if nm in ("add", "sub", "mul", "div", "pow"):
                    ops.append((nm, list(c["args"])))
            elif c.get("k") == "Binary" and str(c.get("op")) in ("+", "-", "*", "/"):
                ops.append(({"+": "add", "-": "sub", "*": "mul", "/": "div"}[str(c["op"])], [c["l"], c["r"]]))
        ops = [o for o in ops if len(o[1]) >= 2]
        key = "evaluate_const_expr:%s" % v
        if len(ops) != 1:
            out.advisory(key, af, al, "unrecognised arithmetic in the %s arm (%d candidate operations); not decided" % (v, len(ops)))
            continue
        nm, args = ops[0]

        def prov(e):
            got = set()
            for y in walk(e):
                if y.get("k") == "Path" and y["res"].get("r") == "local" and y["res"]["id"] in side:
                    got.add(side[y["res"]["id"]])
            return got

        p0, p1 = prov(args[0]), prov(args[1])
        if nm not in WANT[v]:
            out.violation(key, af, al, "BinaryOperator::%s is evaluated with `%s` in the constant evaluator" % (v, nm))
        elif v in NONCOMM and not (p0 == {"lhs"} and p1 == {"rhs"}):
            out.violation(key, af, al, "the constant evaluator computes `%s` with the operands in the wrong order (first operand from %s, second from %s): the static exponent of `base^(a %s b)` differs from the one the VM computes, so consistent programs are rejected and inconsistent ones accepted" % (v, sorted(p0) or "?", sorted(p1) or "?", {"Sub": "-", "Div": "/", "Power": "^"}[v]))
        elif not (p0 | p1 == {"lhs", "rhs"}):
            out.violation(key, af, al, "the %s arm does not combine the values of both sub-expressions" % v)
        else:
            out.ok(key, af, al, "%s(lhs, rhs)" % nm)
    out.analysed = {"operator_arms": n}
    out.floor("operator_arms", n, 5)
    return out


def rule_unitdtype(crate):
    """UNITDTYPE — a derived unit is stored with SetUnitConstant, which pops a *quantity*: the checker must therefore
    require the defining expression of `unit u = <expr>` to have a dimension type (enforce_dtype / add_dtype_constraint
    on the deduced type) whether or not an annotation is given.  Without it `unit u = "s"` is accepted and the VM
    panics."""
    from hirlib import pat_variants

    out = RuleOut("UNITDTYPE", "the defining expression of a derived unit is required to have a dimension type")
    fn = crate.find_fn("typechecker::TypeChecker::elaborate_statement")
    f = crate.file_of(fn)
    arm = None
    for m in walk(fn["body"]):
        if m.get("k") == "Match" and str(m.get("src")) == "Normal":
            for a in m["arms"]:
                if pat_variants(a["pat"], "crate::ast::Statement") == {"DefineDerivedUnit"}:
                    arm = a
    if arm is None:
        out.error("anchor missing: DefineDerivedUnit arm of elaborate_statement")
        return out
    # locals bound from the result of _elaborate_inner
    deduced = set()
    for n in walk(arm["body"]):
        if n.get("k") == "Let" and n.get("init") is not None and any(x.get("k") == "MethodCall" and x["name"] == "_elaborate_inner" for x in walk(n["init"])):
            for q in walk(n["pat"]):
                if q.get("k") == "Binding":
                    deduced.add(q["id"])
    calls = []
    for n in walk(arm["body"]):
        if n.get("k") == "MethodCall" and n["name"] in ("enforce_dtype", "add_dtype_constraint") and n["args"]:
            if any(y.get("k") == "Path" and y["res"].get("r") == "local" and y["res"]["id"] in deduced for y in walk(n["args"][0])):
                calls.append(n)
    af, al = crate.loc(fn, arm["pat"])
    if not deduced:
        out.error("anchor missing: result of _elaborate_inner in the DefineDerivedUnit arm")
    elif calls:
        out.ok("elaborate_statement:DefineDerivedUnit:dtype", *crate.loc(fn, calls[0]), detail="the deduced type of the defining expression is required to be a dimension type")
    else:
        out.violation("elaborate_statement:DefineDerivedUnit:dtype", af, al, "the type deduced for the defining expression of a unit is never required to be a dimension type: `unit u = 's'`, `unit u = [1 m]`, `unit u = now()` are accepted and the VM panics in SetUnitConstant (`Expected quantity to be on the top of the stack`)")
    out.analysed = {"dtype_requirements": len(calls)}
    return out
