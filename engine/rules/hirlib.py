"""Helpers over the HIR/MIR fact JSON produced by engine/nbfacts."""
import re

TRANSPARENT = ("DropTemps", "Use", "Type")


class Crate:
    """Indexed view of one crate's facts."""

    def __init__(self, doc):
        self.doc = doc
        self.types = doc["types"]
        self.files = doc["files"]
        self.hir = {}
        for b in doc["hir"]:
            self.hir.setdefault(b["def"], b)
        self.mir = {}
        for b in doc["mir"]:
            self.mir.setdefault(b["def"], b)
        self.adts = {a["path"]: a for a in doc["adts"]}
        self.impls = doc["impls"]
        self.statics = doc["statics"]
        self.traits = {t["path"]: t for t in doc["traits"]}

    def ty(self, node, adjusted=False):
        if adjusted and "at" in node:
            return self.types[node["at"]]
        t = node.get("t")
        return self.types[t] if t is not None else ""

    def file_of(self, body):
        return self.files[body["file"]]

    def loc(self, body, node):
        """file:line of a node inside a body."""
        s = node.get("s") if isinstance(node, dict) else None
        if not s:
            return self.file_of(body), body["line"]
        if len(s) >= 4:
            return self.files[s[3]], s[0]
        return self.file_of(body), s[0]

    def find_fn(self, suffix, required=True):
        """Body whose def path equals `suffix` or ends with `::suffix`."""
        hits = [b for d, b in self.hir.items() if d == suffix or d.endswith("::" + suffix)]
        if len(hits) == 1:
            return hits[0]
        if not hits:
            if required:
                raise AnchorMissing("function `%s` not found in crate %s" % (suffix, self.doc["crate"]))
            return None
        raise AnchorMissing("function `%s` is ambiguous: %s" % (suffix, [h["def"] for h in hits]))

    def find_mir(self, suffix, required=True):
        hits = [b for d, b in self.mir.items() if d == suffix or d.endswith("::" + suffix)]
        if len(hits) == 1:
            return hits[0]
        if not hits:
            if required:
                raise AnchorMissing("MIR body `%s` not found in crate %s" % (suffix, self.doc["crate"]))
            return None
        raise AnchorMissing("MIR body `%s` is ambiguous: %s" % (suffix, [h["def"] for h in hits]))

    def adt(self, path, required=True):
        a = self.adts.get(path)
        if a is None:
            hits = [x for p, x in self.adts.items() if p.endswith("::" + path)]
            if len(hits) == 1:
                return hits[0]
            if required:
                raise AnchorMissing("type `%s` not found" % path)
        return a

    def impl_methods(self, trait_suffix, method):
        """All bodies implementing `method` of a trait (by trait path suffix)."""
        out = []
        for d, b in self.hir.items():
            tr = b.get("impl_trait")
            if tr and (tr == trait_suffix or tr.endswith("::" + trait_suffix)) and b["name"] == method:
                out.append(b)
        return out


class AnchorMissing(Exception):
    pass


def peel(e):
    """Strip wrappers that do not change the denoted place/value."""
    while isinstance(e, dict):
        k = e.get("k")
        if k in TRANSPARENT:
            e = e["e"]
        elif k == "Block" and not e.get("stmts") and e.get("tail") is not None:
            e = e["tail"]
        else:
            break
    return e


def peel_refs(e):
    """peel + strip `&`, `&mut`, `*`."""
    while True:
        e = peel(e)
        if isinstance(e, dict) and e.get("k") == "AddrOf":
            e = e["e"]
        elif isinstance(e, dict) and e.get("k") == "Unary" and e.get("op") == "Deref" and "inst" not in e:
            e = e["e"]
        else:
            return e


def place_path(e):
    """(root_local_id, root_name, [field names]) for `x.a.b` (through refs/derefs); else None."""
    fields = []
    e = peel_refs(e)
    while isinstance(e, dict):
        k = e.get("k")
        if k == "Field":
            fields.append(e["name"])
            e = peel_refs(e["e"])
        elif k == "Path" and e["res"].get("r") == "local":
            return e["res"]["id"], e["res"]["name"], list(reversed(fields))
        else:
            return None
    return None


def local_of(e):
    """local id if e is (a reference to) a plain local variable."""
    p = place_path(e)
    if p and not p[2]:
        return p[0]
    return None


def children(n):
    """Direct sub-nodes (expressions, patterns, blocks, stmts) in evaluation order."""
    if isinstance(n, list):
        for x in n:
            yield x
        return
    if not isinstance(n, dict):
        return
    k = n.get("k")
    order = {
        "Call": ("f", "args"),
        "MethodCall": ("recv", "args"),
        "Binary": ("l", "r"),
        "Assign": ("r", "l"),
        "AssignOp": ("r", "l"),
        "If": ("cond", "then", "else"),
        "Match": ("scrut", "arms"),
        "Index": ("e", "idx"),
        "Let": ("init", "pat", "els"),
        "Closure": ("params", "body"),
        "Block": ("stmts", "tail"),
        "Loop": ("body",),
        "Struct": ("fields", "base"),
    }.get(k)
    if order is None:
        order = [f for f in n if f not in ("s", "t", "at", "k", "res", "lit")]
    for f in order:
        v = n.get(f)
        if v is None:
            continue
        if f == "fields":
            for item in v:
                yield item[1]
        elif f == "arms":
            for a in v:
                yield a
        elif isinstance(v, list):
            for x in v:
                if isinstance(x, (dict, list)):
                    yield x
        elif isinstance(v, dict):
            yield v
    if k is None and "pat" in n and "body" in n:
        return


def arm_children(a):
    yield a["pat"]
    if "guard" in a:
        yield a["guard"]
    yield a["body"]


def walk(n, into_closures=True):
    """Pre-order walk over every dict node."""
    stack = [n]
    while stack:
        x = stack.pop()
        if isinstance(x, list):
            stack.extend(reversed(x))
            continue
        if not isinstance(x, dict):
            continue
        yield x
        if x.get("k") == "Closure" and not into_closures:
            continue
        if "k" not in x and "pat" in x and "body" in x:  # match arm
            ch = list(arm_children(x))
        else:
            ch = list(children(x))
        stack.extend(reversed(ch))


def callee(n):
    """Resolved callee path of a Call / MethodCall / overloaded operator node (or None)."""
    k = n.get("k")
    if k == "MethodCall" or k in ("Binary", "Unary", "AssignOp", "Index"):
        return n.get("inst") or n.get("m")
    if k == "Call":
        f = peel(n["f"])
        if f.get("k") == "Path":
            r = f["res"]
            if r.get("r") == "def":
                return r.get("inst") or r.get("path")
    return None


def callee_decl(n):
    k = n.get("k")
    if k == "MethodCall" or k in ("Binary", "Unary", "AssignOp", "Index"):
        return n.get("m")
    if k == "Call":
        f = peel(n["f"])
        if f.get("k") == "Path" and f["res"].get("r") == "def":
            return f["res"].get("path")
    return None


def call_args(n):
    """All argument expressions including the receiver."""
    if n.get("k") == "MethodCall":
        return [n["recv"]] + list(n["args"])
    if n.get("k") == "Call":
        return list(n["args"])
    if n.get("k") in ("Binary",):
        return [n["l"], n["r"]]
    return []


def is_try(n):
    return n.get("k") == "Match" and str(n.get("src", "")).startswith("TryDesugar")


def try_inner(n):
    """The operand of `expr?`."""
    sc = peel(n["scrut"])
    if sc.get("k") == "Call" and sc["args"]:
        return sc["args"][0]
    return sc


def ctor_variant(n):
    """(adt, variant) if n is `Variant(..)`, `Variant { .. }` or a unit variant path."""
    n = peel(n)
    k = n.get("k")
    if k == "Call":
        f = peel(n["f"])
        if f.get("k") == "Path" and "variant" in f["res"]:
            return f["res"].get("adt"), f["res"]["variant"]
    if k == "Struct" and n.get("variant"):
        return n.get("adt"), n["variant"]
    if k == "Path" and "variant" in n["res"]:
        return n["res"].get("adt"), n["res"]["variant"]
    return None


def pat_bindings(p):
    """All Binding nodes of a pattern."""
    return [x for x in walk(p) if x.get("k") == "Binding"]


def pat_variants(p, adt_path):
    """Set of variants of `adt_path` that pattern p can match at its top level (through refs, or-patterns,
    bindings with sub-patterns). Returns None if the pattern matches *any* variant (wildcard/binding)."""
    k = p.get("k")
    if k in ("Ref", "Box", "Deref"):
        return pat_variants(p["pat"], adt_path)
    if k == "Or":
        out = set()
        for q in p["pats"]:
            v = pat_variants(q, adt_path)
            if v is None:
                return None
            out |= v
        return out
    if k == "Binding":
        if "sub" in p:
            return pat_variants(p["sub"], adt_path)
        return None
    if k == "Wild":
        return None
    if k == "Guard":
        return pat_variants(p["pat"], adt_path)
    if k in ("Struct", "TupleStruct", "Path"):
        if p.get("adt") == adt_path and p.get("variant"):
            return {p["variant"]}
        return set()
    return set()


_ADT_RE = re.compile(r"[A-Za-z_][A-Za-z0-9_]*(?:::[A-Za-z_][A-Za-z0-9_]*)+")


def strip_generics(t):
    """`crate::typed_ast::Expression<'_>` -> `crate::typed_ast::Expression`; refs stripped."""
    t = t.strip()
    while t.startswith("&"):
        t = t[1:].strip()
        if t.startswith("mut "):
            t = t[4:].strip()
        if t.startswith("'"):
            t = t.split(" ", 1)[1] if " " in t else t
    depth = 0
    out = []
    for ch in t:
        if ch == "<":
            depth += 1
        elif ch == ">":
            depth -= 1
        elif depth == 0:
            out.append(ch)
    return "".join(out).strip()
