"""R10 PROV — provenance facts on named calls (C04, C05, C21) and R20 ABORT."""
from callgraph import CallGraph
from core import RuleOut
from hirlib import callee, ctor_variant, local_of, pat_variants, peel, peel_refs, place_path, strip_generics, walk
from sym import let_inits, operand_prov

Q = "crate::quantity::Quantity"


def param_ids(fn):
    return {p["name"]: p["id"] for p in fn["params"] if p.get("k") == "Binding"}


def derives(expr, fn, ids):
    return operand_prov(expr, let_inits(fn), {i: 1 for i in ids})


# ----------------------------------------------------------------------------- C04
def rule_prov_convert(crate):
    out = RuleOut("PROV", "`q -> U` carries exactly the requested unit U and is exempt from later rewriting")
    ct = crate.find_fn("quantity::Quantity::convert_to")
    f = crate.file_of(ct)
    pids = param_ids(ct)
    tgt = pids.get("target_unit")
    self_id = pids.get("self")
    if tgt is None:
        out.error("anchor missing: parameter `target_unit` of Quantity::convert_to")
        return out
    n_ok = 0
    for n in walk(ct["body"]):
        cv = ctor_variant(n)
        if cv and cv[0] == "std::result::Result" and cv[1] == "Ok" and n.get("k") == "Call":
            inner = peel(n["args"][0])
            cf, cl = crate.loc(ct, n)
            key = "convert_to:Ok#%d" % n_ok
            unit_arg = None
            problem = None
            if inner.get("k") == "Call" and (callee(inner) or "").endswith("Quantity::new") and len(inner["args"]) == 2:
                unit_arg = inner["args"][1]
            elif inner.get("k") == "Struct" and inner.get("adt") == Q:
                flds = dict((nm, e) for nm, e in inner["fields"])
                unit_arg = flds.get("unit")
                if inner.get("base") is not None:
                    problem = "the result is built with struct-update syntax from another quantity (`..%s`): display flags of the source (conversion_target, can_simplify) leak into the converted value" % ("self" if self_id in derives(inner["base"], ct, {self_id}) else "other")
                else:
                    ctv = flds.get("conversion_target")
                    cs = flds.get("can_simplify")
                    if ctv is None or (ctor_variant(ctv) or ("", ""))[1] != "None":
                        problem = "the result does not start with `conversion_target: None`"
                    elif cs is None or peel(cs).get("lit", {}).get("v") is not True:
                        problem = "the result does not start with `can_simplify: true`"
            if unit_arg is None:
                out.violation(key, cf, cl, "a success return of convert_to does not construct a fresh Quantity in the target unit")
            elif problem:
                out.violation(key, cf, cl, "a success return of convert_to: " + problem)
            else:
                p = derives(unit_arg, ct, set(pids.values()))
                if p == {tgt}:
                    out.ok(key, cf, cl, "result is a fresh Quantity whose unit derives from `target_unit` only")
                else:
                    names = [k for k, v in pids.items() if v in p]
                    out.violation(key, cf, cl, "a success return of convert_to constructs its result with a unit derived from %s instead of `target_unit`" % (names or "a constant"))
            n_ok += 1
    if n_ok == 0:
        out.error("convert_to: no Ok(..) return found")
    # ---- VM arm
    run = crate.find_fn("vm::Vm::run_without_cleanup")
    rf = crate.file_of(run)
    sites = [n for n in walk(run["body"]) if n.get("k") == "MethodCall" and (callee(n) or "").endswith("Quantity::convert_to")]
    arm = None
    for m in walk(run["body"]):
        if m.get("k") == "Match" and strip_generics(crate.ty(peel_refs(m["scrut"]))) == "crate::vm::Op":
            for a in m["arms"]:
                vs = pat_variants(a["pat"], "crate::vm::Op")
                if vs == {"ConvertTo"}:
                    arm = a
    if arm is None:
        out.error("anchor missing: the `Op::ConvertTo` arm inside Vm::run_without_cleanup")
    else:
        calls = [n for n in walk(arm["body"]) if n.get("k") == "MethodCall"]
        conv = [n for n in calls if (callee(n) or "").endswith("Quantity::convert_to")]
        cf, cl = crate.loc(run, arm["pat"])
        if len(conv) != 1:
            out.violation("vm:ConvertTo:convert", cf, cl, "the ConvertTo arm does not contain exactly one convert_to call")
        else:
            c = conv[0]
            # operands: the two `pop_quantity()` lets in the enclosing binary-operator arm, in pop order
            pops = []
            for n in walk(run["body"]):
                if n.get("k") == "Let" and n.get("init") is not None and n["pat"].get("k") == "Binding":
                    i = peel(n["init"])
                    if i.get("k") == "MethodCall" and (callee(i) or "").endswith("Vm::pop_quantity") and any(x is c for x in walk(_enclosing_arm_body(run, n))):
                        pops.append(n["pat"])
            recv = local_of(c["recv"])
            targ = derives(c["args"][0], run, {p["id"] for p in pops})
            if len(pops) == 2:
                first, second = pops[0], pops[1]
                if recv == second["id"] and targ == {first["id"]}:
                    out.ok("vm:ConvertTo:operands", cf, cl, "the value popped second (`%s`, the left operand) is converted to the unit of the value popped first (`%s`, the right operand)" % (second["name"], first["name"]))
                else:
                    out.violation("vm:ConvertTo:operands", cf, cl, "the ConvertTo arm does not convert the left operand to the unit of the right operand (receiver/target are swapped or unrelated)")
            else:
                out.advisory("vm:ConvertTo:operands", cf, cl, "could not identify the two popped operands")
            names = {n["name"] for n in calls}
            if "no_simplify" in names:
                out.ok("vm:ConvertTo:no_simplify", cf, cl, "the converted value is marked no_simplify()")
            else:
                out.violation("vm:ConvertTo:no_simplify", cf, cl, "the result of an explicit conversion is not marked no_simplify(); automatic simplification would rewrite the unit the user chose")
            wct = [n for n in calls if n["name"] == "with_conversion_target"]
            if wct and pops and derives(wct[0]["args"][0], run, {p["id"] for p in pops}) == {pops[0]["id"]}:
                out.ok("vm:ConvertTo:target-display", cf, cl, "the conversion target (right operand) is attached for display")
            else:
                out.violation("vm:ConvertTo:target-display", cf, cl, "the conversion target is not attached from the right operand (a multiple of U would not be displayed in U)")
    # ---- compile order: lhs before rhs
    ce = crate.find_fn("bytecode_interpreter::BytecodeInterpreter::compile_expression")
    for m in walk(ce["body"]):
        if m.get("k") == "Match" and strip_generics(crate.ty(peel_refs(m["scrut"]))) == "crate::typed_ast::Expression":
            for a in m["arms"]:
                if pat_variants(a["pat"], "crate::typed_ast::Expression") == {"BinaryOperator"}:
                    binds = {}
                    p = a["pat"]
                    while p.get("k") in ("Ref",):
                        p = p["pat"]
                    for name, sp in p.get("fields", []):
                        for b in walk(sp):
                            if b.get("k") == "Binding":
                                binds[name] = b["id"]
                    order = []
                    for n in walk(a["body"]):
                        if n.get("k") == "MethodCall" and (callee(n) or "").endswith("compile_expression"):
                            order.append(local_of(n["args"][0]))
                    cf, cl = crate.loc(ce, a["pat"])
                    if order[:2] == [binds.get("lhs"), binds.get("rhs")]:
                        out.ok("compile:BinaryOperator:order", cf, cl, "lhs is compiled before rhs (rhs ends on top of the stack)")
                    else:
                        out.violation("compile:BinaryOperator:order", cf, cl, "the operands of a binary operator are not compiled in source order")
    out.analysed = {"convert_to_success_returns": n_ok, "convert_to_sites_in_vm": len(sites)}
    out.floor("convert_to_success_returns", n_ok, 2)
    return out


def _enclosing_arm_body(fn, node):
    """Body of the innermost Op-dispatch arm that contains `node` (by identity)."""
    best = fn["body"]
    for m in walk(fn["body"]):
        if m.get("k") == "Match":
            for a in m["arms"]:
                if any(x is node for x in walk(a["body"])):
                    best = a["body"]
    return best


# ----------------------------------------------------------------------------- C05
def _guard_stmt_index(crate, fn, subject_is_self=True, subject_local=None):
    """Index of the top-level statement `if !X.can_simplify { return X... }`."""
    body = peel(fn["body"])
    for i, st in enumerate(body.get("stmts", [])):
        e = st.get("e")
        if e is None:
            continue
        e = peel(e)
        if e.get("k") != "If":
            continue
        c = peel(e["cond"])
        if c.get("k") == "Unary" and c.get("op") == "Not":
            inner = peel_refs(c["e"])
            if inner.get("k") == "Field" and inner["name"] == "can_simplify" or (inner.get("k") == "MethodCall" and inner["name"] == "can_simplify"):
                base = inner.get("e") or inner.get("recv")
                lid = local_of(base)
                rets = [x for x in walk(e["then"]) if x.get("k") == "Ret" and x.get("e") is not None]
                if rets and lid is not None and all(lid in operand_prov(r["e"], {}, {lid: 1}) for r in rets):
                    return i, lid
    return None, None


def rule_prov_simplify(crate):
    out = RuleOut("PROV", "automatic simplification is never applied to a value whose unit the user chose (can_simplify guard dominates every rewriting step)")
    fs = crate.find_fn("quantity::Quantity::full_simplify")
    fr = crate.find_fn("quantity::Quantity::full_simplify_with_registry")
    for fn, label in ((fs, "full_simplify"), (fr, "full_simplify_with_registry")):
        f = crate.file_of(fn)
        idx, lid = _guard_stmt_index(crate, fn)
        body = peel(fn["body"])
        if idx is None:
            out.violation("%s:guard" % label, f, fn["line"], "no top-level `if !x.can_simplify { return x }` guard found")
            continue
        # everything before the guard may only be the call that produces the guarded value (full_simplify) — no rewriting
        bad = []
        for st in body["stmts"][:idx]:
            for n in walk(st):
                if n.get("k") in ("MethodCall", "Call"):
                    c = callee(n) or ""
                    if c.endswith(("Quantity::convert_to", "Quantity::new", "Quantity::new_f64")):
                        bad.append(n)
        pre_calls = [callee(n) or "" for st in body["stmts"][:idx] for n in walk(st) if n.get("k") in ("MethodCall", "Call")]
        self_id = param_ids(fn).get("self")
        if label == "full_simplify":
            subject_ok = lid == self_id and not pre_calls
        else:
            subject_ok = any(c.endswith("Quantity::full_simplify") for c in pre_calls) and lid != self_id
        if bad or not subject_ok:
            out.violation("%s:guard" % label, f, fn["line"], "rewriting (convert_to / Quantity::new) is reachable before the can_simplify guard, or the guard tests the wrong value")
        else:
            n_rewrites = sum(1 for st in body["stmts"][idx + 1:] + ([{"e": body["tail"]}] if body.get("tail") else []) for n in walk(st) if n.get("k") in ("MethodCall", "Call") and (callee(n) or "").endswith(("Quantity::convert_to", "Quantity::new")))
            out.ok("%s:guard" % label, f, fn["line"], "the can_simplify guard is the first effectful statement; %d rewriting calls follow it" % n_rewrites)
    # writers of the flag
    writers = []
    for d, b in crate.hir.items():
        for n in walk(b["body"]):
            if n.get("k") in ("Assign",):
                l = peel_refs(n["l"])
                if l.get("k") == "Field" and l["name"] == "can_simplify" and strip_generics(crate.ty(peel_refs(l["e"]))) == Q:
                    val = peel(n["r"])
                    writers.append((d, "assign", val.get("lit", {}).get("v") if val.get("k") == "Lit" else "?", n, b))
            if n.get("k") == "Struct" and n.get("adt") == Q:
                for name, e in n["fields"]:
                    if name == "can_simplify":
                        val = peel(e)
                        writers.append((d, "ctor", val.get("lit", {}).get("v") if val.get("k") == "Lit" else "?", n, b))
    for (d, kind, val, n, b) in writers:
        short = d.split("::")[-1]
        cf, cl = crate.loc(b, n)
        if b.get("expn") and b.get("impl_trait", "").endswith("clone::Clone"):
            out.ok("can_simplify:writer:derived-clone", cf, cl, "#[derive(Clone)] copies the flag")
        elif kind == "assign" and short == "no_simplify" and val is False:
            out.ok("can_simplify:writer:%s" % short, cf, cl, "no_simplify() clears the flag")
        elif kind == "ctor" and val is True and short in ("new", "new_f64"):
            out.ok("can_simplify:writer:%s" % short, cf, cl, "constructors start with can_simplify = true")
        else:
            out.violation("can_simplify:writer:%s" % short, cf, cl, "`can_simplify` is written (%s = %s) outside Quantity::new/new_f64/no_simplify" % (kind, val))
    # who may call the rewriting entry points
    cg = CallGraph(crate)
    allowed = {
        "full_simplify": {"full_simplify_with_registry"},
        "full_simplify_with_registry": {"simplify_quantity"},
        "simplify_quantity": {"run", "run_without_cleanup"},
    }
    for name, ok_callers in allowed.items():
        targets = [d for d in cg.find(name) if d.endswith("::" + name)]
        if not targets:
            out.error("call graph: %s not found" % name)
            continue
        for t in targets:
            for c in sorted(cg.callers(t)):
                short = c.split("::")[-1]
                b = crate.mir.get(c) or {}
                f = crate.files[b["file"]] if b else ""
                nested_in_allowed = any(("::%s::" % a) in c for a in ok_callers)  # `fn helper` declared inside an allowed caller
                if short in ok_callers or short == name or nested_in_allowed:
                    out.ok("who-may-call:%s<-%s" % (name, short), f, b.get("line", 0), "display path")
                else:
                    out.violation("who-may-call:%s<-%s" % (name, short), f, b.get("line", 0), "%s is called from %s, outside the display path result/print/interpolation → Vm::simplify_quantity" % (name, c))
    out.analysed = {"flag_writers": len(writers), "call_edges": cg.n_edges}
    out.floor("flag_writers", len(writers), 3)
    return out


# ----------------------------------------------------------------------------- C21
def rule_prov_assert(crate):
    out = RuleOut("PROV", "assert / assert_eq decide their documented predicate and a failure aborts the input")
    CF = "std::ops::ControlFlow"
    # ---- assert(c)
    fa = crate.find_fn("ffi::procedures::assert")
    f = crate.file_of(fa)
    ifs = [n for n in walk(fa["body"]) if n.get("k") == "If" and n.get("else") is not None]
    good = False
    for n in ifs:
        c = peel(n["cond"])
        if c.get("k") == "MethodCall" and c["name"] == "unsafe_as_bool":
            th = _tail(n["then"])
            el = _tail(n["else"])
            if _is(th, CF, "Continue") and _is(el, CF, "Break"):
                good = True
    if good:
        out.ok("assert:predicate", f, fa["line"], "Continue iff the argument is true, Break(AssertFailed) otherwise")
    else:
        out.violation("assert:predicate", f, fa["line"], "assert does not break exactly when its argument is false")
    # ---- assert_eq
    fe = crate.find_fn("ffi::procedures::assert_eq")
    f = crate.file_of(fe)
    inits = let_inits(fe)
    # arguments in pop order
    pops = []
    body = peel(fe["body"])
    for n in walk(fe["body"]):
        if n.get("k") == "Let" and n.get("init") is not None and n["pat"].get("k") == "Binding":
            i = peel(n["init"])
            if any(x.get("k") == "MethodCall" and x["name"] == "pop_front" for x in walk(i)):
                pops.append(n["pat"])
    if len(pops) < 3:
        out.error("assert_eq: expected three argument extractions (lhs, rhs, eps), found %d" % len(pops))
        return out
    lhs, rhs, eps = pops[0], pops[1], pops[2]
    ids = {lhs["id"]: "lhs", rhs["id"]: "rhs", eps["id"]: "eps"}
    convs = [n for n in walk(fe["body"]) if n.get("k") == "MethodCall" and (callee(n) or "").endswith("Quantity::convert_to")]
    two = [c for c in convs if not (operand_prov(c["args"][0], inits, ids) & {eps["id"]})]
    # 3-argument form: the comparison unit depends on eps (it is eps's unit unless eps is a polymorphic zero, which
    # must not determine the unit — then a unit of one of the compared values is used)
    three = [c for c in convs if eps["id"] in operand_prov(c["args"][0], inits, ids)]
    # 2-argument form: lhs converted to rhs' unit
    ok2 = len(two) == 1 and operand_prov(two[0]["recv"], inits, ids) == {lhs["id"]} and operand_prov(two[0]["args"][0], inits, ids) == {rhs["id"]}
    if ok2:
        out.ok("assert_eq/2:conversion", *crate.loc(fe, two[0]), detail="the first argument is converted to the unit of the second")
    else:
        out.violation("assert_eq/2:conversion", f, fe["line"], "assert_eq(a, b) does not convert a to b's unit before comparing")
    # equality comparison between converted lhs and rhs: inside the scope in which the successfully converted first
    # argument is bound (`if let Ok(converted) = …` / `match … { Ok(converted) => … }` / let-else) there must be a
    # `==` between that value and the second argument whose result is USED (bound, returned or part of the block's
    # value) — a `==` elsewhere (e.g. in the non-quantity branch) does not count, and neither does a decision taken
    # from the difference
    eq_ok = False
    why_eq = "no scope binding the result of `a.convert_to(b.unit())` found"
    if ok2:
        conv = two[0]
        scopes = []  # (binding ids, scope node)
        for n in walk(fe["body"]):
            k = n.get("k")
            if k == "If":
                c = peel(n["cond"])
                if c.get("k") == "Let" and any(x is conv for x in walk(c["init"])):
                    scopes.append(({q["id"] for q in walk(c["pat"]) if q.get("k") == "Binding"}, n["then"]))
            elif k == "Match" and any(x is conv for x in walk(n["scrut"])):
                for a in n["arms"]:
                    if any(p.get("variant") == "Ok" for p in walk(a["pat"])):
                        scopes.append(({q["id"] for q in walk(a["pat"]) if q.get("k") == "Binding"}, a["body"]))
            elif k == "Let" and n.get("init") is not None and any(x is conv for x in walk(n["init"])) and any(p.get("variant") == "Ok" for p in walk(n["pat"])):
                scopes.append(({q["id"] for q in walk(n["pat"]) if q.get("k") == "Binding"}, fe["body"]))
        for (conv_ids, scope) in scopes:
            ids2 = dict(ids)
            for ci in conv_ids:
                ids2[ci] = "converted"
            found = False
            for val in walk(scope):
                if val.get("k") == "Binary" and val.get("op") == "==":
                    lp = {ids2[i] for i in operand_prov(val["l"], inits, ids2)}
                    rp = {ids2[i] for i in operand_prov(val["r"], inits, ids2)}
                    if ("converted" in lp and "rhs" in rp) or ("converted" in rp and "rhs" in lp):
                        found = True
            if found:
                eq_ok = True
            else:
                why_eq = "where the converted first argument is available, success is not decided by `converted == b` (no such comparison): assert_eq(a, b) then no longer agrees with `a == b` (e.g. for infinities, whose difference is NaN)"
    if eq_ok:
        out.ok("assert_eq/2:equality", f, fe["line"], "success for quantities is decided by `converted == rhs`")
    else:
        out.violation("assert_eq/2:equality", f, fe["line"], "assert_eq/2: " + why_eq)
    # 3-argument form: a zero tolerance is polymorphic (`assert_eq(1 m, 1 m, 0)` type-checks) and carries the scalar
    # unit at run time: the comparison unit must not be taken from a zero eps
    zero_tests = [n for n in walk(fe["body"]) if n.get("k") == "MethodCall" and n["name"] == "is_zero" and operand_prov(n["recv"], inits, ids) == {eps["id"]}]
    only_eps = three and all(operand_prov(c["args"][0], inits, ids) == {eps["id"]} for c in three)
    if three and (zero_tests or not only_eps):
        out.ok("assert_eq/3:zero-tolerance", f, fe["line"], "a zero tolerance does not determine the comparison unit")
    elif three:
        out.violation("assert_eq/3:zero-tolerance", f, fe["line"], "assert_eq(a, b, eps) converts a and b into eps's unit unconditionally: with the polymorphic literal `0` as tolerance (`assert_eq(1 m, 1 m, 0)` type-checks) eps carries the scalar unit and the conversion fails at run time")
    # … and the fall-back unit must not come from a zero either: `assert_eq(1 m, 0, 0)` type-checks (both zeros are
    # polymorphic), so if the unit is taken from the second argument when eps is zero, the second argument has to be
    # tested for zero as well (falling back to the first), or a zero-aware selector (comparison_unit) has to choose
    if three and zero_tests:
        rhs_tests = [n for n in walk(fe["body"]) if n.get("k") == "MethodCall" and n["name"] == "is_zero" and operand_prov(n["recv"], inits, ids) == {rhs["id"]}]
        aware = any(n.get("k") == "MethodCall" and n["name"] == "comparison_unit" for n in walk(fe["body"]))
        unit_from_rhs = any(n.get("k") == "MethodCall" and n["name"] == "unit" and operand_prov(n["recv"], inits, ids) == {rhs["id"]} for n in walk(fe["body"]))
        if not unit_from_rhs or rhs_tests or aware:
            out.ok("assert_eq/3:zero-expected-value", f, fe["line"], "a zero second argument does not determine the comparison unit either")
        else:
            out.violation("assert_eq/3:zero-expected-value", f, fe["line"], "with a zero tolerance the comparison unit is taken from the second argument without testing it for zero: `assert_eq(3 m - 2 m, 0, 0)` type-checks and fails with a conversion error (unit 'm' can not be converted to '') instead of reporting the failed assertion")
    recvs = [operand_prov(c["recv"], inits, ids) for c in three]
    if len(three) == 2 and {frozenset(r) for r in recvs} == {frozenset({lhs["id"]}), frozenset({rhs["id"]})}:
        out.ok("assert_eq/3:conversion", *crate.loc(fe, three[0]), detail="both values are converted to the unit of eps")
    else:
        out.violation("assert_eq/3:conversion", f, fe["line"], "assert_eq(a, b, eps) does not convert both a and b to eps's unit")
    cmp_ok = False
    for n in walk(fe["body"]):
        if n.get("k") == "Binary" and n.get("op") in ("<=", ">=", "<", ">"):
            lp = {ids[i] for i in operand_prov(n["l"], inits, ids)}
            rp = {ids[i] for i in operand_prov(n["r"], inits, ids)}
            parent_if = None
            for x in walk(fe["body"]):
                if x.get("k") == "If" and peel(x["cond"]) is n:
                    parent_if = x
            if parent_if is None:
                continue
            th = _tail(parent_if["then"])
            el = _tail(parent_if["else"]) if parent_if.get("else") is not None else {}
            abs_used = any(x.get("k") == "MethodCall" and x["name"] == "abs" for x in walk(inits.get(local_of(n["l"]) if n["op"] in ("<=", "<") else local_of(n["r"]), {})))
            if n["op"] == "<=" and {"lhs", "rhs"} <= lp and rp == {"eps"} and _is(th, CF, "Continue") and _is(el, CF, "Break") and abs_used:
                cmp_ok = True
            if n["op"] == ">=" and {"lhs", "rhs"} <= rp and lp == {"eps"} and _is(th, CF, "Continue") and _is(el, CF, "Break") and abs_used:
                cmp_ok = True
    if cmp_ok:
        out.ok("assert_eq/3:predicate", f, fe["line"], "Continue iff |a - b| <= eps (absolute difference, inclusive bound)")
    else:
        out.violation("assert_eq/3:predicate", f, fe["line"], "assert_eq/3 does not succeed exactly when |a - b| <= eps")
    # ---- ABORT: Break from a procedure returns Err from the VM loop
    run = crate.find_fn("vm::Vm::run_without_cleanup")
    rf = crate.file_of(run)
    found = False
    for m in walk(run["body"]):
        if m.get("k") == "Match" and crate.ty(peel(m["scrut"])).startswith(CF) and "RuntimeErrorKind" in crate.ty(peel(m["scrut"])):
            found = True
            for a in m["arms"]:
                vs = pat_variants(a["pat"], CF)
                cf, cl = crate.loc(run, a["pat"])
                if vs == {"Break"} or vs is None:
                    rets = [x for x in walk(a["body"]) if x.get("k") == "Ret" and x.get("e") is not None and _is(x["e"], "std::result::Result", "Err")]
                    last = _last_effect(a["body"])
                    if rets and last is rets[-1] or (rets and _diverges_with(a["body"], rets)):
                        out.ok("vm:procedure:Break->Err", cf, cl, "a failing procedure makes the dispatch loop return Err immediately (no later statement runs)")
                    else:
                        out.violation("vm:procedure:Break->Err", cf, cl, "ControlFlow::Break from a procedure does not return Err from the VM loop on every path")
    if not found:
        out.error("anchor missing: match on the procedure's ControlFlow result in Vm::run_without_cleanup")
    out.analysed = {"convert_to_in_assert_eq": len(convs), "popped_args": len(pops)}
    out.floor("convert_to_in_assert_eq", len(convs), 3)
    return out


def _tail(e):
    e = peel(e)
    while e.get("k") == "Block" and e.get("tail") is not None:
        e = peel(e["tail"])
    return e


def _is(e, adt, variant):
    cv = ctor_variant(e)
    return bool(cv) and cv[0] == adt and cv[1] == variant


def _last_effect(body):
    b = peel(body)
    if b.get("k") == "Block":
        if b.get("tail") is not None:
            return peel(b["tail"])
        if b.get("stmts"):
            return peel(b["stmts"][-1].get("e") or {})
    return b


def _diverges_with(body, rets):
    b = peel(body)
    if b.get("k") == "Block":
        seq = [peel(s.get("e") or {}) for s in b.get("stmts", [])] + ([peel(b["tail"])] if b.get("tail") is not None else [])
        return bool(seq) and seq[-1] in rets
    return b in rets


# ----------------------------------------------------------------------------- C05: no re-labelling
def rule_prov_relabel(crate):
    """Inside the simplification functions a quantity may change its unit only through convert_to (or by
    multiplying the value with the conversion factor); `Quantity::new(<unchanged value>, <other unit>)` would
    keep the number and swap the label."""
    out = RuleOut("PROV", "simplification changes a unit only through a value-converting step")
    n = 0
    for fname in ("quantity::Quantity::full_simplify", "quantity::Quantity::full_simplify_with_registry"):
        fn = crate.find_fn(fname)
        f = crate.file_of(fn)
        short = fname.split("::")[-1]
        inits = let_inits(fn)
        idx = 0
        for c in walk(fn["body"]):
            is_ctor = c.get("k") == "Call" and (callee(c) or "").endswith(("Quantity::new", "Quantity::new_f64"))
            is_lit = c.get("k") == "Struct" and c.get("adt") == Q
            if not (is_ctor or is_lit):
                continue
            n += 1
            cf, cl = crate.loc(fn, c)
            key = "%s:Quantity::new#%d" % (short, idx)
            idx += 1
            val = c["args"][0] if is_ctor else next((e for nm, e in c["fields"] if nm == "value"), None)

            def scaled(e, depth=0):
                """does the value expression pass through a multiplication/division (a conversion factor)?"""
                for x in walk(e):
                    if x.get("k") == "Binary" and x.get("op") in ("*", "/"):
                        return True
                    if x.get("k") == "Path" and x["res"].get("r") == "local" and x["res"]["id"] in inits and depth < 4:
                        if scaled(inits[x["res"]["id"]], depth + 1):
                            return True
                return False

            takes_value = val is not None and any(x.get("k") == "Field" and x.get("name") == "value" for x in walk(val))
            if val is not None and takes_value and not scaled(val):
                out.violation(key, cf, cl, "%s builds a Quantity from the unchanged `.value` of another quantity with a new unit: the number is kept and only the unit label changes" % short)
            else:
                out.ok(key, cf, cl, "the value passes through a multiplication/division with the conversion factor")
        # every other unit change goes through convert_to
        convs = [x for x in walk(fn["body"]) if x.get("k") == "MethodCall" and (callee(x) or "").endswith("Quantity::convert_to")]
        out.ok("%s:convert_to-sites" % short, f, fn["line"], "%d unit changes go through Quantity::convert_to" % len(convs)) if convs else out.violation("%s:convert_to-sites" % short, f, fn["line"], "no convert_to call left in %s" % short)
    out.analysed = {"constructor_sites": n}
    out.floor("constructor_sites", n, 1)
    return out
