"""INTERN — the VM's de-duplicating tables identify entries by the whole value.

Vm::add_prefix (and its siblings that search an existing table before appending) hand out the index that the bytecode
refers to.  If the search compares a PROJECTION of the stored entry with the same projection of the new value
(`p.exponent() == prefix.exponent()`), two different values share one slot, and whichever was compiled first is what
every later use of the other evaluates to: Metric(30) (quetta) and Binary(30) (gibi) — after `1 QB`, `1 GiB -> B` is
1e30 B.  Accepted: equality of the whole entry with the whole argument, or of a destructured key component of the entry
with the (key) argument itself."""
from core import RuleOut
from hirlib import callee, local_of, peel, peel_refs, place_path, walk


def _strip(e):
    e = peel_refs(e)
    while e.get("k") == "Unary" and str(e.get("op")) == "Deref":
        e = peel_refs(e["e"])
    return e


def rule_intern(crate):
    out = RuleOut("INTERN", "de-duplicating tables of the VM compare whole values, not projections")
    n = 0
    for d, b in sorted(crate.hir.items()):
        if not d.startswith("crate::vm::Vm::add_") and not d.startswith("crate::vm::Vm::get_"):
            continue
        params = {p["id"] for p in b["params"] if p.get("k") == "Binding" and p.get("name") != "self"}
        inits = {}
        for s_ in walk(b["body"]):
            if s_.get("k") == "Let" and s_.get("init") is not None and s_["pat"].get("k") == "Binding":
                inits[s_["pat"]["id"]] = s_["init"]
        for x in walk(b["body"]):
            if x.get("k") != "MethodCall" or x["name"] not in ("position", "find", "any", "rposition") or not x.get("args"):
                continue
            cl = peel(x["args"][0])
            if cl.get("k") != "Closure":
                continue
            elem_ids = set()
            for p in cl.get("params", []) or []:
                for q in walk(p.get("pat", p)):
                    if q.get("k") == "Binding":
                        elem_ids.add(q["id"])
            whole_elem = any((p.get("pat", p)).get("k") == "Binding" for p in cl.get("params", []) or [])

            def classify(e):
                e = _strip(e)
                lid = local_of(e)
                if lid in elem_ids:
                    return "elem"
                if lid in params:
                    return "param"
                if lid in inits:
                    inner = _strip(inits[lid])
                    if inner.get("k") in ("MethodCall", "Field") and any(y.get("k") == "Path" and y["res"].get("id") in params for y in walk(inner)):
                        return "param-proj"
                    return classify(inits[lid])
                if e.get("k") in ("MethodCall", "Field"):
                    ids = {y["res"].get("id") for y in walk(e) if y.get("k") == "Path" and y["res"].get("r") == "local"}
                    if ids & elem_ids:
                        return "elem-proj"
                    if ids & params:
                        return "param-proj"
                return "other"

            for c in walk(cl["body"]):
                if c.get("k") == "Binary" and str(c.get("op")) == "==":
                    n += 1
                    kinds = {classify(c["l"]), classify(c["r"])}
                    cf, cline = crate.loc(b, c)
                    key = "%s:lookup" % d.replace("crate::vm::Vm::", "")
                    if kinds == {"elem", "param"} or kinds == {"elem-proj", "param"}:
                        # whole entry == whole argument, or the key component/field of the entry == the key argument
                        out.ok(key, cf, cline, "entries are compared as a whole, or by their key with the key argument")
                    elif kinds == {"elem-proj", "param-proj"} and whole_elem:
                        out.violation(key, cf, cline, "%s looks for an existing entry by comparing a projection of the entry with a projection of the new value: different values that agree on it share one table slot, and the bytecode of the second refers to the first (`1 QB` then `1 GiB -> B` gives 1.0e+30 B: Metric(30) and Binary(30) have the same exponent)" % d.replace("crate::", ""))
                    else:
                        out.advisory(key, cf, cline, "comparison of kinds %s not classified" % sorted(kinds))
    out.analysed = {"table_lookups": n}
    out.floor("table_lookups", n, 2)
    return out
