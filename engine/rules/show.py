"""Debug helper: print the HIR of a function as an indented outline."""
import sys, os
sys.path.insert(0, os.path.dirname(os.path.dirname(os.path.abspath(__file__))))
import facts

def outline(n, types, ind=0, out=None, maxd=40):
    pad = '  ' * ind
    if isinstance(n, list):
        for x in n: outline(x, types, ind, out, maxd)
        return
    if not isinstance(n, dict):
        print(pad + repr(n)); return
    k = n.get('k', '?')
    head = [k]
    for f in ('name', 'op', 'src', 'adt', 'variant', 'm', 'inst', 'mode', 'id', 'rest', 'unsafe'):
        if f in n: head.append('%s=%s' % (f, n[f]))
    if 'res' in n:
        r = n['res']; head.append('res=' + str({a: r[a] for a in r if a in ('r','name','id','path','inst','variant','dk')}))
    if 'lit' in n: head.append('lit=' + str(n['lit'].get('v')))
    if 't' in n: head.append(':: ' + types[n['t']][:70])
    if 'at' in n: head.append('~> ' + types[n['at']][:50])
    head.append('@%s' % (n.get('s'),))
    print(pad + ' '.join(str(h) for h in head))
    if ind > maxd: return
    for f, v in n.items():
        if f in ('k','name','op','src','adt','variant','m','inst','mode','id','rest','res','lit','t','at','s','unsafe'): continue
        if isinstance(v, (dict, list)):
            if f == 'fields':
                for nm, sub in v:
                    print(pad + '  .' + nm + ':'); outline(sub, types, ind + 2, out, maxd)
            elif f == 'arms':
                for a in v:
                    print(pad + '  arm:'); outline(a['pat'], types, ind + 2, out, maxd)
                    if 'guard' in a: print(pad + '   guard:'); outline(a['guard'], types, ind + 2, out, maxd)
                    print(pad + '   =>'); outline(a['body'], types, ind + 2, out, maxd)
            else:
                print(pad + '  ' + f + ':'); outline(v, types, ind + 2, out, maxd)

if __name__ == '__main__':
    crate = sys.argv[1]; pat = sys.argv[2]
    d = facts.load(crate)
    for b in d['hir']:
        if pat in b['def']:
            print('=====', b['def'], d['files'][b['file']], b['line'])
            outline(b['params'], d['types'], 1)
            outline(b['body'], d['types'], 1)
