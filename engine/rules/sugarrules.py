"""Two rules about the temperature sugar (`x °C` = from_celsius(x)), which the prefix transformer applies BY NAME.

SUGARSCOPE  every use of temperature_conversion_function(ident) in Transformer::transform_expression sits in a condition
            that also asks the transformer's own scope tables about the same identifier (a method call on `self` /
            `self.<field>` taking `ident`).  Without it a parameter or local called `celsius` is captured:
            `fn twice(celsius) = 2 * celsius` ignores its argument — a name that does not refer to its innermost binding.
NEGSUGAR    the transformer rewrites Negate(Mul(x, °C)) to from_celsius(-x) and parentheses are not in the tree, so the
            text `-(x °C)` always means from_celsius(-x).  The printer must therefore never produce it for
            Negate(from_celsius(x)): the Negate arm of the typed printer has to single out the functions the transformer
            produces (their names, or is_printed_in_sugar_form) instead of handing them to with_parens."""
from core import RuleOut
from errd import parent_map
from hirlib import callee, local_of, pat_variants, peel, peel_refs, place_path, strip_generics, walk

TYPED_E = "crate::typed_ast::Expression"
AST_E = "crate::ast::Expression"


def _str_lits(e):
    return {y["lit"]["v"] for y in walk(e) if y.get("k") == "Lit" and isinstance(y.get("lit"), dict) and y["lit"].get("lk") == "str"}


def rule_sugarscope(crate):
    out = RuleOut("SUGARSCOPE", "the by-name temperature sugar is applied only to names that are not variables of the current scope")
    fn = crate.find_fn("prefix_transformer::Transformer::transform_expression")
    f = crate.file_of(fn)
    pm = parent_map(fn["body"])
    n = 0
    for c in walk(fn["body"]):
        if c.get("k") != "Call" or not (callee(c) or "").endswith("temperature_conversion_function"):
            continue
        n += 1
        ident = local_of(c["args"][0]) if c.get("args") else None
        cur, cond = c, None
        while id(cur) in pm:
            p = pm[id(cur)]
            if p.get("k") == "If" and any(x is c for x in walk(p["cond"])):
                cond = p["cond"]
            cur = p
        cf, cl = crate.loc(fn, c)
        key = "transform_expression:sugar#%d" % (n - 1)
        if cond is None or ident is None:
            out.violation(key, cf, cl, "temperature_conversion_function is used outside of a condition: the rewrite is unconditional")
            continue
        scoped = False
        for x in walk(cond):
            if x.get("k") == "MethodCall":
                p = place_path(x["recv"])
                if p and p[1] == "self" and any(local_of(a) == ident for a in x.get("args", [])):
                    scoped = True
        if scoped:
            out.ok(key, cf, cl, "the rewrite also asks the transformer's scope tables about the identifier")
        else:
            out.violation(key, cf, cl, "`x * <ident>` is rewritten to a temperature conversion whenever <ident> is SPELLED °C / celsius / fahrenheit / …, without asking whether the name is a parameter or local variable of the current scope: `fn twice(celsius) = 2 * celsius` returns 275.15 K for every argument")
    out.analysed = {"sugar_sites": n}
    out.floor("sugar_sites", n, 2)
    return out


def rule_negsugar(crate):
    out = RuleOut("NEGSUGAR", "the printer never writes `-(x °C)` for the negation of a temperature conversion (the transformer reads that text as from_celsius(-x))")
    tf = crate.find_fn("prefix_transformer::Transformer::transform_expression")
    tcf = crate.find_fn("prefix_transformer::temperature_conversion_function")
    produced = sorted(_str_lits(tcf["body"]) & {s for s in _str_lits(tcf["body"]) if s.startswith("from_")})
    # does the transformer rewrite under a negation?
    neg_rewrite = False
    for m in walk(tf["body"]):
        if m.get("k") == "Match" and str(m.get("src")) == "Normal":
            for a in m["arms"]:
                vs = pat_variants(a["pat"], AST_E)
                if vs == {"UnaryOperator"} and any(x.get("k") == "Call" and (callee(x) or "").endswith("temperature_conversion_function") for x in walk(a["body"])):
                    neg_rewrite = True
    printers = [b for d, b in crate.hir.items() if d.endswith("::pretty_print") and strip_generics(b.get("impl_self") or "").endswith("typed_ast::Expression")]
    if not printers or not produced:
        out.error("anchor missing: typed Expression printer / names produced by temperature_conversion_function")
        return out
    pp = printers[0]
    f = crate.file_of(pp)
    if not neg_rewrite:
        out.ok("negate:no-rewrite", f, pp["line"], "the transformer does not rewrite negated temperature products; nothing to avoid")
        out.analysed = {"produced_functions": produced, "negate_arms": 0}
        return out
    n = 0
    # the code that prints a negation: the arm `UnaryOperator { op: Negate, .. }`, or the `Negate` arm of a match on
    # the operator inside a common `UnaryOperator { op, .. }` arm
    scopes = []
    for m in walk(pp["body"]):
        if m.get("k") != "Match" or str(m.get("src")) != "Normal":
            continue
        for a in m["arms"]:
            vs = pat_variants(a["pat"], TYPED_E)
            if vs != {"UnaryOperator"}:
                continue
            if any(p.get("variant") == "Negate" for p in walk(a["pat"])):
                scopes.append(a)
                continue
            for m2 in walk(a["body"]):
                if m2.get("k") == "Match" and str(m2.get("src")) == "Normal":
                    for a2 in m2["arms"]:
                        top = a2["pat"]
                        while top.get("k") in ("Ref", "Deref"):
                            top = top["pat"]
                        if top.get("variant") == "Negate" and str(top.get("adt", "")).endswith("UnaryOperator"):
                            scopes.append(a2)
    if True:
        for a in scopes:
            n += 1
            af, al = crate.loc(pp, a["pat"])
            tests = set()
            for x in walk(a["body"]):
                if x.get("k") in ("If", "Match"):
                    scope = [x["cond"]] if x.get("k") == "If" else [g["guard"] for g in x["arms"] if "guard" in g] + [g["pat"] for g in x["arms"]]
                    for s_ in scope:
                        tests |= _str_lits(s_)
                        if any(y.get("k") == "Call" and (callee(y) or "").endswith("is_printed_in_sugar_form") for y in walk(s_)):
                            tests |= set(produced)
            if "guard" in a:
                tests |= _str_lits(a["guard"])
            missing = [p for p in produced if p not in tests]
            if not missing:
                out.ok("negate:singles-out-sugar-calls", af, al, "the Negate arm tests for %s before printing the operand" % ", ".join(produced))
            else:
                out.violation("negate:singles-out-sugar-calls", af, al, "the Negate arm prints its operand through with_parens without singling out calls of %s: `-from_celsius(2)` (-275.15 K) is echoed as `-(2 °C)`, which the prefix transformer reads as from_celsius(-2) = 271.15 K" % ", ".join(missing))
    out.analysed = {"produced_functions": produced, "negate_arms": n}
    out.floor("negate_arms", n, 1)
    return out
