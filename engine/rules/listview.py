"""LISTVIEW — the window of a list view is adjusted together with the length of the backing deque.

Invariant kept by list.rs: when `view == Some((start, end))`, `end == alloc.len()`.  Every call that changes the
length of the deque obtained from `make_mut` must therefore be (a) in a branch where the view is known to be
`None`, or (b) in a branch where the view's `end` is bound and adjusted in the same block.  A length change in a
branch where the view *may* be `Some` (catch-all arm after a guarded `Some` arm, no test at all) loses or
exposes elements."""
from core import RuleOut
from hirlib import callee, local_of, peel, peel_refs, walk

LEN_CHANGING = {"push_front": +1, "push_back": +1, "pop_front": -1, "pop_back": -1, "insert": +1, "remove": -1, "swap_remove_front": -1, "swap_remove_back": -1, "truncate": 0, "clear": 0}


def _plain(q):
    while q.get("k") == "Ref":
        q = q["pat"]
    return q.get("k") in ("Binding", "Wild")


def _struct_fields(p):
    """[(field name, pattern)] of a struct pattern"""
    out = []
    for it in p.get("fields", []) or []:
        if isinstance(it, list) and len(it) == 2:
            out.append((it[0], it[1]))
        elif isinstance(it, dict) and "pat" in it:
            out.append((it.get("name"), it["pat"]))
    return out


def is_irrefutable_some(p):
    """Some(<view>) where <view> is a plain binding, a tuple of plain bindings or a struct pattern of plain bindings"""
    while p.get("k") in ("Ref",):
        p = p["pat"]
    if p.get("k") == "TupleStruct" and p.get("variant") == "Some" and p.get("adt") == "std::option::Option":
        inner = p["pats"][0] if p.get("pats") else {}
        while inner.get("k") in ("Ref",):
            inner = inner["pat"]
        if inner.get("k") in ("Binding", "Wild"):
            return True
        if inner.get("k") == "Tuple":
            return all(_plain(q) for q in inner["pats"])
        if inner.get("k") == "Struct" and not inner.get("variant_refutable"):
            return all(_plain(q) for (_n, q) in _struct_fields(inner))
    return False


def is_none_pat(p):
    return p.get("variant") == "None" and p.get("adt") == "std::option::Option"


END_SELECTOR = ["1"]  # which component of the view is its end: tuple index or field name (from NumbatList::len)


def end_binding(p):
    """binding id of the `end` component of Some(<view>) — second tuple component / the field that len() uses as
    the minuend"""
    sel = END_SELECTOR[0]
    while p.get("k") in ("Ref",):
        p = p["pat"]
    if p.get("k") == "TupleStruct" and p.get("pats"):
        inner = p["pats"][0]
        while inner.get("k") in ("Ref",):
            inner = inner["pat"]
        q = None
        if inner.get("k") == "Tuple" and sel.isdigit() and len(inner["pats"]) > int(sel):
            q = inner["pats"][int(sel)]
        elif inner.get("k") == "Struct":
            for (name, fp) in _struct_fields(inner):
                if str(name) == sel:
                    q = fp
        if q is not None:
            while q.get("k") == "Ref":
                q = q["pat"]
            if q.get("k") == "Binding":
                return q["id"]
    return None


def find_end_selector(crate, file_suffix):
    """In NumbatList::len the length of a view is `<view>.<end> - <view>.<start>`: the minuend names the end."""
    for d, b in crate.hir.items():
        if crate.file_of(b).endswith(file_suffix) and d.endswith("::len"):
            for n in walk(b["body"]):
                if n.get("k") == "Binary" and str(n.get("op")) in ("Sub", "-"):
                    l = peel_refs(n["l"])
                    r = peel_refs(n["r"])
                    if l.get("k") == "Field" and r.get("k") == "Field" and local_of(l["e"]) is not None and local_of(l["e"]) == local_of(r["e"]):
                        return str(l["name"])
                    # `let (start, end) = self.bounds(); end - start` with a helper that hands out the view (or the
                    # whole allocation) as a pair: the minuend's position in the pair names the end
                    li, ri = local_of(l), local_of(r)
                    if li is not None and ri is not None:
                        for st in walk(b["body"]):
                            if st.get("k") == "Let" and st.get("init") is not None and st["pat"].get("k") == "Tuple":
                                ids = [q.get("id") if q.get("k") == "Binding" else None for q in st["pat"]["pats"]]
                                if li in ids and ri in ids:
                                    init = peel(st["init"])
                                    if init.get("k") == "MethodCall":
                                        hb = crate.hir.get(callee(init) or "")
                                        if hb is not None and _hands_out_view(hb):
                                            return str(ids.index(li))
    return None


def _hands_out_view(fn):
    """a `&self` helper whose result is the view itself where there is one: `match self.view { Some(view) => view, None =>
    (0, self.alloc.len()) }` / `self.view.unwrap_or(..)` / `self.view.map_or(.., |view| view)`"""
    from hirlib import place_path

    for x in walk(fn["body"]):
        if x.get("k") == "Field" and x.get("name") == "view":
            p = place_path(x)
            if p and p[1] == "self":
                return True
    return False


def rule_listview(crate, file_suffix="numbat/src/list.rs"):
    out = RuleOut("LISTVIEW", "the view window is adjusted with every change of the backing deque's length")
    n_sites = 0
    n_dec = [0]
    sel = find_end_selector(crate, file_suffix)
    if sel is None:
        out.error("anchor missing: NumbatList::len does not compute `view.<end> - view.<start>`; cannot tell which component of the view is its end")
        return out
    END_SELECTOR[0] = sel
    for d, b in crate.hir.items():
        if not crate.file_of(b).endswith(file_suffix):
            continue
        # locals that hold the (view, deque) pair returned by make_mut
        view_ids, deque_ids = set(), set()
        for n in walk(b["body"]):
            if n.get("k") == "Let" and n.get("init") is not None and "src" in n:
                i = peel(n["init"])
                if i.get("k") == "MethodCall" and (callee(i) or "").endswith("NumbatList::make_mut") and n["pat"].get("k") == "Tuple":
                    ps = n["pat"]["pats"]
                    if len(ps) == 2 and ps[0].get("k") == "Binding" and ps[1].get("k") == "Binding":
                        view_ids.add(ps[0]["id"])
                        deque_ids.add(ps[1]["id"])
        # … and any other mutable handle on the storage (`if let Some(alloc) = Arc::get_mut(&mut self.alloc)`,
        # `let alloc = Arc::make_mut(..)`): every binding of type `&mut VecDeque<_>`
        for n in walk(b["body"]):
            if n.get("k") == "Binding" and n.get("id") not in deque_ids:
                t = crate.ty(n)
                if t.startswith("&mut std::collections::VecDeque<"):
                    deque_ids.add(n["id"])
        if not deque_ids:
            continue
        short = d.split("::")[-1]
        idx = 0

        def visit(node, status, end_id):
            """status: 'none' | 'some' | 'maybe'"""
            nonlocal idx, n_sites
            if isinstance(node, list):
                for x in node:
                    visit(x, status, end_id)
                return
            if not isinstance(node, dict):
                return
            k = node.get("k")
            if k == "Block":
                # statements in order: a let-else on the view or a diverging `if view.is_none() {..; return}`
                # fixes the status of the REST of the block
                cur_status, cur_end = status, end_id
                seq = list(node.get("stmts", [])) + ([node["tail"]] if node.get("tail") is not None else [])
                for st in seq:
                    inner = st.get("e") if st.get("k") in ("Semi", "Expr") and isinstance(st.get("e"), dict) else st
                    if st.get("k") == "Let" and st.get("els") is not None and st.get("init") is not None and local_of(st["init"]) in view_ids:
                        if is_irrefutable_some(st["pat"]):
                            visit(st["els"], "none", None)
                            cur_status, cur_end = "some", end_binding(st["pat"])
                        elif is_none_pat(st["pat"]):
                            visit(st["els"], "maybe", None)
                            cur_status, cur_end = "none", None
                        else:
                            visit(st["els"], "maybe", None)
                            cur_status, cur_end = "some", end_binding(st["pat"])
                        continue
                    visit(st, cur_status, cur_end)
                    if isinstance(inner, dict) and inner.get("k") == "If" and inner.get("else") is None:
                        c2 = peel(inner["cond"])
                        neg = False
                        while c2.get("k") == "Unary" and c2.get("op") == "Not":
                            neg = not neg
                            c2 = peel(c2["e"])
                        if c2.get("k") == "MethodCall" and c2["name"] in ("is_none", "is_some") and local_of(c2["recv"]) in view_ids and diverges(inner["then"]):
                            then_is_none = (c2["name"] == "is_none") != neg
                            cur_status, cur_end = ("some", None) if then_is_none else ("none", None)
                return
            if k == "If":
                c = peel(node["cond"])
                neg = False
                c3 = c
                while c3.get("k") == "Unary" and c3.get("op") == "Not":
                    neg = not neg
                    c3 = peel(c3["e"])
                if c3.get("k") == "MethodCall" and c3["name"] in ("is_none", "is_some") and local_of(c3["recv"]) in view_ids:
                    then_is_none = (c3["name"] == "is_none") != neg
                    visit(node["then"], "none" if then_is_none else "some", None)
                    if node.get("else") is not None:
                        visit(node["else"], "some" if then_is_none else "none", None)
                    return
                if c.get("k") == "Let" and local_of(c["init"]) in view_ids:
                    if is_irrefutable_some(c["pat"]):
                        visit(node["then"], "some", end_binding(c["pat"]))
                        if node.get("else") is not None:
                            visit(node["else"], "none", None)
                    elif is_none_pat(c["pat"]):
                        visit(node["then"], "none", None)
                        if node.get("else") is not None:
                            visit(node["else"], "maybe", None)
                    else:
                        visit(node["then"], "some", end_binding(c["pat"]))
                        if node.get("else") is not None:
                            visit(node["else"], "maybe", None)
                    return
                visit(node["cond"], status, end_id)
                visit(node["then"], status, end_id)
                if node.get("else") is not None:
                    visit(node["else"], status, end_id)
                return
            if k == "Match" and local_of(node["scrut"]) in view_ids:
                guarded_some = False
                for a in node["arms"]:
                    p = a["pat"]
                    if is_none_pat(p):
                        visit(a["body"], "none", None)
                    elif is_irrefutable_some(p) or (p.get("variant") == "Some"):
                        if "guard" in a or not is_irrefutable_some(p):
                            guarded_some = True
                        visit(a["body"], "some", end_binding(p))
                    else:
                        # catch-all: None only if every Some value was taken by an unguarded irrefutable arm
                        visit(a["body"], "maybe" if guarded_some else "none", None)
                return
            if k == "MethodCall" and node["name"] in LEN_CHANGING and local_of(node["recv"]) in deque_ids:
                n_sites += 1
                f, l = crate.loc(b, node)
                key = "%s:%s#%d" % (short, node["name"], idx)
                idx += 1
                if status == "none":
                    out.ok(key, f, l, "the view is None here (the handle owns the whole allocation)")
                elif status == "some":
                    # the enclosing block must adjust `*end`
                    blk = enclosing_block(b["body"], node)
                    adj = [x for x in walk(blk) if x.get("k") == "AssignOp" and local_of(x["l"]) == end_id] if end_id is not None else []
                    if adj:
                        out.ok(key, f, l, "the view's end is adjusted in the same block")
                    else:
                        out.violation(key, f, l, "%s changes the length of the backing deque while a view is active, but the view's `end` is not adjusted in the same block: the list loses (or exposes) an element" % node["name"])
                else:
                    out.violation(key, f, l, "%s changes the length of the backing deque in a branch where the view may still be `Some((start, end))` (catch-all after a guarded/refutable `Some` arm): `end` is not adjusted, so the list loses its last element" % node["name"])
            for kk, v in node.items():
                if kk in ("s", "t", "at", "res", "lit"):
                    continue
                if kk == "fields" and isinstance(v, list):
                    for it in v:
                        if isinstance(it, list) and len(it) == 2:
                            visit(it[1], status, end_id)
                    continue
                if isinstance(v, (dict, list)):
                    visit(v, status, end_id)

        visit(b["body"], "maybe", None)
        # ---- underflow: a view bound is decremented only under a comparison on that bound (`if *start == 0 {..} else
        # { *start -= 1 }`); an unguarded decrement of an unsigned start index panics (or wraps) for a view at index 0
        from errd import parent_map

        pm = parent_map(b["body"])
        bound_ids = set()
        for n in walk(b["body"]):
            if n.get("k") == "Let" and n.get("init") is not None and local_of(n["init"]) in view_ids:
                for q in walk(n["pat"]):
                    if q.get("k") == "Binding":
                        bound_ids.add(q["id"])
        for n in walk(b["body"]):
            if n.get("k") != "AssignOp" or str(n.get("op")) not in ("-=", "Sub", "-"):
                continue
            tgt = local_of(n["l"])
            if tgt not in bound_ids:
                continue
            f2, l2 = crate.loc(b, n)
            guarded = False
            cur = n
            while id(cur) in pm:
                p = pm[id(cur)]
                if p.get("k") == "If":
                    for c in walk(p["cond"]):
                        if c.get("k") == "Binary" and str(c.get("op")) in ("==", "!=", ">", ">=", "<", "<=") and (local_of(c["l"]) == tgt or local_of(c["r"]) == tgt):
                            guarded = True
                cur = p
            key = "%s:decrement:%s" % (short, [q for q in walk(b["body"]) if q.get("k") == "Binding" and q.get("id") == tgt][0].get("name", "?"))
            n_dec[0] += 1
            if guarded:
                out.ok(key, f2, l2, "the decrement of the view bound is under a comparison on that bound")
            else:
                out.violation(key, f2, l2, "a bound of the view window is decremented without any test of its value: for a view that starts at index 0 (`tail` of a temporary followed by more `cons` than `tail`) the unsigned index underflows — panic in checked builds, out-of-bounds index otherwise")
    out.analysed = {"length_changing_sites": n_sites, "guarded_decrements": n_dec[0]}
    out.floor("length_changing_sites", n_sites, 2)
    return out


def diverges(block):
    b = peel(block)
    if b.get("k") != "Block":
        return b.get("k") in ("Ret", "Continue", "Break")
    seq = list(b.get("stmts", [])) + ([b["tail"]] if b.get("tail") is not None else [])
    if not seq:
        return False
    last = seq[-1]
    e = last.get("e") if last.get("k") in ("Semi", "Expr") else last
    e = peel(e) if isinstance(e, dict) else {}
    return e.get("k") in ("Ret", "Continue", "Break")


def enclosing_block(root, node):
    best = root
    for blk in walk(root):
        if blk.get("k") == "Block" and any(x is node for x in walk(blk)):
            best = blk
    return best


# ---------------------------------------------------------------- VIEWREAD
END_ACCESS = {"pop_front", "pop_back", "front", "back", "front_mut", "back_mut", "first", "last"}
POS_ACCESS = {"get", "get_mut", "swap_remove_front", "swap_remove_back", "remove"}
ITER_ACCESS = {"iter", "iter_mut", "into_iter", "drain"}


def rule_viewread(crate, file_suffix="numbat/src/list.rs"):
    """Every read of an element of the shared deque goes through the view window: positional accesses take an
    index derived from `self.view`, iteration is `.skip(start).take(end - start)` with both derived from the view,
    and end-relative accesses (pop_front, front, back, …), which ignore the window, do not occur on the shared
    storage.  (Writes through make_mut are LISTVIEW's.)  Necessary for `head(tail(xs))` & co. to see the same
    elements whether or not the storage is shared."""
    from hirlib import callee, place_path

    out = RuleOut("VIEWREAD", "element reads of the shared deque are offset by the view window")
    n_sites = 0
    for d, b in crate.hir.items():
        if not crate.file_of(b).endswith(file_suffix):
            continue
        if "::tests::" in d or b.get("impl_self") is None or "NumbatList" not in (b.get("impl_self") or ""):
            continue
        self_ids = {p["id"] for p in b["params"] if p.get("k") == "Binding" and p.get("name") == "self"}
        if not self_ids:
            continue
        short = d.split("::")[-1]

        def is_alloc(e):
            p = place_path(e)
            return bool(p and p[0] in self_ids and p[2][:1] == ["alloc"])

        def is_view(e):
            p = place_path(e)
            return bool(p and p[0] in self_ids and p[2][:1] == ["view"])

        # locals derived from the view / holding the deque
        view_locals, deque_locals = set(), set()
        changed = True
        lets = [n for n in walk(b["body"]) if n.get("k") == "Let" and n.get("init") is not None]
        matches = [n for n in walk(b["body"]) if n.get("k") == "Match"]

        def mentions_view(e):
            for x in walk(e):
                if x.get("k") == "Field" and is_view(x):
                    return True
                if x.get("k") == "MethodCall" and local_of(x["recv"]) in self_ids:
                    hb = crate.hir.get(callee(x) or "")
                    if hb is not None and crate.file_of(hb).endswith(file_suffix) and not hb["def"].endswith("::make_mut") and _hands_out_view(hb) and (hb.get("param_tys") or ["&mut"])[0].startswith("&") and not (hb.get("param_tys") or ["&mut"])[0].startswith("&mut"):
                        return True  # `self.bounds()`: a read-only helper that hands out the view window
                if x.get("k") == "Path" and x["res"].get("r") == "local" and x["res"]["id"] in view_locals:
                    return True
            return False

        while changed:
            changed = False
            for n in lets:
                if mentions_view(n["init"]):
                    for q in walk(n["pat"]):
                        if q.get("k") == "Binding" and q["id"] not in view_locals:
                            view_locals.add(q["id"])
                            changed = True
            for m in matches:
                if mentions_view(m["scrut"]):
                    for a in m["arms"]:
                        for q in walk(a["pat"]):
                            if q.get("k") == "Binding" and q["id"] not in view_locals:
                                view_locals.add(q["id"])
                                changed = True
        # closures `|(start, _end)| start` passed to self.view.map_or(..) are covered by mentions_view on the let init
        for m in matches:
            sc = peel(m["scrut"])
            if sc.get("k") == "Call" and (callee(sc) or "").endswith("Arc::try_unwrap") and sc["args"] and is_alloc(sc["args"][0]):
                for a in m["arms"]:
                    for q in walk(a["pat"]):
                        if q.get("k") == "Binding":
                            deque_locals.add(q["id"])

        def is_deque(e):
            e2 = peel_refs(e)
            if is_alloc(e2):
                return True
            lid = local_of(e2)
            return lid is not None and lid in deque_locals

        idx = 0
        for n in walk(b["body"]):
            k = n.get("k")
            if k == "MethodCall" and is_deque(n["recv"]):
                name = n["name"]
                f, l = crate.loc(b, n)
                key = "%s:%s#%d" % (short, name, idx)
                if name in END_ACCESS:
                    n_sites += 1
                    idx += 1
                    out.violation(key, f, l, "`%s()` reads an end of the shared deque and ignores the view window: a list that was `tail`ed returns an element that is no longer part of it (and the result depends on whether the storage is shared)" % name)
                elif name in POS_ACCESS:
                    n_sites += 1
                    idx += 1
                    if n["args"] and mentions_view(n["args"][0]):
                        out.ok(key, f, l, "index derived from the view start")
                    else:
                        out.violation(key, f, l, "`%s(..)` reads the shared deque at an index that is not derived from the view: the window offset is ignored" % name)
                elif name in ITER_ACCESS:
                    n_sites += 1
                    idx += 1
                    # enclosing skip/take chain
                    skips = [x for x in walk(b["body"]) if x.get("k") == "MethodCall" and x["name"] == "skip" and any(y is n for y in walk(x["recv"]))]
                    takes = [x for x in walk(b["body"]) if x.get("k") == "MethodCall" and x["name"] == "take" and any(y is n for y in walk(x["recv"]))]
                    if skips and takes and mentions_view(skips[0]["args"][0]) and mentions_view(takes[0]["args"][0]):
                        out.ok(key, f, l, "iteration is windowed by .skip(start).take(end - start) derived from the view")
                    else:
                        out.violation(key, f, l, "iteration over the shared deque is not restricted to the view window by skip/take derived from `self.view`")
            elif k == "Index" and is_deque(n["e"]):
                n_sites += 1
                f, l = crate.loc(b, n)
                key = "%s:index#%d" % (short, idx)
                idx += 1
                if mentions_view(n["idx"]):
                    out.ok(key, f, l, "index derived from the view")
                else:
                    out.violation(key, f, l, "the shared deque is indexed without the view offset")
    out.analysed = {"read_sites": n_sites}
    out.floor("read_sites", n_sites, 3)
    return out


def rule_listeq(crate, file_suffix="numbat/src/list.rs"):
    """LISTEQ — list equality is decided by the elements only.  A short-cut on the identity of the shared storage
    (`Arc::ptr_eq`) makes `==` observe sharing as soon as element equality is not reflexive (NaN): `let a = [NaN];
    let b = a; a == b` is true while `[NaN] == [NaN]` is false."""
    from hirlib import callee

    out = RuleOut("LISTEQ", "list equality does not depend on whether two lists share their storage")
    fns = [b for d, b in crate.hir.items() if crate.file_of(b).endswith(file_suffix) and d.endswith("::eq") and "NumbatList" in (b.get("impl_self") or "")]
    if not fns:
        out.error("anchor missing: <NumbatList as PartialEq>::eq")
        return out
    fn = fns[0]
    f = crate.file_of(fn)
    ids = [n for n in walk(fn["body"]) if n.get("k") == "Call" and (callee(n) or "").endswith("ptr_eq")]
    elementwise = [n for n in walk(fn["body"]) if n.get("k") == "MethodCall" and n["name"] in ("all", "eq", "zip")]
    if ids:
        ff, ll = crate.loc(fn, ids[0])
        out.violation("eq:identity-shortcut", ff, ll, "NumbatList::eq answers `true` from the identity of the shared allocation (Arc::ptr_eq) without comparing elements: for elements whose equality is not reflexive (NaN) the result of `==` depends on whether the two lists share storage, which immutable values must not reveal")
    else:
        out.ok("eq:identity-shortcut", f, fn["line"], "no storage-identity short-cut")
    if elementwise:
        out.ok("eq:elementwise", f, fn["line"], "elements are compared pairwise")
    else:
        out.violation("eq:elementwise", f, fn["line"], "NumbatList::eq does not compare the elements pairwise")
    out.analysed = {"identity_tests": len(ids)}
    return out
