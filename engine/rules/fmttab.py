"""FMTTAB — the date-time strings written in the standard library are accepted by the format table of
datetime::parse_datetime  (writer's table vs. reader's table).

Reader side (Rust, from the HIR facts): every `…::strptime(format, input)` call of parse_datetime with the SET of
format strings its first argument can evaluate to (string literals, elements of a const array iterated by a `for`
loop — also through tuple patterns —, and `format!` templates over those, decoded from the lowered
`fmt::Arguments::new(template, args)` form), whether the parsed type needs an offset (Zoned) and whether the input is
the whole string or the part before the last space (time-zone-name path).

Writer side (.nbt, from nbtlint tokens): every `datetime("<literal>")` call in a module body or an @example snippet,
plus `datetime("{…} …")` templates whose interpolations are a zero-argument function defined as
`format_datetime("<fmt>", …)` (rendered for a sample instant) or a parameter for which an @example supplies a literal.

A string is OK when the strptime model (a regular-expression translation of the directives used in the table)
accepts it at some site; strings in ISO 8601 `T` form / RFC 2822 form are left to jiff's own parsers (advisory, not
decided); anything else that no site accepts is a violation: an example or library function that can only fail.
Unknown directives or unrecognised argument shapes make the affected site 'opaque' (then nothing is reported against
it) — the rule fails open, never on a shape it does not understand."""
import itertools
import re

from core import RuleOut
from hirlib import peel, peel_refs, walk

# ------------------------------------------------------------------ strptime model
NUM2 = r"\d{1,2}"
DIRECTIVES = {
    "Y": (r"[+-]?\d{1,4}", None),
    "m": (NUM2, (1, 12)),
    "d": (NUM2, (1, 31)),
    "e": (r"\s?\d{1,2}", (1, 31)),
    "H": (NUM2, (0, 23)),
    "I": (NUM2, (1, 12)),
    "M": (NUM2, (0, 59)),
    "S": (NUM2, (0, 60)),
    "y": (r"\d{2}", None),
    "j": (r"\d{1,3}", (1, 366)),
    "p": (r"(?i:am|pm)", None),
    "P": (r"(?i:am|pm)", None),
    "f": (r"\d{1,9}", None),
    ".f": (r"(?:\.\d{1,9})?", None),
    "z": (r"[+-]\d{2}:?\d{2}(?::?\d{2})?", None),
    ":z": (r"[+-]\d{2}:?\d{2}(?::?\d{2})?", None),
    "Q": (r"\S+", None),
    ":Q": (r"\S+", None),
    "A": (r"(?i:monday|tuesday|wednesday|thursday|friday|saturday|sunday|mon|tue|wed|thu|fri|sat|sun)", None),
    "a": (r"(?i:monday|tuesday|wednesday|thursday|friday|saturday|sunday|mon|tue|wed|thu|fri|sat|sun)", None),
    "B": (r"(?i:january|february|march|april|may|june|july|august|september|october|november|december|jan|feb|mar|apr|jun|jul|aug|sep|oct|nov|dec)", None),
    "b": (r"(?i:january|february|march|april|may|june|july|august|september|october|november|december|jan|feb|mar|apr|jun|jul|aug|sep|oct|nov|dec)", None),
    "h": (r"(?i:jan|feb|mar|apr|may|jun|jul|aug|sep|oct|nov|dec)", None),
    "s": (r"[+-]?\d+", None),
}
COMPOSITE = {"T": "%H:%M:%S", "F": "%Y-%m-%d", "D": "%m/%d/%y", "R": "%H:%M"}
OFFSET_DIRECTIVES = {"z", ":z", "::z", "Q", ":Q"}


class Fmt:
    """compiled strptime format: regex + range checks; opaque when a directive is not modelled"""

    def __init__(self, fmt):
        self.fmt = fmt
        self.opaque = False
        self.has_offset = False
        self.checks = []  # (group index, lo, hi)
        rx = []
        i = 0
        g = 0
        s = fmt
        # expand composites first
        for k, v in COMPOSITE.items():
            s = s.replace("%" + k, v)
        while i < len(s):
            c = s[i]
            if c == "%":
                j = i + 1
                # flags / width are not used by the table; a leading '.', ':' belongs to the directive name
                name = ""
                while j < len(s) and s[j] in ".:":
                    name += s[j]
                    j += 1
                if j < len(s):
                    name += s[j]
                    j += 1
                if name == "%":
                    rx.append("%")
                elif name in ("n", "t"):
                    rx.append(r"\s*")
                elif name in DIRECTIVES:
                    pat, rng = DIRECTIVES[name]
                    g += 1
                    rx.append("(" + pat + ")")
                    if rng:
                        self.checks.append((g, rng[0], rng[1]))
                    if name in OFFSET_DIRECTIVES:
                        self.has_offset = True
                else:
                    self.opaque = True
                    rx.append(".*")
                i = j
            elif c.isspace():
                rx.append(r"\s*")
                i += 1
            else:
                rx.append(re.escape(c))
                i += 1
        self.rx = re.compile("^" + "".join(rx) + "$", re.S)

    def accepts(self, text):
        m = self.rx.match(text)
        if not m:
            return False
        for (g, lo, hi) in self.checks:
            try:
                v = int(m.group(g).strip())
            except ValueError:
                return False
            if not (lo <= v <= hi):
                return False
        return True


TZNAME = re.compile(r"^[A-Za-z][A-Za-z0-9_+\-/]*$")
ISO_T = re.compile(r"^[+-]?\d{4,6}-?\d{2}-?\d{2}[Tt ]?.*(\[|[Tt]\d{2})")
RFC2822 = re.compile(r"^\s*([A-Za-z]{3},\s*)?\d{1,2}\s+[A-Za-z]{3}\s+\d{2,4}\s")


# ------------------------------------------------------------------ reader side
def decode_template(hexs):
    """lowered format_args template -> list of ('lit', text) | ('arg', index)"""
    b = bytes.fromhex(hexs)
    out = []
    i = 0
    nxt = 0
    while i < len(b):
        n = b[i]
        i += 1
        if n == 0:
            break
        if n < 0x80:
            out.append(("lit", b[i : i + n].decode("utf-8")))
            i += n
        elif n == 0x80:
            ln = int.from_bytes(b[i : i + 2], "little")
            i += 2
            out.append(("lit", b[i : i + ln].decode("utf-8")))
            i += ln
        else:
            if n != 0xC0 and (n & 0b110111):
                return None  # flags / width / precision: formatting options are not modelled
            idx = nxt
            if n & 8:
                idx = int.from_bytes(b[i : i + 2], "little")
                i += 2
            out.append(("arg", idx))
            nxt = idx + 1
    return out


class Reader:
    """Abstract evaluation of parse_datetime and of the crate-local helpers it hands the input to: for every
    strptime call the set of format strings and the kind of input (whole string / part before the last space)."""

    def __init__(self, crate, fn_suffix="datetime::parse_datetime"):
        self.crate = crate
        self.fn = crate.find_fn(fn_suffix)
        self.table_rows = 0
        self.sites = []
        self.opaque_acceptors = []
        self.opaque_calls = []  # crate-local / unknown calls that receive the input and could not be analysed
        self.functions = []
        whole = {p["id"] for p in self.fn["params"] if p.get("k") == "Binding"}
        self._analyse(self.fn, {}, whole, set(), 0)

    def _analyse(self, fn, env, whole_ids, rest_ids, depth):
        self.functions.append(fn.get("def") or fn.get("name"))
        saved = (getattr(self, "env", None), getattr(self, "param_ids", None), getattr(self, "rest_ids", None), getattr(self, "cur", None))
        self.env = dict(env)
        self.param_ids = set(whole_ids)
        self.rest_ids = set(rest_ids)
        self.cur = fn
        self._bind_loops()
        self._bind_rsplit()
        for n in walk(fn["body"]):
            if n.get("k") not in ("Call", "MethodCall"):
                continue
            if n.get("k") == "Call":
                p = (n["f"].get("res") or {}) if n["f"].get("k") == "Path" else {}
                path = p.get("inst") or p.get("path") or ""
                args = n["args"]
            else:
                path = n.get("inst") or n.get("m") or ""
                args = [n["recv"]] + list(n["args"])
            if path.endswith("::strptime") and len(args) == 2:
                kind = "Zoned" if "Zoned" in path else "DateTime"
                fmts = self.strset(args[0])
                inp = self.input_kind(args[1])
                self.sites.append({"kind": kind, "formats": fmts, "input": inp, "line": n["s"][0], "fn": fn.get("name")})
            elif path.endswith("from_str") or path.endswith("rfc2822::parse"):
                self.opaque_acceptors.append((path, n["s"][0]))
            elif path.startswith("crate::") and any(self.input_kind(a) != "unknown" for a in args):
                callee_fn = self.crate.hir.get(path)
                if callee_fn is None or depth >= 3 or len(callee_fn["params"]) != len(args) or callee_fn is fn:
                    self.opaque_calls.append((path, n["s"][0]))
                    continue
                env2, whole2, rest2 = {}, set(), set()
                for prm, a in zip(callee_fn["params"], args):
                    if prm.get("k") != "Binding":
                        continue
                    kind = self.input_kind(a)
                    if kind == "whole":
                        whole2.add(prm["id"])
                    elif kind == "rest":
                        rest2.add(prm["id"])
                    else:
                        ss = self.strset(a)
                        if ss is not None:
                            env2[prm["id"]] = ss
                keep = (self.env, self.param_ids, self.rest_ids, self.cur)
                self._analyse(callee_fn, env2, whole2, rest2, depth + 1)
                self.env, self.param_ids, self.rest_ids, self.cur = keep
        if saved[0] is not None:
            self.env, self.param_ids, self.rest_ids, self.cur = saved

    def const_rows(self, e):
        e = peel_refs(e)
        while e.get("k") == "MethodCall" and e["name"] in ("iter", "into_iter", "copied", "cloned") and not e["args"]:
            e = peel_refs(e["recv"])
        if e.get("k") == "Path" and e["res"].get("r") == "def" and e["res"].get("path") in self.crate.hir:
            e = peel_refs(self.crate.hir[e["res"]["path"]]["body"])  # a const or static table
        if e.get("k") != "Array":
            return None
        rows = []
        for el in e["elems"]:
            el = peel_refs(el)
            if el.get("k") == "Lit" and el["lit"].get("lk") == "str":
                rows.append((el["lit"]["v"],))
            elif el.get("k") == "Tup" and all(peel_refs(x).get("k") == "Lit" and peel_refs(x)["lit"].get("lk") == "str" for x in el["elems"]):
                rows.append(tuple(peel_refs(x)["lit"]["v"] for x in el["elems"]))
            else:
                return None
        return rows

    def _bind_loops(self):
        for m in walk(self.cur["body"]):
            if m.get("k") != "Match" or str(m.get("src")) != "ForLoopDesugar":
                continue
            sc = peel(m["scrut"])
            if sc.get("k") != "Call" or not sc["args"]:
                continue
            fpath = (sc["f"].get("res") or {}).get("path", "") if sc["f"].get("k") == "Path" else ""
            if not fpath.endswith("into_iter"):
                continue
            rows = self.const_rows(sc["args"][0])
            if rows is None:
                continue
            self.table_rows += len(rows)
            # the inner `match next(&mut iter) { Some(pat) => … }`
            for inner in walk(m["arms"][0]["body"]):
                if inner.get("k") == "Match" and str(inner.get("src")) == "ForLoopDesugar" and inner is not m:
                    for a in inner["arms"]:
                        p = a["pat"]
                        if p.get("variant") != "Some":
                            continue
                        sub = None
                        if p.get("k") == "Struct" and p.get("fields"):
                            sub = p["fields"][0][1] if isinstance(p["fields"][0], list) else p["fields"][0].get("pat")
                        elif p.get("k") == "TupleStruct" and p.get("pats"):
                            sub = p["pats"][0]
                        if sub is None:
                            continue
                        while sub.get("k") in ("Ref", "Deref"):  # `for &format in TABLE`
                            sub = sub["pat"]
                        if sub.get("k") == "Binding":
                            if all(len(r) == 1 for r in rows):
                                self.env[sub["id"]] = {r[0] for r in rows}
                        elif sub.get("k") == "Tuple":
                            for k, q in enumerate(sub["pats"]):
                                if q.get("k") == "Binding" and all(len(r) > k for r in rows):
                                    self.env[q["id"]] = {r[k] for r in rows}
                    break

    def _bind_rsplit(self):
        for n in walk(self.cur["body"]):
            if n.get("k") == "Let" and n.get("init") is not None:
                i = peel(n["init"])
                if i.get("k") == "MethodCall" and i["name"] in ("rsplit_once",):
                    for p in walk(n["pat"]):
                        if p.get("k") == "Tuple" and p.get("pats") and p["pats"][0].get("k") == "Binding":
                            self.rest_ids.add(p["pats"][0]["id"])

    def input_kind(self, e):
        e = peel_refs(e)
        if e.get("k") == "Path" and e["res"].get("r") == "local":
            if e["res"]["id"] in self.param_ids:
                return "whole"
            if e["res"]["id"] in self.rest_ids:
                return "rest"
        return "unknown"

    def strset(self, e):
        e = peel_refs(e)
        k = e.get("k")
        if k == "Lit" and e["lit"].get("lk") == "str":
            return {e["lit"]["v"]}
        if k == "Path" and e["res"].get("r") == "local":
            return self.env.get(e["res"]["id"])
        if k == "Field":
            return None
        if k in ("Call", "MethodCall", "Block"):
            # a lowered format!(): fmt::format(Arguments::new(template, &args))
            tmpl = None
            arg_tuple = None
            for x in walk(e):
                if x.get("k") == "Call" and x["f"].get("k") == "Path" and (x["f"]["res"].get("path") or "").endswith("fmt::Arguments::new"):
                    a0 = peel_refs(x["args"][0])
                    if a0.get("k") == "Lit" and a0["lit"].get("lk") == "bytestr" and "v" in a0["lit"]:
                        tmpl = decode_template(a0["lit"]["v"])
                if x.get("k") == "Let" and x.get("init") is not None and peel(x["init"]).get("k") == "Tup" and arg_tuple is None:
                    arg_tuple = peel(x["init"])["elems"]
            if tmpl is None or arg_tuple is None:
                return None
            parts = []
            for (kind, v) in tmpl:
                if kind == "lit":
                    parts.append({v})
                else:
                    if v >= len(arg_tuple):
                        return None
                    s = self.strset(arg_tuple[v])
                    if s is None:
                        return None
                    parts.append(s)
            return {"".join(c) for c in itertools.product(*parts)}
        return None


# ------------------------------------------------------------------ writer side
SAMPLE = {"Y": "2022", "m": "07", "d": "20", "H": "21", "M": "52", "S": "07", "F": "2022-07-20", "T": "21:52:07"}


def render_sample(fmt):
    out = []
    i = 0
    while i < len(fmt):
        if fmt[i] == "%" and i + 1 < len(fmt):
            d = fmt[i + 1]
            if d == "%":
                out.append("%")
            elif d in SAMPLE:
                out.append(SAMPLE[d])
            else:
                return None
            i += 2
        else:
            out.append(fmt[i])
            i += 1
    return "".join(out)


def _calls(toks, fname):
    """(index of the ident token, list of argument tokens) for `fname ( … )` with balanced parentheses"""
    for i, t in enumerate(toks):
        if t.kind == "ident" and t.text == fname and i + 1 < len(toks) and toks[i + 1].kind == "(":
            depth = 0
            j = i + 1
            while j < len(toks):
                if toks[j].kind in ("(", "[", "{", "str_open"):
                    depth += 1
                elif toks[j].kind in (")", "]", "}", "str_close"):
                    depth -= 1
                    if depth == 0:
                        break
                j += 1
            yield i, toks[i + 2 : j]


def collect_strings(lib):
    """[(text, module, line, origin)] — literal date-time strings handed to datetime()."""
    from nbtlint.front import Module, TokErr, split_statements

    found = []
    skipped = []
    # zero-argument functions defined as format_datetime("<fmt>", …)
    renderers = {}
    example_args = {}  # fn name -> literal first arguments seen in @example snippets
    example_mods = []
    for mn, m in sorted(lib.modules.items()):
        for st in split_statements(m.toks):
            ts = [t for t in st if t.kind != "nl"]
            for i, t in enumerate(ts):
                if t.kind == "kw" and t.text == "fn" and i + 6 < len(ts) and ts[i + 2].kind == "(" and ts[i + 3].kind == ")":
                    rest = ts[i + 4 :]
                    if rest and rest[0].text == "=" and len(rest) > 3 and rest[1].text == "format_datetime" and rest[3].kind == "str":
                        r = render_sample(rest[3].value)
                        if r is not None:
                            renderers[ts[i + 1].text] = r
        for d in m.defs:
            for (code, _desc, line) in d.examples:
                try:
                    em = Module("<example>", "<example>", code)
                except TokErr:
                    continue
                example_mods.append((mn, line, em, d.name))
    for (mn, line, em, _dn) in example_mods:
        for i, t in enumerate(em.toks):
            if t.kind == "ident" and i + 3 < len(em.toks) and em.toks[i + 1].kind == "(" and em.toks[i + 2].kind == "str" and em.toks[i + 3].kind == ")":
                example_args.setdefault(t.text, set()).add(em.toks[i + 2].value)

    def scan(toks, mn, line_of, origin, enclosing_params=None, enclosing_fn=None):
        for (i, args) in _calls(toks, "datetime"):
            args = [a for a in args if a.kind != "nl"]
            ln = line_of(toks[i])
            if len(args) == 1 and args[0].kind == "str":
                found.append((args[0].value, mn, ln, origin))
            elif args and args[0].kind == "str_open" and args[-1].kind == "str_close":
                # template: pieces and interpolations
                alts = [[args[0].value]]
                k = 1
                ok = True
                while k < len(args):
                    expr = []
                    while k < len(args) and args[k].kind not in ("str_mid", "str_close"):
                        expr.append(args[k])
                        k += 1
                    expr = [x for x in expr if x.kind != "fmt"]
                    if len(expr) == 3 and expr[0].kind == "ident" and expr[1].kind == "(" and expr[2].kind == ")" and expr[0].text in renderers:
                        alts.append([renderers[expr[0].text]])
                    elif len(expr) == 1 and expr[0].kind == "ident" and enclosing_params and expr[0].text in enclosing_params and example_args.get(enclosing_fn):
                        alts.append(sorted(example_args[enclosing_fn]))
                    else:
                        ok = False
                    if k < len(args):
                        alts.append([args[k].value])
                        k += 1
                if ok:
                    for combo in itertools.product(*alts):
                        found.append(("".join(combo), mn, ln, origin + " (template)"))
                else:
                    skipped.append((mn, ln, "template with an interpolation that is neither a format_datetime renderer nor a parameter with an example"))
            else:
                skipped.append((mn, ln, "non-literal argument"))

    for mn, m in sorted(lib.modules.items()):
        for st in split_statements(m.toks):
            ts = [t for t in st if t.kind != "nl"]
            # enclosing fn + its parameter names (decorator arguments are scanned through the examples below)
            fn_name, params = None, set()
            body_start = 0
            for i, t in enumerate(ts):
                if t.kind == "kw" and t.text == "fn" and i + 2 < len(ts):
                    fn_name = ts[i + 1].text
                    j = i + 2
                    while j < len(ts) and ts[j].kind != "(":
                        j += 1
                    depth = 0
                    while j < len(ts):
                        if ts[j].kind == "(":
                            depth += 1
                        elif ts[j].kind == ")":
                            depth -= 1
                            if depth == 0:
                                break
                        elif ts[j].kind == "ident" and j + 1 < len(ts) and ts[j + 1].text in (":", ",", ")") and depth == 1:
                            params.add(ts[j].text)
                        j += 1
                    body_start = j
                    break
                if t.kind == "kw" and t.text in ("let", "unit"):
                    body_start = i
                    break
            scan(ts[body_start:], mn, lambda t: t.line, "body of `%s`" % (fn_name or "?"), params, fn_name)
    for (mn, line, em, dn) in example_mods:
        scan([t for t in em.toks if t.kind != "nl"], mn, lambda t, line=line: line, "@example of `%s`" % dn)
    return found, skipped, renderers


# ------------------------------------------------------------------ the rule
def doc_examples(repo):
    """[(example text, line)] — the example strings of the `datetime` and `time` format tables of the user manual
    (book/src/basics/date-and-time.md).  `time("…")` is `datetime("<today> …")`, so its examples are prefixed with a
    date; the `date` table goes through another function and is left out."""
    import os
    import re

    path = os.path.join(repo, "book", "src", "basics", "date-and-time.md")
    res = []
    try:
        lines = open(path, encoding="utf-8").read().splitlines()
    except OSError:
        return res
    for ln, line in enumerate(lines, 1):
        m = re.match(r"^\|\s*`(%[^`]+)`\s*\|(.*)\|\s*$", line)
        if not m:
            continue
        fmt, cell = m.group(1), m.group(2)
        has_date = "%Y" in fmt
        has_time = "%H" in fmt or "%I" in fmt
        if not has_time:
            continue  # the `date` table
        for ex in re.findall(r"`([^`]+)`", cell):
            if not any(ch.isdigit() for ch in ex):
                continue  # "same, but with `/` separator"
            res.append((ex if has_date else "2024-02-10 " + ex, ln, ex))
    return res


def rule_fmttab(crate, lib, min_strings=10, repo=None):
    out = RuleOut("FMTTAB", "every date-time string written in the standard library is accepted by a format of datetime::parse_datetime")
    rd = Reader(crate)
    f = crate.file_of(rd.fn)
    sites = rd.sites
    n_fmt = 0
    compiled = []
    any_opaque_site = False
    for s in sites:
        if s["formats"] is None or s["input"] == "unknown":
            any_opaque_site = True
            out.advisory("parse_datetime:strptime@%s" % s["kind"], f, s["line"], "format or input argument of this strptime call is not a recognised shape; the site is treated as accepting anything")
            continue
        fs = [Fmt(x) for x in sorted(s["formats"])]
        n_fmt += len(fs)
        if any(x.opaque for x in fs):
            any_opaque_site = True
        compiled.append((s, fs))
    if rd.opaque_calls:
        any_opaque_site = True
        for (pth, ln) in rd.opaque_calls:
            out.advisory("parse_datetime:call:%s" % pth.split("::")[-1], f, ln, "the input is handed to `%s`, which is not analysed; treated as accepting anything" % pth)
    strings, skipped, renderers = collect_strings(lib)
    import os

    n_doc = 0
    if repo:
        for (text, ln, shown) in doc_examples(repo):
            n_doc += 1
            strings.append((text, "@book/src/basics/date-and-time.md", ln, "documented example `%s`" % shown))

    def rel(mn):
        if mn.startswith("@"):
            return mn[1:]
        return "numbat/modules/" + mn.replace("::", "/") + ".nbt"

    seen = {}
    for (text, mn, line, origin) in strings:
        key = "datetime-string:%s:%s" % (mn, text)
        if key in seen:
            continue
        seen[key] = True
        hit = None
        for (s, fs) in compiled:
            for fm in fs:
                if s["kind"] == "Zoned" and not fm.has_offset and not fm.opaque:
                    continue
                if s["input"] == "whole":
                    if fm.accepts(text):
                        hit = (s, fm, "whole input")
                else:
                    if " " in text:
                        rest, last = text.rsplit(" ", 1)
                        if TZNAME.match(last) and last.upper() not in ("AM", "PM") and fm.accepts(rest):  # AM/PM is a meridiem, no zone
                            hit = (s, fm, "time-zone name `%s` + rest" % last)
                if hit:
                    break
            if hit:
                break
        if hit:
            out.ok(key, rel(mn), line, "%s: %r is accepted by %s::strptime(%r) [%s] (parse_datetime line %d)" % (origin, text, hit[0]["kind"], hit[1].fmt, hit[2], hit[0]["line"]))
        elif ISO_T.match(text) or RFC2822.match(text):
            out.advisory(key, rel(mn), line, "%s: %r is in ISO 8601 / RFC 2822 form, left to jiff's own parsers (%d opaque acceptor calls); not decided" % (origin, text, len(rd.opaque_acceptors)))
        elif any_opaque_site:
            out.advisory(key, rel(mn), line, "%s: %r is not accepted by any modelled format, but a strptime site is opaque; not decided" % (origin, text))
        else:
            out.violation(key, rel(mn), line, "%s: %r is not accepted by any format of parse_datetime (%d strptime sites, %d format strings; offset formats: %s): evaluating it can only fail with `Unrecognized datetime format`" % (origin, text, len(sites), n_fmt, sorted(fm.fmt for (s, fs) in compiled for fm in fs if s["kind"] == "Zoned")[:10]))
    for (mn, line, why) in skipped:
        out.advisory("datetime-call:%s:%d" % (mn, line), rel(mn), line, why)
    out.analysed = {"strptime_sites": len(sites), "format_strings": n_fmt, "table_rows": rd.table_rows, "strings": len(seen), "templates_skipped": len(skipped), "renderers": len(renderers), "documented_examples": n_doc}
    out.floor("strptime_sites", len(sites), 3)
    out.floor("format_strings", n_fmt, 9)
    out.floor("table_rows", rd.table_rows, 4)
    out.floor("strings", len(seen), min_strings)
    if repo:
        out.floor("documented_examples", n_doc, 20)  # the manual's format tables must be found (fail closed)
    return out
