"""PARAMSHADOW — in the type checker a parameter shadows the function being defined, as it does in the compiler.

The bytecode compiler resolves an identifier of a function body among the function's locals (parameters, where-locals)
first.  The checker enters the function itself into its environment so that the body can call it recursively; if it
does so in the SAME scope as the parameters and after them, a parameter with the function's own name is replaced by the
function: `fn f(f) = apply_to_one(f)` is typed with f as the function, `f(5)` is accepted and the VM panics (a number
used as a function value), `f(sin)` is rejected.  Decided on the statement order of the DefineFunction arm of
elaborate_statement: between the registration of the function (env.add_function) and the registration of the parameters
(env.add_scheme of the typed parameters) a new scope is opened (env.save)."""
from core import RuleOut
from hirlib import callee, local_of, peel, place_path, walk
from semrules import _find_arm


def rule_paramshadow(crate):
    out = RuleOut("PARAMSHADOW", "the parameters of a function are registered in a scope inside the one that holds the function itself")
    es = crate.find_fn("typechecker::TypeChecker::elaborate_statement")
    arm = None
    for m in walk(es["body"]):
        if m.get("k") == "Match" and str(m.get("src")) == "Normal":
            for a in m["arms"]:
                if any(p.get("variant") == "DefineFunction" for p in walk(a["pat"])) and any(x.get("k") == "MethodCall" and x["name"] == "add_function" for x in walk(a["body"])):
                    arm = a
    if arm is None:
        out.error("anchor missing: DefineFunction arm of elaborate_statement with env.add_function")
        return out
    order = {id(n): i for i, n in enumerate(walk(arm["body"]))}
    f_pos, saves, params = [], [], []
    param_ids = {q["id"] for q in walk(arm["pat"]) if q.get("k") == "Binding" and q.get("name") == "parameters"}
    # locals derived from `parameters` (typed_parameters, loop variables)
    changed = True
    while changed:
        changed = False
        for st in walk(arm["body"]):
            src = None
            if st.get("k") == "Let" and st.get("init") is not None:
                src, pat = st["init"], st["pat"]
            elif st.get("k") == "Match" and str(st.get("src", "")).startswith("ForLoop"):
                src, pat = st["scrut"], None
            if src is None:
                continue
            if any(x.get("k") == "Path" and x["res"].get("r") == "local" and x["res"]["id"] in param_ids for x in walk(src)):
                pats = [pat] if pat is not None else [a_["pat"] for inner in walk(st) if inner.get("k") == "Match" and inner is not st for a_ in inner["arms"]]
                for p_ in pats:
                    for q in walk(p_):
                        if q.get("k") == "Binding" and q["id"] not in param_ids:
                            param_ids.add(q["id"])
                            changed = True
        # pushes: typed_parameters.push((.., *parameter, ..))
        for x in walk(arm["body"]):
            if x.get("k") == "MethodCall" and x["name"] == "push" and any(y.get("k") == "Path" and y["res"].get("r") == "local" and y["res"]["id"] in param_ids for a_ in x.get("args", []) for y in walk(a_)):
                lid = local_of(x["recv"])
                if lid is not None and lid not in param_ids:
                    param_ids.add(lid)
                    changed = True
    for x in walk(arm["body"]):
        if x.get("k") != "MethodCall":
            continue
        p = place_path(x["recv"])
        on_env = bool(p and p[1] == "self" and p[2][:1] == ["env"])
        if x["name"] == "add_function" and on_env:
            f_pos.append((order[id(x)], x))
        elif x["name"] == "save" and on_env:
            saves.append(order[id(x)])
        elif x["name"] == "add_scheme" and on_env and x.get("args") and any(y.get("k") == "Path" and y["res"].get("r") == "local" and y["res"]["id"] in param_ids for y in walk(x["args"][0])):
            params.append((order[id(x)], x))
    if not f_pos or not params:
        out.error("anchor missing: env.add_function / env.add_scheme(<parameter>) in the DefineFunction arm (%d / %d)" % (len(f_pos), len(params)))
        return out
    fp = f_pos[0][0]
    pp = min(p_[0] for p_ in params)
    node = params[0][1]
    ff, ll = crate.loc(es, node)
    if fp < pp and any(fp < s_ < pp for s_ in saves):
        out.ok("elaborate_statement:DefineFunction:params-inside-function-scope", ff, ll, "function registered, scope opened, then parameters registered")
    else:
        out.violation("elaborate_statement:DefineFunction:params-inside-function-scope", ff, ll, "the function being defined is entered into the environment %s: a parameter named like the function is typed as the function (`fn f(f) = apply_to_one(f)`: `f(5)` is accepted and panics in the VM, `f(sin)` is rejected), while the compiler binds the parameter" % ("in the same scope as its parameters and after them" if fp > pp else "in the same scope as its parameters (no scope is opened in between)"))
    out.analysed = {"add_function": len(f_pos), "parameter_registrations": len(params), "scope_opens": len(saves)}
    return out
