"""IDCHARS — no character that spells an operator or punctuation token can continue (or start) an identifier.

The tokenizer reads an identifier greedily (`while is_identifier_continue(peek) advance`) before it looks at operator
characters, so an operator character for which is_identifier_continue is true is swallowed into the identifier in front
of it: `a→b`, `a≤b`, `x−1` (U+2212) become ONE unknown identifier and the documented operator is never seen — while
`let a→b = 3` is accepted as a definition.  The character predicates are closed boolean formulas over character
literals and code-point ranges (plus the Unicode XID properties), so they are evaluated here, from their HIR, for every
character of every symbolic token spelling the tokenizer knows.

XID_Start / XID_Continue (crate unicode_ident) are evaluated with Python's own Unicode tables (str.isidentifier is
defined by exactly these two properties); all other sub-predicates are crate-local and evaluated from their bodies."""
from core import RuleOut
from hirlib import callee, peel, peel_refs, walk
from prec import tokenizer_map


class Unknown(Exception):
    pass


class CharEval:
    def __init__(self, crate):
        self.crate = crate
        self.fns = 0

    def call(self, path, ch, depth=0):
        if path.endswith("unicode_ident::is_xid_continue"):
            return ("a" + ch).isidentifier()
        if path.endswith("unicode_ident::is_xid_start"):
            return ch.isidentifier() and ch != "_"
        fn = self.crate.hir.get(path)
        if fn is None or depth > 6:
            raise Unknown("call of " + path)
        ps = [p for p in fn["params"] if p.get("k") == "Binding"]
        if len(ps) != 1:
            raise Unknown("predicate with %d parameters: %s" % (len(ps), path))
        return self.expr(fn["body"], {ps[0]["id"]: ch}, depth)

    def val(self, e, env):
        """a char or an integer (code point)"""
        e = peel_refs(e)
        k = e.get("k")
        if k == "Lit":
            lk = e["lit"].get("lk")
            if lk == "char":
                return e["lit"]["v"]
            if lk == "int":
                return int(e["lit"]["v"])
        if k == "Path" and e["res"].get("r") == "local" and e["res"]["id"] in env:
            return env[e["res"]["id"]]
        if k == "Cast":
            v = self.val(e["e"], env)
            return ord(v) if isinstance(v, str) else v
        raise Unknown("value " + str(k))

    @staticmethod
    def _num(v):
        return ord(v) if isinstance(v, str) else v

    def pat(self, p, v):
        k = p.get("k")
        if k == "Wild" or k == "Binding" and "sub" not in p:
            return True
        if k == "Or":
            return any(self.pat(q, v) for q in p["pats"])
        if k == "Lit":
            return self._num(p["lit"]["v"] if p["lit"].get("lk") == "char" else int(p["lit"]["v"])) == self._num(v)
        if k == "Range":
            lo, hi = p.get("lo"), p.get("hi")
            if lo is None and hi is None:
                raise Unknown("range pattern without endpoints in the facts")
            lo_v = self._num(self.val(lo, {})) if lo else 0
            hi_v = self._num(self.val(hi, {})) if hi else 0x10FFFF
            incl = str(p.get("end", "Included")).startswith("Incl")
            return lo_v <= self._num(v) <= hi_v if incl else lo_v <= self._num(v) < hi_v
        raise Unknown("pattern " + str(k))

    def expr(self, e, env, depth=0):
        e = peel(e)
        k = e.get("k")
        if k == "Block":
            env = dict(env)
            for st in e.get("stmts", []) or []:
                if st.get("k") == "Let" and st.get("init") is not None and st["pat"].get("k") == "Binding":
                    env[st["pat"]["id"]] = self.val(st["init"], env)
                else:
                    raise Unknown("statement")
            if e.get("tail") is None:
                raise Unknown("block without value")
            return self.expr(e["tail"], env, depth)
        if k == "Lit" and e["lit"].get("lk") == "bool":
            return e["lit"]["v"] in (True, "true")
        if k == "Unary" and e.get("op") == "Not":
            return not self.expr(e["e"], env, depth)
        if k == "Binary":
            op = e["op"]
            if op == "&&":
                return self.expr(e["l"], env, depth) and self.expr(e["r"], env, depth)
            if op == "||":
                return self.expr(e["l"], env, depth) or self.expr(e["r"], env, depth)
            l, r = self._num(self.val(e["l"], env)), self._num(self.val(e["r"], env))
            return {"==": l == r, "!=": l != r, "<": l < r, "<=": l <= r, ">": l > r, ">=": l >= r}[op]
        if k == "Match":
            v = self.val(e["scrut"], env)
            for a in e["arms"]:
                if self.pat(a["pat"], v) and ("guard" not in a or self.expr(a["guard"], env, depth)):
                    return self.expr(a["body"], env, depth)
            raise Unknown("no arm")
        if k == "If" and e.get("else") is not None:
            return self.expr(e["then"], env, depth) if self.expr(e["cond"], env, depth) else self.expr(e["else"], env, depth)
        if k == "Call":
            c = callee(e) or ""
            if len(e.get("args", [])) == 1:
                self.fns += 1
                return self.call(c, self.val(e["args"][0], env) if not c.startswith("unicode_ident") else self._chr(self.val(e["args"][0], env)), depth + 1)
        if k == "MethodCall" and e["name"] == "contains" and len(e["args"]) == 1:
            r = peel_refs(e["recv"])
            v = self._num(self.val(e["args"][0], env))
            if r.get("k") == "Call" and (callee(r) or "").endswith("RangeInclusive::new"):
                return self._num(self.val(r["args"][0], env)) <= v <= self._num(self.val(r["args"][1], env))
            if r.get("k") == "Struct" and "Range" in str(r.get("adt") or r.get("path") or ""):
                fs = {str(it[0]): it[1] for it in r.get("fields", []) if isinstance(it, list)}
                if "start" in fs and "end" in fs:
                    return self._num(self.val(fs["start"], env)) <= v < self._num(self.val(fs["end"], env))
        if k == "MethodCall" and e["name"] in ("is_ascii_digit", "is_ascii_alphabetic", "is_ascii_alphanumeric", "is_alphabetic", "is_alphanumeric", "is_numeric", "is_whitespace") and not e["args"]:
            ch = self._chr(self.val(e["recv"], env))
            return {"is_ascii_digit": ch.isascii() and ch.isdigit(), "is_ascii_alphabetic": ch.isascii() and ch.isalpha(), "is_ascii_alphanumeric": ch.isascii() and ch.isalnum(),
                    "is_alphabetic": ch.isalpha(), "is_alphanumeric": ch.isalnum(), "is_numeric": ch.isnumeric(), "is_whitespace": ch.isspace()}[e["name"]]
        raise Unknown("expression " + str(k) + ((" " + e.get("name", "")) if k == "MethodCall" else ""))

    @staticmethod
    def _chr(v):
        return v if isinstance(v, str) else chr(v)


def rule_idchars(crate):
    out = RuleOut("IDCHARS", "no character of an operator/punctuation token is an identifier character (it would be swallowed into the identifier in front of it)")
    cont = crate.find_fn("tokenizer::is_identifier_continue")
    start = crate.find_fn("tokenizer::is_identifier_start")
    f = crate.file_of(cont)
    tok = tokenizer_map(crate)
    symbolic = sorted(sp for sp in tok if sp and not any(ch.isalnum() or ch == "_" for ch in sp))
    ev = CharEval(crate)
    chars = sorted({ch for sp in symbolic for ch in sp})
    n = 0
    for ch in chars:
        spell = [sp for sp in symbolic if ch in sp]
        key = "U+%04X" % ord(ch)
        try:
            c_ = ev.call(cont["def"], ch)
            s_ = ev.call(start["def"], ch)
        except Unknown as u:
            out.error("anchor missing: the identifier predicates cannot be evaluated (%s)" % u)
            return out
        n += 1
        if c_ or s_:
            which = "is_identifier_continue" if c_ else "is_identifier_start"
            out.violation(key, f, (cont if c_ else start)["line"], "`%s` (%s, token %s) satisfies %s: written directly after an identifier or unit (`a%sb`, `2 m%scm`) it is swallowed into the identifier and the operator is never seen, while `let a%sb = 3` is accepted as a name" % (ch, key, "/".join("`%s`=%s" % (sp, tok[sp]) for sp in spell), which, ch, ch, ch))
        else:
            out.ok(key, f, cont["line"], "`%s` (token %s) is not an identifier character" % (ch, "/".join(tok[sp] for sp in spell)))
    # positive control of the evaluator itself: letters and digits continue an identifier, `·` does not
    ctl = [("a", True), ("9", True), ("₁", True), ("·", False), ("²", False), (" ", False)]
    try:
        bad = [(c, w) for (c, w) in ctl if ev.call(cont["def"], c) != w]
    except Unknown as u:
        bad = [("?", str(u))]
    if bad:
        out.error("evaluator control failed for is_identifier_continue: %r" % bad)
    out.analysed = {"symbolic_spellings": len(symbolic), "characters": n, "predicate_calls_evaluated": ev.fns}
    out.floor("characters", n, 25)
    return out
