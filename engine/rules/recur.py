"""RECUR — recursion whose depth is driven by the shape of the input, without a depth guard.

"Deep nesting" is in the scope of C08: a recursive descent over the token stream or a recursive walk over the
(typed) syntax tree / type / unit structure uses one stack frame group per nesting level; without a depth limit a
sufficiently nested or long input overflows the native stack and the process ABORTS (no panic handler, no diagnostic).

From the MIR call graph (closures folded into their function, but a function calling its own closure is not counted
as recursion; trait-method calls fan out to the impls in the crate): the strongly connected components reachable from
Context::interpret_with_settings.  A component is *input-driven* when one of its functions is a Parser method or
takes a (reference to a) recursive syntax/type structure.  A component is *guarded* when one of its functions compares
a depth/nesting counter.  Every unguarded input-driven component is a finding; those for which a witness input was
produced are violations (known findings), the others are advisories (their overflow is masked by an earlier phase
overflowing first on every input tried)."""
import re

from callgraph import CallGraph, owner
from core import RuleOut
from hirlib import place_path, walk

INPUT_SHAPED = re.compile(
    r"crate::(ast|typed_ast)::(Expression|Statement|TypeExpression|TypeAnnotation|StringPart|DefineVariable)\b|crate::typed_ast::Type\b|crate::typechecker::type_scheme::TypeScheme|crate::dimension::|crate::arithmetic::|crate::markup::Markup|crate::value::Value|crate::list::NumbatList|crate::tokenizer::Token\b|crate::unit::Unit|crate::product::Product"
)


def real_edges(crate, g):
    """folded edges, minus the pseudo self-loops `f -> f::{closure}`"""
    edges = {}
    for caller, cs in g.edges.items():
        edges[caller] = set(cs)
    # recompute self loops precisely from the raw MIR
    selfloop = set()
    for d, b in crate.mir.items():
        oc = owner(d)
        for blk in b["body"]["blocks"]:
            t = blk["term"]
            if t.get("k") not in ("call", "tailcall"):
                continue
            f = t["f"]
            if f.get("o") == "const" and "fn" in f:
                raw = f.get("inst") or f["fn"]
                if raw == oc:  # the function itself (from its body or from one of its closures)
                    selfloop.add(oc)
    for n in list(edges):
        if n in edges[n] and n not in selfloop:
            edges[n].discard(n)
    return edges


def sccs_of(nodes, edges):
    index, low, st, on, out = {}, {}, [], set(), []
    counter = [0]
    for root in nodes:
        if root in index:
            continue
        # iterative Tarjan
        work = [(root, iter(sorted(w for w in edges.get(root, ()) if w in nodes)))]
        index[root] = low[root] = counter[0]
        counter[0] += 1
        st.append(root)
        on.add(root)
        while work:
            v, it = work[-1]
            adv = False
            for w in it:
                if w not in index:
                    index[w] = low[w] = counter[0]
                    counter[0] += 1
                    st.append(w)
                    on.add(w)
                    work.append((w, iter(sorted(x for x in edges.get(w, ()) if x in nodes))))
                    adv = True
                    break
                elif w in on:
                    low[v] = min(low[v], index[w])
            if adv:
                continue
            work.pop()
            if work:
                p = work[-1][0]
                low[p] = min(low[p], low[v])
            if low[v] == index[v]:
                comp = []
                while True:
                    w = st.pop()
                    on.discard(w)
                    comp.append(w)
                    if w == v:
                        break
                if len(comp) > 1 or v in edges.get(v, ()):
                    out.append(sorted(comp))
    return out


def rule_recur(crate, dispositions, root="Context::interpret_with_settings"):
    out = RuleOut("RECUR", "no recursion over the structure of the input without a depth guard (stack overflow aborts the process)")
    g = CallGraph(crate)
    roots = g.find(root)
    if not roots:
        out.error("anchor missing: %s" % root)
        return out
    edges = real_edges(crate, g)
    reach = set()
    stack = list(roots)
    while stack:
        x = stack.pop()
        if x in reach:
            continue
        reach.add(x)
        stack.extend(edges.get(x, ()))
    comps = sccs_of(sorted(reach), edges)
    n_input = 0
    for comp in comps:
        local = [n for n in comp if "crate::" in n]
        if not local:
            continue
        # input-driven?
        why = None
        for n in local:
            b = crate.hir.get(n)
            if b is None:
                continue
            if n.startswith("crate::parser::Parser::"):
                why = "recursive descent over the token stream (%s)" % n.split("::")[-1]
                break
            for t in b.get("param_tys", []) or []:
                if INPUT_SHAPED.search(t):
                    why = "walks `%s`" % INPUT_SHAPED.search(t).group(0)
                    break
            if why is None and INPUT_SHAPED.search(b.get("impl_self") or "") and b.get("params") and b["params"][0].get("name") == "self":
                why = "method of `%s`" % b["impl_self"]
            if why:
                break
        rep = min(local, key=lambda s: (len(s), s))
        # keep the key of a dispositioned component stable when functions are added to / renamed in it
        for cand in sorted(local):
            if "scc:%s" % cand.replace("crate::", "") in dispositions:
                rep = cand
                break
        short = rep.replace("crate::", "")
        key = "scc:%s" % short
        b0 = crate.hir.get(rep) or crate.hir.get(local[0])
        f, l = (crate.file_of(b0), b0["line"]) if b0 else ("numbat/src", 1)
        if why is None:
            out.exempt(key, f, l, "recursive component of %d function(s) not driven by the nesting of the input (module imports, on-demand prelude loading, user-level recursion in the VM, fixed-depth helpers)" % len(comp))
            continue
        n_input += 1
        # guard?
        guarded = False
        for n in local:
            b = crate.hir.get(n)
            if b is None:
                continue
            for x in walk(b["body"]):
                if x.get("k") == "Binary" and str(x.get("op")) in (">", ">=", "<", "<=", "Gt", "Ge", "Lt", "Le"):
                    for side in (x["l"], x["r"]):
                        p = place_path(side)
                        names = ([p[1]] + list(p[2])) if p else []
                        if any(re.search(r"depth|nesting|recursion", str(nm)) for nm in names):
                            guarded = True
        members = ", ".join(sorted(n.replace("crate::", "").split("::")[-1] for n in local)[:8])
        if guarded:
            out.ok(key, f, l, "%s; a depth counter is compared in the component (%s)" % (why, members))
            continue
        disp = dispositions.get(key)
        detail = "%d mutually recursive function(s) [%s]: %s, one group of stack frames per nesting level and no depth limit — a deeply nested / long enough input overflows the native stack and the process aborts" % (len(comp), members, why)
        if disp and disp[0] == "witness":
            out.violation(key, f, l, detail + ". Witness: " + disp[1])
        elif disp and disp[0] == "bounded":
            out.exempt(key, f, l, detail + ". Bounded: " + disp[1])
        else:
            out.advisory(key, f, l, "unresolved: " + detail + " (no witness: on every input tried an earlier phase overflows first)")
    out.analysed = {"reachable_functions": len(reach), "recursive_components": len(comps), "input_driven": n_input}
    out.floor("recursive_components", len(comps), 10)
    out.floor("input_driven", n_input, 5)
    return out
