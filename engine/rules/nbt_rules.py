"""Name-level lints over the Numbat standard library (engine/nbtlint): N1 USECLOSURE, N2 DUPDEF,
N3 UNITFORMS, N4 EXAMPLES.  The prefix table is extracted from PrefixParser::prefixes() (Rust facts)."""
import os

from core import RuleOut
from hirlib import ctor_variant, peel, peel_refs, strip_generics, walk

BUILTIN_VALUES = {"_", "ans"}
BUILTIN_TYPES = {"Bool", "String", "DateTime", "Fn", "List", "Dim"}


def prefix_table(crate):
    """[(long, [shorts], kind, exponent)] from the literal table inside PrefixParser::prefixes."""
    fn = crate.find_fn("prefix_parser::PrefixParser::prefixes")
    rows = []
    for n in walk(fn["body"]):
        if n.get("k") == "Tup" and len(n["elems"]) == 3:
            a, b, c = n["elems"]
            a = peel_refs(a)
            if a.get("k") != "Lit" or a["lit"].get("lk") != "str":
                continue
            shorts = [x["lit"]["v"] for x in walk(b) if x.get("k") == "Lit" and x["lit"].get("lk") == "str"]
            cv = ctor_variant(c)
            if not cv or not cv[0].endswith("prefix::Prefix"):
                continue
            val = None
            neg = False
            for x in walk(c):
                if x.get("k") == "Unary" and x.get("op") == "Neg":
                    neg = True
                if x.get("k") == "Lit" and x["lit"].get("lk") == "int":
                    val = int(x["lit"]["v"])
            if val is None:
                continue
            rows.append((a["lit"]["v"], shorts, cv[1], -val if neg else val))
    return rows


def rel(lib, m):
    return os.path.join("numbat/modules", os.path.relpath(m.path, lib.root))


class Names:
    """Value / type namespaces per module, with unit forms."""

    def __init__(self, lib, prefixes):
        self.lib = lib
        self.prefixes = prefixes
        self.values = {}  # module -> {name: def}
        self.types = {}
        self.units = {}  # module -> [(alias, accepts, metric, binary, def)]
        for name, m in lib.modules.items():
            v = {}
            t = {}
            u = []
            for d in m.defs:
                if d.kind in ("let",):
                    v.setdefault(d.name, d)
                    for a, _ap in d.aliases:
                        v.setdefault(a, d)
                elif d.kind == "fn":
                    v.setdefault(d.name, d)
                elif d.kind == "unit":
                    forms = [(d.name, "long")]
                    for a, ap in d.aliases:
                        if a == d.name:
                            forms[0] = (a, ap or "long")
                        else:
                            forms.append((a, ap or "long"))
                    for a, ap in forms:
                        u.append((a, ap, d.metric, d.binary, d))
                    if not d.has_type:
                        # `unit pixel` introduces the dimension `Pixel`
                        t.setdefault(upper_camel(d.name), d)
                elif d.kind in ("dimension", "struct"):
                    t.setdefault(d.name, d)
            self.values[name] = v
            self.types[name] = t
            self.units[name] = u

    def unit_forms(self, modules):
        """{form: [(module, unit full name, alias, prefix long name or None)]} for the given modules"""
        forms = {}
        for mn in modules:
            for (alias, ap, metric, binary, d) in self.units[mn]:
                forms.setdefault(alias, []).append((mn, d.name, alias, None))
                for (plong, pshorts, kind, exp) in self.prefixes:
                    if not ((kind == "Metric" and metric) or (kind == "Binary" and binary)):
                        continue
                    if ap in ("long", "both"):
                        forms.setdefault(plong + alias, []).append((mn, d.name, alias, plong))
                    if ap in ("short", "both"):
                        for ps in pshorts:
                            forms.setdefault(ps + alias, []).append((mn, d.name, alias, plong))
        return forms


def upper_camel(s):
    parts = [p for p in s.replace("-", "_").split("_") if p]
    return "".join(p[:1].upper() + p[1:] for p in parts) if parts else s


def rule_useclosure(lib, prefixes):
    out = RuleOut("USECLOSURE", "every free identifier of a module is defined in the module or in the transitive closure of its `use`s")
    nm = Names(lib, prefixes)
    n_uses = 0
    for name, m in sorted(lib.modules.items()):
        clo = lib.closure([name])
        vals = set(BUILTIN_VALUES)
        typs = set(BUILTIN_TYPES)
        for c in clo:
            vals |= set(nm.values[c])
            typs |= set(nm.types[c])
        forms = nm.unit_forms(clo)
        missing = {}
        for u in m.uses:
            n_uses += 1
            if u.ns == "value":
                ok = u.name in vals or u.name in forms
            else:
                ok = u.name in typs or u.name == "1"
                if not ok and u.ctx == "struct-literal":
                    ok = u.name in typs
            if not ok:
                missing.setdefault((u.name, u.ns), u)
        for imp, line in m.imports:
            if imp not in lib.modules:
                out.violation("%s:use:%s" % (name, imp), rel(lib, m), line, "module `%s` imports the unknown module `%s`" % (name, imp))
        if missing:
            for (ident, ns), u in sorted(missing.items()):
                # where is it defined?
                where = sorted(mn for mn in lib.modules if (ident in nm.values[mn] or ident in nm.types[mn] or ident in nm.unit_forms([mn])))
                out.violation(
                    "%s:%s" % (name, ident), rel(lib, m), u.line,
                    "module `%s` uses %s `%s` (line %d) which is not defined in the module or in the closure of its `use`s%s — it only works when another module was loaded first"
                    % (name, "type" if ns == "type" else "identifier", ident, u.line, (" (defined in: %s)" % ", ".join(where)) if where else ""),
                )
        else:
            out.ok("%s" % name, rel(lib, m), 1, "%d free identifiers resolve within the import closure (%d modules)" % (len(m.uses), len(clo)))
    for (mn, err) in lib.errors:
        out.error("nbtlint could not tokenize module %s: %s" % (mn, err))
    unc = sum(m.unclassified for m in lib.modules.values())
    out.analysed = {"modules": len(lib.modules), "free_identifier_uses": n_uses, "unclassified_statements": unc, "statements": sum(m.statements for m in lib.modules.values())}
    out.floor("modules", len(lib.modules), 62)
    out.floor("free_identifier_uses", n_uses, 1800)
    if unc > 0:
        out.error("nbtlint front end could not classify %d statements (floor: 0)" % unc)
    return out


def rule_dupdef(lib, prefixes):
    out = RuleOut("DUPDEF", "no name is defined by two different standard-library modules (the result of loading them would depend on the import order)")
    nm = Names(lib, prefixes)
    owners_v = {}
    owners_t = {}
    for mn in sorted(lib.modules):
        for n, d in nm.values[mn].items():
            owners_v.setdefault(n, []).append((mn, d))
        for n, d in nm.types[mn].items():
            owners_t.setdefault(n, []).append((mn, d))
        for (alias, ap, metric, binary, d) in nm.units[mn]:
            owners_v.setdefault(alias, []).append((mn, d))
    n_names = 0
    for table, ns in ((owners_v, "value"), (owners_t, "type")):
        for n, owners in sorted(table.items()):
            n_names += 1
            mods = sorted({mn for mn, _ in owners})
            if len(mods) > 1:
                mn, d = owners[1]
                out.violation("%s:%s" % (ns, n), rel(lib, lib.modules[mn]), d.line, "%s name `%s` is defined in several modules: %s" % (ns, n, ", ".join(mods)))
    # same name twice inside one module with different kinds
    for mn, m in sorted(lib.modules.items()):
        seen = {}
        for d in m.defs:
            ns = "type" if d.kind in ("dimension", "struct") else "value"
            k = (ns, d.name)
            if k in seen and seen[k].kind != d.kind:
                out.violation("%s:%s:%s" % (mn, ns, d.name), rel(lib, m), d.line, "`%s` is defined as %s and as %s in module %s" % (d.name, seen[k].kind, d.kind, mn))
            seen.setdefault(k, d)
    if out.count("violation") == 0:
        out.ok("all", "numbat/modules", 1, "%d distinct names, each defined by exactly one module" % n_names)
    out.analysed = {"modules": len(lib.modules), "names": n_names}
    out.floor("names", n_names, 1000)
    return out


def rule_unitforms(lib, prefixes, keywords=None):
    out = RuleOut("UNITFORMS", "every accepted (prefix, alias) form has exactly one reading and collides with no variable/function name")
    nm = Names(lib, prefixes)
    mods = sorted(lib.modules)
    forms = nm.unit_forms(mods)
    all_values = {}
    for mn in mods:
        for n, d in nm.values[mn].items():
            all_values.setdefault(n, []).append((mn, d))
    n_forms = len(forms)
    n_units = sum(len(nm.units[m]) for m in mods)
    amb = 0
    for form, readings in sorted(forms.items()):
        distinct = {(r[1], r[3]) for r in readings}
        if len(distinct) > 1:
            amb += 1
            mn = readings[1][0]
            d = next(dd for (a, ap, me, bi, dd) in nm.units[mn] if dd.name == readings[1][1])
            out.violation(
                "form:%s" % form, rel(lib, lib.modules[mn]), d.line,
                "identifier `%s` has %d readings: %s" % (form, len(distinct), "; ".join("%s%s (in %s)" % ((r[3] + "-") if r[3] else "", r[1], r[0]) for r in readings)),
            )
        if form in all_values:
            mn2, d2 = all_values[form][0]
            r = readings[0]
            out.violation(
                "form:%s:clash" % form, rel(lib, lib.modules[mn2]), d2.line,
                "`%s` is both the %s `%s` of module %s and the unit form %s%s of module %s" % (form, d2.kind, d2.name, mn2, (r[3] + "-") if r[3] else "", r[1], r[0]),
            )
    # an accepted form must be writable: it has to come out of the tokenizer as ONE identifier token, and must not be a keyword
    from nbtlint.front import TokErr, tokenize

    keywords = keywords or {}
    n_kw = 0
    unlexable = {}
    for form, readings in sorted(forms.items()):
        if form in keywords:
            n_kw += 1
            r = readings[0]
            mn = r[0]
            d = next(dd for (a, ap, me, bi, dd) in nm.units[mn] if dd.name == r[1])
            out.violation(
                "form:%s:keyword" % form, rel(lib, lib.modules[mn]), d.line,
                "the accepted unit form `%s` (%s%s) is tokenized as the keyword %s and can never be read as that unit" % (form, (r[3] + "-") if r[3] else "", r[1], keywords[form]),
            )
            continue
        try:
            toks = [t for t in tokenize(form) if t.kind not in ("nl", "eof")]
        except TokErr:
            toks = []
        if len(toks) != 1 or toks[0].kind != "ident":
            r = readings[0]
            unlexable.setdefault((r[0], r[1], r[2]), []).append(form)
    for (mn, uname, alias), fs in sorted(unlexable.items()):
        d = next(dd for (a, ap, me, bi, dd) in nm.units[mn] if dd.name == uname)
        out.violation(
            "lexable:%s:%s" % (uname, alias), rel(lib, lib.modules[mn]), d.line,
            "alias `%s` of unit `%s` accepts prefixes, but the %d prefixed forms (%s…) are not single identifier tokens: `%s` is read as two tokens (a product), and the printed prefixed unit does not read back" % (alias, uname, len(fs), ", ".join(fs[:4]), fs[0]),
            witness="2 milli%s -> milli%s  prints `2 %s`, which reads back as a different quantity" % (uname, uname, fs[0]) if uname == "arcsecond" else None,
        )
    if out.count("violation") == 0:
        out.ok("all", "numbat/modules/units", 1, "%d accepted forms over %d unit names/aliases and %d prefixes: every form has one reading, none collides with a variable or function" % (n_forms, n_units, len(prefixes)))
    else:
        out.ok("readings", "numbat/modules/units", 1, "%d accepted forms checked for readings, name clashes, keywords and lexability" % n_forms)
    out.analysed = {"forms": n_forms, "unit_aliases": n_units, "prefix_rows": len(prefixes), "keywords": len(keywords)}
    out.floor("keywords", len(keywords), 30)
    out.floor("forms", n_forms, 4000)
    out.floor("prefix_rows", len(prefixes), 34)
    out.floor("unit_aliases", n_units, 600)
    return out


def rule_prefix_tables(crate):
    """R4c: parser prefix table vs printer tables (Prefix::as_string_long / as_string_short)."""
    from hirlib import pat_variants

    out = RuleOut("OPTAB.prefix", "a prefixed unit is printed in a form the parser maps back to the same prefix")
    rows = prefix_table(crate)
    parse = {(kind, exp): (plong, shorts) for (plong, shorts, kind, exp) in rows}
    f0 = None
    for fname, which in (("prefix::Prefix::as_string_long", "long"), ("prefix::Prefix::as_string_short", "short")):
        fn = crate.find_fn(fname)
        f0 = crate.file_of(fn)
        table = {}
        for m in walk(fn["body"]):
            if m.get("k") != "Match" or str(m.get("src")) != "Normal":
                continue
            for a in m["arms"]:
                p = a["pat"]
                while p.get("k") in ("Ref",):
                    p = p["pat"]
                subs = p["pats"] if p.get("k") == "Or" else [p]
                body = peel_refs(a["body"])
                lits = [x["lit"]["v"] for x in walk(a["body"]) if x.get("k") == "Lit" and x["lit"].get("lk") == "str"]
                for sp in subs:
                    if sp.get("k") == "TupleStruct" and sp.get("adt", "").endswith("prefix::Prefix") and sp.get("pats"):
                        inner = sp["pats"][0]
                        if inner.get("k") == "Lit":
                            v = int(inner["lit"]["lit"]["v"]) if "lit" in inner.get("lit", {}) else int(inner["lit"]["v"])
                            if inner.get("neg"):
                                v = -v
                            if lits:
                                table[(sp["variant"], v)] = lits[0]
        n = 0
        for key, spelled in sorted(table.items()):
            n += 1
            k = "%s:%s(%d)" % (which, key[0], key[1])
            if key[1] == 0 and spelled == "":
                out.ok(k, f0, fn["line"], "no prefix prints as the empty string")
                continue
            if key not in parse:
                out.violation(k, f0, fn["line"], "Prefix::%s prints %s(%d) as `%s` but PrefixParser::prefixes() has no such prefix" % (fname.split("::")[-1], key[0], key[1], spelled))
                continue
            plong, shorts = parse[key]
            good = spelled == plong if which == "long" else spelled in shorts
            if good:
                out.ok(k, f0, fn["line"], "`%s` reads back as %s(%d)" % (spelled, key[0], key[1]))
            else:
                out.violation(k, f0, fn["line"], "%s(%d) is printed as `%s` but the parser reads that prefix as %s" % (key[0], key[1], spelled, [plong] if which == "long" else shorts))
        missing = set(parse) - set(table)
        for key in sorted(missing):
            out.violation("%s:%s(%d)" % (which, key[0], key[1]), f0, fn["line"], "the parser accepts prefix %s(%d) but %s has no spelling for it (catch-all arm)" % (key[0], key[1], fname.split("::")[-1]))
        out.floor("rows[%s]" % which, n, 34)
    out.analysed = {"parser_rows": len(rows)}
    return out


def rule_examples(lib, prefixes):
    from nbtlint.front import Module, TokErr

    out = RuleOut("EXAMPLES", "every @example snippet is lexically well formed and every free identifier resolves in prelude ∪ units::currencies (∪ the defining module)")
    nm = Names(lib, prefixes)
    base = lib.closure(["prelude", "units::currencies"])
    n_ex = 0
    n_ids = 0
    for mn, m in sorted(lib.modules.items()):
        for d in m.defs:
            for (code, desc, line) in d.examples:
                n_ex += 1
                key = "%s:%s#%d" % (mn, d.name, [e[0] for e in d.examples].index(code))
                try:
                    em = Module("<example>", "<example>", code)
                except TokErr as e:
                    out.violation(key, rel(lib, m), line, "@example of `%s` is not lexically well formed: %s" % (d.name, e))
                    continue
                if em.unclassified:
                    out.violation(key, rel(lib, m), line, "@example of `%s` could not be split into statements" % d.name)
                    continue
                # bracket balance
                depth = 0
                bad = False
                for t in em.toks:
                    if t.kind in ("(", "[", "{"):
                        depth += 1
                    elif t.kind in (")", "]", "}"):
                        depth -= 1
                        if depth < 0:
                            bad = True
                if depth != 0 or bad:
                    out.violation(key, rel(lib, m), line, "@example of `%s` has unbalanced brackets: %r" % (d.name, code))
                    continue
                clo = list(base)
                for extra in lib.closure([mn]):
                    if extra not in clo:
                        clo.append(extra)
                for imp, _l in em.imports:
                    for extra in lib.closure([imp]):
                        if extra not in clo:
                            clo.append(extra)
                vals = set(BUILTIN_VALUES)
                typs = set(BUILTIN_TYPES)
                for c in clo:
                    vals |= set(nm.values[c])
                    typs |= set(nm.types[c])
                forms = nm.unit_forms(clo)
                local_v = {x.name for x in em.defs if x.kind in ("let", "fn", "unit")}
                local_t = {x.name for x in em.defs if x.kind in ("dimension", "struct")}
                missing = []
                for u in em.uses:
                    n_ids += 1
                    if u.ns == "value":
                        ok = u.name in vals or u.name in forms or u.name in local_v
                    else:
                        ok = u.name in typs or u.name in local_t or u.name == "1"
                    if not ok:
                        missing.append(u.name)
                if missing:
                    out.violation(key, rel(lib, m), line, "@example of `%s` (%r) uses undefined identifier(s) %s" % (d.name, code, sorted(set(missing))))
                else:
                    out.ok(key, rel(lib, m), line, "%d identifiers resolve" % len(em.uses))
    out.analysed = {"examples": n_ex, "identifiers": n_ids, "base_modules": len(base)}
    out.floor("examples", n_ex, 177)
    out.floor("identifiers", n_ids, 300)
    return out


def rule_echoform(lib, prefixes, crate, dispositions=None):
    """ECHOFORM — the echoed spelling of a prefixed unit is one the prefix parser accepts.

    printer (Rust facts)  the UnitIdentifier arm of the typed Expression printer: which prefix spelling
                          (Prefix::as_string_long / as_string_short) and which name field (full_name / name) it emits;
    library (nbt facts)   for every unit with metric/binary prefixes: does the name the printer emits accept the prefix
                          spelling the printer emits?  `@aliases(bps: short) unit bps` accepts only `Mbps`, so the echo
                          `megabps` of `5 Mbps` is an unknown identifier."""
    from hirlib import pat_variants as _pv

    dispositions = dispositions or {}
    out = RuleOut("ECHOFORM", "a prefixed unit is echoed in a (prefix spelling, name) combination that the unit accepts")
    printers = [b for d, b in crate.hir.items() if d.endswith("::pretty_print") and strip_generics(b.get("impl_self") or "").endswith("typed_ast::Expression")]
    if not printers:
        out.error("anchor missing: typed Expression printer")
        return out
    pp = printers[0]
    spelling = namefield = None
    arm_line = pp["line"]
    for m in walk(pp["body"]):
        if m.get("k") != "Match" or str(m.get("src")) != "Normal":
            continue
        for a in m["arms"]:
            if _pv(a["pat"], "crate::typed_ast::Expression") != {"UnitIdentifier"}:
                continue
            arm_line = crate.loc(pp, a["pat"])[1]
            binds = {}
            for p in walk(a["pat"]):
                if p.get("k") == "Struct":
                    for it in p.get("fields", []) or []:
                        if isinstance(it, list) and len(it) == 2:
                            for q in walk(it[1]):
                                if q.get("k") == "Binding":
                                    binds[q["id"]] = str(it[0])
            for x in walk(a["body"]):
                if x.get("k") == "MethodCall" and x["name"] in ("as_string_long", "as_string_short"):
                    spelling = "long" if x["name"] == "as_string_long" else "short"
                if x.get("k") == "Path" and x["res"].get("r") == "local" and binds.get(x["res"].get("id")) in ("full_name", "name"):
                    namefield = binds[x["res"]["id"]]
    f = crate.file_of(pp)
    if spelling is None or namefield is None:
        out.error("anchor missing: the UnitIdentifier arm of the typed printer does not emit Prefix::as_string_long/short + full_name/name")
        return out
    nm = Names(lib, prefixes)
    n = 0
    for mn in sorted(lib.modules):
        seen = set()
        for (alias, ap, metric, binary, d) in nm.units[mn]:
            if not (metric or binary) or d.name in seen:
                continue
            if namefield == "full_name" and alias != d.name:
                continue
            seen.add(d.name)
            n += 1
            key = "unit:%s" % d.name
            ok = ap in (spelling, "both")
            if ok:
                out.ok(key, rel(lib, lib.modules[mn]), d.line, "`<%s prefix>%s` is an accepted form" % (spelling, d.name))
            else:
                example = next((pl for (pl, ps, kind, exp) in prefixes if (kind == "Metric" and metric) or (kind == "Binary" and binary)), "kilo")
                disp = dispositions.get(key)
                out.violation(key, rel(lib, lib.modules[mn]), d.line, "unit `%s` accepts only %s prefixes on its own name, but the printer (%s:%d) echoes every prefixed use as `<%s prefix>%s` (e.g. `%s%s`), which is an unknown identifier when the echoed line is read back%s" % (d.name, ap, f, arm_line, spelling, d.name, example, d.name, (". Witness: " + disp) if disp else ""))
    out.analysed = {"prefixable_units": n, "printer_form": "%s prefix + %s" % (spelling, namefield)}
    out.floor("prefixable_units", n, 40)
    return out
