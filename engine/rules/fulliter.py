"""FULLITER — a collecting query over the factors / components of a type looks at all of them.

`DType::type_variables`, `Type::type_variables` and their siblings collect something from EVERY factor of a dimension
type; generalisation (`TypeScheme::generalize`), `is_closed()` and the printing of inferred signatures are built on
them.  The factors are kept in a canonical order TVar < BaseDimension < TPar, so an "optimisation" that stops at the
first base dimension (`take_while`) still finds every unification variable — inference is unchanged — but misses a type
PARAMETER behind a base dimension: the inferred signature `fn f<A: Dim>(x: A × Time / Length) -> A × Mass`, written
back, is generalised over nothing and every call is rejected.  Rule: in a method of DType / Type that returns a
collection, an iterator chain rooted at a field of `self` contains no truncating adapter (take_while, take, skip,
skip_while, step_by, nth, next, last, find, position): order-dependent short cuts are for searches (Option / bool
results), not for collections."""
from core import RuleOut
from hirlib import place_path, strip_generics, walk

TRUNC = {"take_while", "take", "skip", "skip_while", "step_by", "nth", "next", "last", "find", "find_map", "position", "map_while"}
ROOTS = {"iter", "iter_mut", "into_iter", "keys", "values"}


def rule_fulliter(crate):
    out = RuleOut("FULLITER", "collecting queries over the components of a type iterate over all of them (no truncating iterator adapter)")
    n_fns = n_chains = 0
    for d, b in sorted(crate.hir.items()):
        if "::tests::" in d or b.get("body") is None:
            continue
        isf = strip_generics(b.get("impl_self") or "")
        if not isf.endswith(("typed_ast::DType", "typed_ast::Type", "typed_ast::StructInfo", "type_scheme::TypeScheme", "qualified_type::QualifiedType")):
            continue
        ret = str(b.get("ret", ""))
        if not ret.startswith(("std::vec::Vec<", "alloc::vec::Vec<", "std::collections::", "indexmap::")):
            continue
        if not b.get("params"):
            continue
        self_id = b["params"][0].get("id")
        n_fns += 1
        for x in walk(b["body"]):
            if x.get("k") != "MethodCall" or x["name"] not in ROOTS:
                continue
            p = place_path(x["recv"])
            if not (p and p[0] == self_id and p[2]):
                continue  # not a field of self
            n_chains += 1
            chain = [y for y in walk(b["body"]) if y.get("k") == "MethodCall" and any(z is x for z in walk(y["recv"]))]
            bad = [y["name"] for y in chain if y["name"] in TRUNC]
            f, l = crate.loc(b, x)
            key = "%s:self.%s" % (d.replace("crate::", ""), ".".join(str(q) for q in p[2]))
            if bad:
                out.violation(key, f, l, "`%s` returns a collection but walks `self.%s` through `.%s(..)`, which stops early: components behind the cut are not seen — with the canonical factor order TVar < BaseDimension < TPar a type parameter behind a base dimension (`A × Time / Length`) is missed, so the written-back inferred signature `fn f<A: Dim>(x: A × Time / Length) -> A × Mass` is not generalised and every call is rejected" % (b["name"], ".".join(str(q) for q in p[2]), bad[0]))
            else:
                out.ok(key, f, l, "all components are visited (%s)" % (", ".join(y["name"] for y in chain[:4]) or "plain iteration"))
    out.analysed = {"collecting_queries": n_fns, "chains_on_self_fields": n_chains}
    out.floor("chains_on_self_fields", n_chains, 1)
    return out
