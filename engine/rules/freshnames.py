"""FRESHNAMES — the names of fresh type variables cannot be written by a user.

The checker substitutes type parameters BY NAME, and NameGenerator::fresh_type_variable makes up names from a
template.  If a generated name is a legal identifier, a user's type parameter of that name IS the solver's variable:
in a session without prelude the first fresh variable is `T0`, so `fn shift<T0: Dim>(x: T0) -> T0 = x + (0 + 2 m)`
is accepted (the parameter is silently unified with Length) although the same function with `D` is rejected — whether a
program is accepted depends on how a bound name is spelled.  The template's first character is decoded from the
format_args! template in the function's HIR and tested with the tokenizer's own is_identifier_start predicate
(abstractly evaluated, see idchars.py): it must not start an identifier."""
from core import RuleOut
from hirlib import walk
from idchars import CharEval, Unknown


def _template_first_char(fn):
    """first character of the names produced by a `format!` in fn: a literal piece, or '0' when the template starts
    with a placeholder that prints a number"""
    for x in walk(fn["body"]):
        if x.get("k") == "Lit" and isinstance(x.get("lit"), dict) and x["lit"].get("lk") == "bytestr":
            raw = bytes.fromhex(x["lit"]["v"])
            if not raw:
                continue
            n = raw[0]
            if n == 0:
                continue
            if n < 0x80 and len(raw) > n:
                return raw[1:1 + n].decode("utf-8", "replace")[0]
            return "0"  # starts with an argument placeholder (the counter)
    for x in walk(fn["body"]):
        if x.get("k") == "Lit" and isinstance(x.get("lit"), dict) and x["lit"].get("lk") == "str" and x["lit"]["v"]:
            return x["lit"]["v"][0]
    return None


def rule_freshnames(crate):
    out = RuleOut("FRESHNAMES", "generated type-variable names are not legal identifiers, so no user type parameter can collide with them")
    fn = crate.find_fn("name_generator::NameGenerator::fresh_type_variable")
    f = crate.file_of(fn)
    start = crate.find_fn("tokenizer::is_identifier_start")
    ch = _template_first_char(fn)
    if ch is None:
        out.error("anchor missing: name template of NameGenerator::fresh_type_variable")
        return out
    try:
        legal = CharEval(crate).call(start["def"], ch)
    except Unknown as u:
        out.error("anchor missing: is_identifier_start cannot be evaluated (%s)" % u)
        return out
    if legal:
        out.violation("fresh_type_variable:unwritable", f, fn["line"], "fresh type variables are named `%s<n>`, which is a legal identifier, and type parameters are substituted by name: a user's `fn shift<T0: Dim>(x: T0) -> T0 = x + (0 + 2 m)` (first definition of a `--no-prelude` session) is accepted with T0 := Length, while the same function with the parameter spelled `D` is rejected" % ch)
    else:
        out.ok("fresh_type_variable:unwritable", f, fn["line"], "generated names start with `%s`, which cannot start an identifier" % ch)
    out.analysed = {"template_first_char": "U+%04X" % ord(ch)}
    return out
