"""SCOPE — inside the DefineFunction arm of Transformer::transform_statement every expression of the function
(body and where-clauses) is resolved by the transformer clone that knows the parameters and where-locals as
shadowing names, never by the session-wide transformer."""
from core import RuleOut
from hirlib import callee, local_of, pat_variants, peel, peel_refs, place_path, strip_generics, walk

AST_S = "crate::ast::Statement"


def rule_scope(crate):
    out = RuleOut("SCOPE", "function bodies and where-clauses are name-resolved in the function's own scope")
    fn = crate.find_fn("prefix_transformer::Transformer::transform_statement")
    f = crate.file_of(fn)
    self_id = fn["params"][0]["id"]
    arm = None
    for m in walk(fn["body"]):
        if m.get("k") == "Match" and str(m.get("src")) == "Normal" and strip_generics(crate.ty(peel_refs(m["scrut"]))) == AST_S:
            for a in m["arms"]:
                if pat_variants(a["pat"], AST_S) == {"DefineFunction"}:
                    arm = a
    if arm is None:
        out.error("anchor missing: DefineFunction arm of Transformer::transform_statement")
        return out
    # the scoped clone
    clone_id = None
    for n in walk(arm["body"]):
        if n.get("k") == "Let" and "src" in n and n.get("init") is not None and n["pat"].get("k") == "Binding":
            i = peel(n["init"])
            if i.get("k") == "MethodCall" and i["name"] == "clone" and local_of(i["recv"]) == self_id:
                clone_id = n["pat"]["id"]
                clone_name = n["pat"]["name"]
    cf, cl = crate.loc(fn, arm["pat"])
    if clone_id is None:
        out.violation("transform_statement:DefineFunction:scoped-clone", cf, cl, "no per-function clone of the transformer is created: parameters would pollute (or not shadow) the session-wide names")
        return out
    # shadowing names are registered on the clone
    regs = []
    for n in walk(arm["body"]):
        if n.get("k") == "MethodCall" and n["name"] == "add_shadowing_identifier":
            p = place_path(n["recv"])
            regs.append(p[0] if p else None)
    if regs and all(r == clone_id for r in regs):
        out.ok("transform_statement:DefineFunction:shadowing-on-clone", cf, cl, "%d add_shadowing_identifier call(s), all on `%s`" % (len(regs), clone_name))
    else:
        out.violation("transform_statement:DefineFunction:shadowing-on-clone", cf, cl, "parameters / where-locals are not (only) registered on the per-function transformer clone")
    # every expression visit in the arm uses the clone
    n_visits = 0
    for n in walk(arm["body"]):
        if n.get("k") == "MethodCall" and (callee(n) or "").endswith("Transformer::transform_expression"):
            n_visits += 1
            r = local_of(n["recv"])
            vf, vl = crate.loc(fn, n)
            key = "transform_statement:DefineFunction:visit#%d" % (n_visits - 1)
            if r == clone_id:
                out.ok(key, vf, vl, "resolved with the function-scoped transformer `%s`" % clone_name)
            else:
                out.violation(key, vf, vl, "an expression of the function is resolved with the session-wide transformer instead of `%s`: a parameter or where-local named like a (prefixed) unit is read as that unit" % clone_name)
    out.analysed = {"visits": n_visits, "shadow_registrations": len(regs)}
    out.floor("visits", n_visits, 2)
    return out
