"""SCOPE — inside the DefineFunction arm of Transformer::transform_statement every expression of the function
(body and where-clauses) is resolved by the transformer clone that knows the parameters and where-locals as
shadowing names, never by the session-wide transformer."""
from core import RuleOut
from hirlib import callee, local_of, pat_variants, peel, peel_refs, place_path, strip_generics, walk

AST_S = "crate::ast::Statement"



REG_NAMES = ("add_shadowing_identifier", "add_other_identifier")


def _is_registration(crate, n, names=("add_shadowing_identifier",)):
    """a registration of a name: a direct `X.prefix_parser.add_shadowing_identifier(..)` or a call of a Transformer
    helper method whose body does that on its own `self` (`fn add_local_binding(&mut self, ..)`).  Returns the local the
    registration is applied to (root of the receiver) or False."""
    if n.get("k") != "MethodCall":
        return False
    if n["name"] in names:
        p = place_path(n["recv"])
        return (p[0] if p else None, )
    c = (callee(n) or "").split("::<")[0]
    h = crate.hir.get(c)
    if h is not None and "Transformer::" in c and h.get("params"):
        sid = h["params"][0].get("id")
        for x in walk(h["body"]):
            if x.get("k") == "MethodCall" and x["name"] in names:
                p = place_path(x["recv"])
                if p and p[0] == sid:
                    q = place_path(n["recv"])
                    return (q[0] if q else None, )
    return False

def rule_scope(crate):
    out = RuleOut("SCOPE", "function bodies and where-clauses are name-resolved in the function's own scope")
    fn = crate.find_fn("prefix_transformer::Transformer::transform_statement")
    f = crate.file_of(fn)
    self_id = fn["params"][0]["id"]
    arm = None
    for m in walk(fn["body"]):
        if m.get("k") == "Match" and str(m.get("src")) == "Normal" and strip_generics(crate.ty(peel_refs(m["scrut"]))) == AST_S:
            for a in m["arms"]:
                if pat_variants(a["pat"], AST_S) == {"DefineFunction"}:
                    arm = a
    if arm is None:
        out.error("anchor missing: DefineFunction arm of Transformer::transform_statement")
        return out
    # the scoped clone
    clone_id = None
    for n in walk(arm["body"]):
        if n.get("k") == "Let" and "src" in n and n.get("init") is not None and n["pat"].get("k") == "Binding":
            i = peel(n["init"])
            if i.get("k") == "MethodCall" and i["name"] == "clone" and local_of(i["recv"]) == self_id:
                clone_id = n["pat"]["id"]
                clone_name = n["pat"]["name"]
    cf, cl = crate.loc(fn, arm["pat"])
    if clone_id is None:
        out.violation("transform_statement:DefineFunction:scoped-clone", cf, cl, "no per-function clone of the transformer is created: parameters would pollute (or not shadow) the session-wide names")
        return out
    # shadowing names are registered on the clone
    regs = []
    for n in walk(arm["body"]):
        r_ = _is_registration(crate, n)
        if r_:
            regs.append(r_[0])
    if regs and all(r == clone_id for r in regs):
        out.ok("transform_statement:DefineFunction:shadowing-on-clone", cf, cl, "%d add_shadowing_identifier call(s), all on `%s`" % (len(regs), clone_name))
    else:
        out.violation("transform_statement:DefineFunction:shadowing-on-clone", cf, cl, "parameters / where-locals are not (only) registered on the per-function transformer clone")
    # every expression visit in the arm uses the clone
    n_visits = 0
    for n in walk(arm["body"]):
        if n.get("k") == "MethodCall" and (callee(n) or "").endswith(("Transformer::transform_expression", "Transformer::transform_define_variable")):
            n_visits += 1
            r = local_of(n["recv"])
            vf, vl = crate.loc(fn, n)
            key = "transform_statement:DefineFunction:visit#%d" % (n_visits - 1)
            if r == clone_id:
                out.ok(key, vf, vl, "resolved with the function-scoped transformer `%s`" % clone_name)
            else:
                out.violation(key, vf, vl, "an expression of the function is resolved with the session-wide transformer instead of `%s`: a parameter or where-local named like a (prefixed) unit is read as that unit" % clone_name)
    # order: every parameter is registered as a shadowing name BEFORE any expression of the function (body or
    # where-clause) is resolved — otherwise a parameter named like a unit is still that unit in those expressions
    body = peel(arm["body"])
    stmts = list(body.get("stmts", [])) + ([body["tail"]] if body.get("tail") is not None else [])
    param_ids = {q["id"] for q in walk(arm["pat"]) if q.get("k") == "Binding" and q.get("name") == "parameters"}
    # locals computed from `parameters` (`let parameter_bindings = parameters.iter().map(..)`) carry the parameters too
    changed = True
    while changed:
        changed = False
        for st in walk(arm["body"]):
            if st.get("k") == "Let" and st.get("init") is not None and st["pat"].get("k") == "Binding" and st["pat"]["id"] not in param_ids:
                if any(x.get("k") == "Path" and x["res"].get("r") == "local" and x["res"]["id"] in param_ids for x in walk(st["init"])):
                    param_ids.add(st["pat"]["id"])
                    changed = True
    reg_idx, visit_idx = [], []
    for si, st in enumerate(stmts):
        has_reg = any(_is_registration(crate, x) for x in walk(st))
        uses_params = any(x.get("k") == "Path" and x["res"].get("r") == "local" and x["res"]["id"] in param_ids for x in walk(st))
        if has_reg and uses_params:
            reg_idx.append(si)
        if any(x.get("k") == "MethodCall" and (callee(x) or "").endswith(("Transformer::transform_expression", "Transformer::transform_define_variable")) for x in walk(st)):
            visit_idx.append(si)
    if not reg_idx:
        out.violation("transform_statement:DefineFunction:params-before-visits", cf, cl, "the parameters are not registered as shadowing identifiers on the function-scoped transformer")
    elif visit_idx and max(reg_idx) < min(visit_idx):
        out.ok("transform_statement:DefineFunction:params-before-visits", cf, cl, "parameters are registered (statement %d) before the first expression of the function is resolved (statement %d)" % (max(reg_idx), min(visit_idx)))
    elif visit_idx:
        out.violation("transform_statement:DefineFunction:params-before-visits", cf, cl, "an expression of the function (body or where-clause) is resolved before the parameters are registered as shadowing names: a parameter named like a unit (`m`, `s`, `dozen`) is read as that unit there")
    # sequential where-clauses: the type checker adds a where-local to its environment AFTER elaborating its definition
    # and the compiler binds it after compiling the initializer (BINDORDER); the transformer must do the same — a local
    # registered before its own definition is visited makes `where h = 2 h` mean "h = 2 × the local h" for the
    # transformer and "2 hours" for the checker (accepted, then `unreachable!("Unknown identifier")` in the compiler)
    loc_ids = {q["id"] for q in walk(arm["pat"]) if q.get("k") == "Binding" and q.get("name") == "local_variables"}
    order = {id(n): i for i, n in enumerate(walk(arm["body"]))}
    n_loc = 0
    for lp in walk(arm["body"]):
        if not (lp.get("k") == "Match" and str(lp.get("src", "")).startswith("ForLoop") and lp["scrut"].get("k") == "Call" and (callee(lp["scrut"]) or "").endswith("IntoIterator::into_iter")):
            continue
        if not any(x.get("k") == "Path" and x["res"].get("r") == "local" and x["res"]["id"] in loc_ids for x in walk(lp["scrut"])):
            continue
        regs_ = [x for x in walk(lp) if _is_registration(crate, x, REG_NAMES)]
        visits_ = [x for x in walk(lp) if x.get("k") == "MethodCall" and (callee(x) or "").endswith(("Transformer::transform_expression", "Transformer::transform_define_variable"))]
        for r in regs_:
            n_loc += 1
            rf, rl = crate.loc(fn, r)
            if any(order[id(v)] < order[id(r)] for v in visits_):
                out.ok("transform_statement:DefineFunction:where-local-after-its-definition", rf, rl, "a where-local is registered after its own definition has been transformed")
            else:
                out.violation("transform_statement:DefineFunction:where-local-after-its-definition", rf, rl, "the where-locals are registered as identifiers before their own definitions are transformed: in `fn f(x) = x * h where h = 2 h` the right-hand `h` is the local for the transformer but the unit hour for the type checker (which defines the locals one after the other): the definition is accepted and the compiler panics (`Unknown identifier 'h'`)")
    if n_loc == 0 and loc_ids:
        # registration through transform_define_variable (which visits first, then registers) is fine as well
        if any(x.get("k") == "MethodCall" and (callee(x) or "").endswith("Transformer::transform_define_variable") for x in walk(arm["body"])):
            out.ok("transform_statement:DefineFunction:where-local-after-its-definition", cf, cl, "where-locals go through transform_define_variable")
        else:
            out.error("anchor missing: registration of the where-locals in the DefineFunction arm of transform_statement")
    out.analysed = {"visits": n_visits, "shadow_registrations": len(regs)}
    out.floor("visits", n_visits, 2)
    return out
