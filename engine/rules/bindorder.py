"""BINDORDER — when a compile-time binding becomes visible, relative to the code that is compiled around it.

The bytecode compiler resolves a name to a stack slot by searching `self.locals` at the moment the name's use is
compiled.  Two ordering facts are therefore necessary for "every name refers to its innermost binding":

  define-variable   the initializer of `let x = e` / `where x = e` is compiled BEFORE `x` is pushed on the scope
                    (an `x` inside `e` is the previous binding; the new slot does not exist yet at run time);
  define-function   scope opened -> parameters pushed -> where-locals compiled -> body compiled -> Return emitted
                    -> scope closed.  Parameters occupy the first slots of the frame by the calling convention,
                    so they must be pushed before any where-local, and all of them before the body.

Decided on the MIR (dominators) for compile_define_variable and on the statement order of the DefineFunction arm
of compile_statement."""
from core import RuleOut
from hirlib import callee, pat_variants, peel, peel_refs, place_path, strip_generics, walk
from mirlib import Mir

STMT = "crate::typed_ast::Statement"


def _is_locals_place(e):
    """self.locals[...] (push of a Local) or self.locals (push/pop of a scope)"""
    e = peel_refs(e)
    indexed = False
    if isinstance(e, dict) and e.get("k") == "Index":
        indexed = True
        e = peel_refs(e["e"] if "e" in e else e.get("base"))
    p = place_path(e)
    if p and p[1] == "self" and p[2] == ["locals"]:
        return "slot" if indexed else "scope"
    return None


def rule_bindorder(crate):
    out = RuleOut("BINDORDER", "a binding becomes visible to the slot search only after its initializer is compiled; a function's frame is laid out parameters -> where-locals -> body")
    # ---- compile_define_variable (MIR dominators)
    path = "bytecode_interpreter::BytecodeInterpreter::compile_define_variable"
    hfn = crate.find_fn(path)
    f = crate.file_of(hfn)
    m = Mir(crate, crate.find_mir(path))
    init_blocks, bind_blocks = [], []
    for i, blk in enumerate(m.blocks):
        t = blk["term"]
        if t.get("k") != "call":
            continue
        fn = t["f"].get("inst") or t["f"].get("fn") or ""
        if fn.endswith("BytecodeInterpreter::compile_expression"):
            init_blocks.append((i, t["s"][0]))
        elif "Vec" in fn and fn.endswith("::push") and "Local" in (crate.types[m.locals[t["args"][0]["pl"]["l"]]["t"]] if t["args"] and t["args"][0].get("pl") else ""):
            bind_blocks.append((i, t["s"][0]))
    if not init_blocks or not bind_blocks:
        out.error("anchor missing in compile_define_variable: %d compile_expression call(s), %d push(es) of a Local" % (len(init_blocks), len(bind_blocks)))
    for n, (b, line) in enumerate(bind_blocks):
        key = "compile_define_variable:bind#%d:after-initializer" % n
        doms = [ib for (ib, _l) in init_blocks if ib != b and m.dominates(ib, b)]
        if doms:
            out.ok(key, f, line, "the push of the new Local is dominated by the compile_expression call of its initializer")
        else:
            out.violation(key, f, line, "the new Local is pushed on the scope on a path that has not yet compiled the initializer: a use of the same name inside `let x = … x …` / `where x = … x …` resolves to the slot being defined (not yet filled) instead of the previous binding")
    # ---- DefineFunction arm of compile_statement (statement order)
    cs = crate.find_fn("bytecode_interpreter::BytecodeInterpreter::compile_statement")
    arm = None
    for mt in walk(cs["body"]):
        if mt.get("k") == "Match" and str(mt.get("src")) == "Normal" and strip_generics(crate.ty(peel_refs(mt["scrut"]))) == STMT:
            for a in mt["arms"]:
                if pat_variants(a["pat"], STMT) == {"DefineFunction"} and any(
                    x.get("k") == "MethodCall" and (callee(x) or "").endswith("BytecodeInterpreter::compile_expression") for x in walk(a["body"])
                ):
                    arm = a
    if arm is None:
        out.error("anchor missing: DefineFunction arm (with body) of compile_statement")
        return out
    body = peel(arm["body"])
    stmts = list(body.get("stmts", [])) + ([body["tail"]] if body.get("tail") is not None else [])
    events = []  # (stmt index, kind, node)
    for si, st in enumerate(stmts):
        for x in walk(st):
            if x.get("k") != "MethodCall":
                continue
            c = callee(x) or ""
            kind = None
            if x["name"] == "push":
                w = _is_locals_place(x["recv"])
                kind = {"scope": "scope-open", "slot": "param-bind"}.get(w)
            elif x["name"] == "pop" and _is_locals_place(x["recv"]) == "scope":
                kind = "scope-close"
            elif x["name"] == "insert" and (place_path(x["recv"]) or (0, "", []))[1:] == ("self", ["functions"]):
                kind = "fn-register"
            elif c.endswith("BytecodeInterpreter::compile_define_variable"):
                kind = "where-locals"
            elif c.endswith("BytecodeInterpreter::compile_expression"):
                kind = "body"
            elif c.endswith("vm::Vm::add_op"):
                a0 = peel(x["args"][0])
                if a0.get("k") == "Path" and a0["res"].get("variant") == "Return":
                    kind = "return"
            if kind:
                events.append((si, kind, x))
    order = ["scope-open", "param-bind", "where-locals", "body", "return", "scope-close"]
    by_kind = {}
    for (si, kind, x) in events:
        by_kind.setdefault(kind, []).append((si, x))
    # the parameters may be put into the scope in one step: `self.locals.push(<vec built from parameters>)`
    if "param-bind" not in by_kind and "scope-open" in by_kind:
        param_ids = {q["id"] for q in walk(arm["pat"]) if q.get("k") == "Binding" and q.get("name") == "parameters"}
        from sym import let_inits

        inits = let_inits(cs)

        def from_params(e, depth=0):
            for y in walk(e):
                if y.get("k") == "Path" and y["res"].get("r") == "local":
                    if y["res"]["id"] in param_ids:
                        return True
                    if y["res"]["id"] in inits and depth < 3 and from_params(inits[y["res"]["id"]], depth + 1):
                        return True
            return False

        for (si, x) in by_kind["scope-open"]:
            if x["args"] and from_params(x["args"][0]):
                by_kind.setdefault("param-bind", []).append((si + 0.5, x))
    missing = [k for k in order if k not in by_kind]
    if missing:
        out.error("anchor missing in the DefineFunction arm of compile_statement: no %s event" % ", ".join(missing))
        return out
    for a, b in zip(order, order[1:]):
        la = max(si for si, _ in by_kind[a])
        fb = min(si for si, _ in by_kind[b])
        node = by_kind[b][0][1]
        ff, ll = crate.loc(cs, node)
        key = "compile_statement:DefineFunction:%s<%s" % (a, b)
        if la < fb:
            out.ok(key, ff, ll, "every %s statement precedes every %s statement" % (a, b))
        else:
            out.violation(key, ff, ll, "%s must come before %s in the DefineFunction arm (frame layout: parameters, where-locals, body): a name would resolve to the wrong slot or not at all" % (a, b))
    # a function may refer to ITSELF as a value inside its own body (`fn f(n) = … app(f, n - 1)`): the compile-time
    # table consulted for function values (`self.functions`) must know the name before the body is compiled, like the
    # VM's own table does (begin_function) for direct recursive calls
    if "fn-register" in by_kind:
        first_compile = min(si for k2 in ("where-locals", "body") for si, _ in by_kind[k2])
        reg = min(si for si, _ in by_kind["fn-register"])
        node = by_kind["fn-register"][0][1]
        ff, ll = crate.loc(cs, node)
        if reg < first_compile:
            out.ok("compile_statement:DefineFunction:fn-register<body", ff, ll, "the function's name is entered into `self.functions` before its where-clauses and body are compiled")
        else:
            out.violation("compile_statement:DefineFunction:fn-register<body", ff, ll, "the function's name is entered into `self.functions` only AFTER its body has been compiled: a reference to the function as a value inside its own body (`fn f(n) = … app(f, n - 1)`) finds no such identifier and the compiler hits `unreachable!(\"Unknown identifier\")`")
    else:
        out.error("anchor missing: `self.functions.insert(..)` in the DefineFunction arm of compile_statement")
    out.analysed = {"define_variable_inits": len(init_blocks), "define_variable_binds": len(bind_blocks), "define_function_events": len(events)}
    out.floor("define_function_events", len(events), 5)
    return out
