"""Frozen table of traversal families (R3 TRAV), confirmed by reading.

A newly appearing traversal that is not listed is only reported as advisory.
"""
from trav import Family

AST_E = "crate::ast::Expression"
AST_S = "crate::ast::Statement"
AST_SP = "crate::ast::StringPart"
AST_DV = "crate::ast::DefineVariable"
T_E = "crate::typed_ast::Expression"
T_S = "crate::typed_ast::Statement"
T_SP = "crate::typed_ast::StringPart"
T_DV = "crate::typed_ast::DefineVariable"
TS = "crate::typechecker::type_scheme::TypeScheme"
TYPE = "crate::typed_ast::Type"
DTYPE = "crate::typed_ast::DType"
SINFO = "crate::typed_ast::StructInfo"
TANN = "crate::ast::TypeAnnotation"
TEXP = "crate::ast::TypeExpression"
DECO = "crate::decorator::Decorator"

FAMILIES = {}


def _add(f):
    FAMILIES[f.name] = f


# --- name resolution of prefixed units (C13 iv, C08 c)
_add(
    Family(
        "transform",
        functions=[
            "prefix_transformer::Transformer::transform_expression",
            "prefix_transformer::Transformer::transform_statement",
            "prefix_transformer::Transformer::transform_define_variable",
        ],
        enums=[AST_E, AST_S, AST_SP],
        payload=[AST_E],
        structs=[AST_DV],
        visit=[r"Transformer::transform_expression$", r"Transformer::transform_define_variable$"],
        min_arms=21,
    )
)

# --- elaboration: every sub-expression gets a typed node (C02 iii)
_add(
    Family(
        "elaborate",
        functions=[
            "typechecker::TypeChecker::elaborate_expression",
            "typechecker::TypeChecker::elaborate_statement",
            "typechecker::TypeChecker::elaborate_define_variable",
            "typechecker::TypeChecker::_elaborate_inner",
        ],
        enums=[AST_E, AST_S, AST_SP],
        payload=[AST_E],
        structs=[AST_DV, "crate::typechecker::ElaborationDefinitionArgs"],
        visit=[
            r"TypeChecker::elaborate_expression$",
            r"TypeChecker::elaborate_define_variable$",
            r"TypeChecker::_elaborate_inner$",
        ],
        min_arms=20,
    )
)

# --- substitution reaches every typed node (C01 ii, C16 i)
_add(
    Family(
        "apply_substitution",
        functions=[("typechecker::substitutions::ApplySubstitution", "apply")],
        enums=[T_E, T_S, T_SP],
        payload=[T_E, TS, SINFO],
        structs=[T_DV],
        visit=[r"ApplySubstitution>?::apply$"],
        min_arms=23,
    )
)

_add(
    Family(
        "for_all_type_schemes",
        functions=[("traversal::ForAllTypeSchemes", "for_all_type_schemes")],
        enums=[T_E, T_S, T_SP],
        payload=[T_E, TS, SINFO],
        structs=[T_DV],
        visit=[r"ForAllTypeSchemes>?::for_all_type_schemes$"],
        callback_params=["f"],
        min_arms=23,
    )
)

_add(
    Family(
        "for_all_expressions",
        functions=[("traversal::ForAllExpressions", "for_all_expressions")],
        enums=[T_E, T_S, T_SP],
        payload=[T_E],
        structs=[T_DV],
        visit=[r"ForAllExpressions>?::for_all_expressions$"],
        min_arms=23,
    )
)

# --- bytecode compiler: every sub-expression is compiled (C09 ii)
_add(
    Family(
        "compile",
        functions=[
            "bytecode_interpreter::BytecodeInterpreter::compile_expression",
            "bytecode_interpreter::BytecodeInterpreter::compile_statement",
            "bytecode_interpreter::BytecodeInterpreter::compile_define_variable",
        ],
        enums=[T_E, T_S, T_SP],
        payload=[T_E],
        structs=[T_DV],
        visit=[r"BytecodeInterpreter::compile_expression$", r"BytecodeInterpreter::compile_define_variable$"],
        exempt={
            ("BytecodeInterpreter::compile_statement", "DefineFunction", "local_variables"): "foreign-function arm (`body: None`): a body-less declaration cannot carry a `where` clause (the parser reads `where` only after `=`), so there is nothing to compile",
            ("BytecodeInterpreter::compile_statement", "ProcedureCall", "args"): "`type(expr)` arm: the procedure prints the static type only; the argument is deliberately not evaluated (documented behaviour of `type`)",
        },
        min_arms=29,
    )
)

# --- pretty printer: every child is printed (C15 i)
_RT = "printed through the `readable_type` markup that `Statement::update_readable_types` computes from this same annotation (create_readable_type → annotation.pretty_print())"
_add(
    Family(
        "pretty_print",
        functions=[
            "<crate::typed_ast::Expression<'_> as crate::pretty_print::PrettyPrint>::pretty_print",
            "<crate::typed_ast::Statement<'_> as crate::pretty_print::PrettyPrint>::pretty_print",
            "<crate::typed_ast::StringPart<'_> as crate::pretty_print::PrettyPrint>::pretty_print",
            "<crate::ast::TypeAnnotation as crate::pretty_print::PrettyPrint>::pretty_print",
            "<crate::ast::TypeExpression as crate::pretty_print::PrettyPrint>::pretty_print",
            "ast::with_parens",
        ],
        enums=[T_E, T_S, T_SP, TANN, TEXP],
        payload=[T_E, T_SP, TANN, TEXP],
        structs=[T_DV],
        visit=[
            r"PrettyPrint>?::pretty_print$",
            r"typed_ast::pretty_print_binop$",
            r"typed_ast::with_parens(_liberal)?$",
            r"ast::with_parens$",
            r"typed_ast::pretty_print_function_signature$",
        ],
        exempt={
            ("<Statement as PrettyPrint>::pretty_print", "DefineVariable", "type_annotation"): _RT,
            ("<Statement as PrettyPrint>::pretty_print", "DefineFunction", "return_type_annotation"): _RT,
            ("<Statement as PrettyPrint>::pretty_print", "DefineDerivedUnit", "type_annotation"): _RT,
        },
        min_arms=36,
    )
)

# --- substitution inside types (C01 ii): Type / StructInfo / TypeScheme / QualifiedType
_add(
    Family(
        "apply_substitution_types",
        functions=["<crate::typed_ast::Type as crate::typechecker::substitutions::ApplySubstitution>::apply"],
        enums=[TYPE],
        payload=[TYPE, DTYPE],
        structs=[SINFO],
        visit=[r"ApplySubstitution>?::apply$"],
        min_arms=9,
    )
)

# --- questions asked about a whole type (C16/C02): which variables occur in it, does it contain x, instantiate it.
# TypeScheme::generalize keeps a `Dim` bound only for variables that `contains` finds; a traversal that forgets one
# position of one variant (the return type of a function type) silently drops bounds of inferred signatures.
_add(
    Family(
        "type_queries",
        functions=["crate::typed_ast::Type::type_variables", "crate::typed_ast::Type::contains", "crate::typed_ast::Type::instantiate"],
        enums=[TYPE],
        payload=[TYPE, DTYPE],
        structs=[],
        visit=[r"typed_ast::(Type|DType)::(type_variables|contains|instantiate)$"],
        min_arms=12,
    )
)

# --- substitution reaches the types recorded in the type-checker environment (identifiers, functions, ans/_)
_add(
    Family(
        "apply_substitution_env",
        functions=["<crate::typechecker::environment::Environment as crate::typechecker::substitutions::ApplySubstitution>::apply"],
        enums=["crate::typechecker::environment::IdentifierKind"],
        payload=[TS, TYPE],
        structs=["crate::typechecker::environment::FunctionSignature"],
        visit=[r"ApplySubstitution>?::apply$"],
        min_arms=3,
    )
)
