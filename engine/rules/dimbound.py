"""DIMBOUND — a type parameter that is used as a dimension needs its `: Dim` bound, also when it comes from an annotation.

A type parameter written in an annotation (`fn f<A>(x: A)`) enters the checker as the CLOSED type
`Type::Dimension(DType[TPar A])`.  IsDType on a closed dimension type is resolved on the spot (TRIVTAB), so nothing
remembers that A was required to be a dimension, and the check that reports a missing `Dim` bound — it looks for the
parameter among the dtype variables the solver returns — never sees it: `fn twice<A>(x: A) -> A = x + x` is accepted
and `twice("a")` panics in the VM, while the un-annotated twin is inferred as `<A: Dim>`.  Two clauses:

  funnel   TypeChecker::enforce_dtype, through which every "this operand must be a dimension" requirement goes, adds a
           dtype constraint for `Type::TPar(name)` for the TPar factors of a dimension type;
  bypass   every success-path use of the free function `dtype(&operand)` (which extracts the DType of a closed operand)
           in elaborate_expression is accompanied, in the same block, by enforce_dtype — the closed-operand fast path of
           `*` and `/` must not bypass the funnel."""
from core import RuleOut
from errd import parent_map
from hirlib import callee, ctor_variant, peel, peel_refs, walk


def rule_dimbound(crate):
    out = RuleOut("DIMBOUND", "every requirement 'this operand is a dimension' records the type parameters of the operand's type, so a missing `Dim` bound is reported")
    ed = crate.find_fn("typechecker::TypeChecker::enforce_dtype")
    f = crate.file_of(ed)
    # ---- funnel
    records = False
    for x in walk(ed["body"]):
        if x.get("k") in ("MethodCall", "Call") and (callee(x) or "").split("::")[-1] in ("add_dtype_constraint", "add"):
            for y in walk(x):
                v = ctor_variant(y) if y.get("k") in ("Call", "Struct", "Path") else None
                if v and v[0].endswith("typed_ast::Type") and v[1] == "TPar":
                    records = True
    mentions_factor = any(p.get("variant") == "TPar" and str(p.get("adt", "")).endswith("DTypeFactor") for x in walk(ed["body"]) for p in ([x] if x.get("k") in ("Struct", "TupleStruct", "Path") else []))
    if records and mentions_factor:
        out.ok("enforce_dtype:records-type-parameters", f, ed["line"], "enforce_dtype adds IsDType(TPar) for the type-parameter factors of a dimension type")
    else:
        out.violation("enforce_dtype:records-type-parameters", f, ed["line"], "enforce_dtype only adds IsDType(type), which is dropped on the spot for a closed dimension type such as `A` from an annotation: the `Dim`-bound check never learns that the type parameter was used as a dimension — `fn twice<A>(x: A) -> A = x + x` is accepted and `twice('a')` panics in the VM (`Expected quantity to be on the top of the stack`)")
    # ---- bypass
    ee = crate.find_fn("typechecker::TypeChecker::elaborate_expression")
    pm = parent_map(ee["body"])
    n = 0
    for x in walk(ee["body"]):
        if x.get("k") != "Call" or (callee(x) or "") != "crate::typechecker::dtype":
            continue
        # enclosing block
        cur, blk = x, None
        while id(cur) in pm:
            cur = pm[id(cur)]
            if cur.get("k") == "Block" and cur.get("stmts"):
                blk = cur
                break
        if blk is None:
            continue
        # error-construction block: ends in `return Err(..)`;   test: the Result is not `?`-propagated
        diverges = any(st.get("k") in ("Semi", "Expr") and peel(st["e"]).get("k") == "Ret" for st in blk["stmts"]) or (blk.get("tail") is not None and peel(blk["tail"]).get("k") == "Ret")
        p = pm.get(id(x))
        propagated = False
        hops = 0
        while p is not None and hops < 4:
            if p.get("k") == "Match" and str(p.get("src", "")).startswith("TryDesugar"):
                propagated = True
                break
            if p.get("k") == "Call" and (callee(p) or "").endswith("Try::branch"):
                p = pm.get(id(p))
                hops += 1
                continue
            break
        if diverges or not propagated:
            continue
        n += 1
        xf, xl = crate.loc(ee, x)
        key = "elaborate_expression:dtype#%d" % (n - 1)
        if any(y.get("k") == "MethodCall" and (callee(y) or "").endswith("TypeChecker::enforce_dtype") for y in walk(blk)):
            out.ok(key, xf, xl, "the operand's type also goes through enforce_dtype in the same block")
        else:
            out.violation(key, xf, xl, "the DType of a closed operand is taken with `dtype(..)?` on a success path without enforce_dtype: a type parameter without `Dim` bound passes (`fn g<A>(x: A) = x * 2`, `g('a')` panics in the VM)")
    out.analysed = {"dtype_uses_on_success_paths": n}
    out.floor("dtype_uses_on_success_paths", n, 2)
    return out


def rule_hasfield(crate):
    """HASFIELD — a field-access constraint is solved as soon as the struct constructor is known.  Requiring the whole
    struct type to be closed rejects every field access on a generic struct whose type argument is still open
    (`P { x: 0 }.x`, `fn get(v) = P { x: v }.x`), while the annotated twin is accepted: a consistent program is rejected
    and adding/removing annotations changes acceptance."""
    from hirlib import pat_variants

    out = RuleOut("HASFIELD", "HasField constraints do not wait for the struct type to be closed")
    fn = crate.find_fn("constraints::Constraint::try_satisfy")
    f = crate.file_of(fn)
    n = 0
    for m in walk(fn["body"]):
        if m.get("k") != "Match" or str(m.get("src")) != "Normal":
            continue
        for a in m["arms"]:
            if pat_variants(a["pat"], "crate::typechecker::constraints::Constraint") != {"HasField"}:
                continue
            n += 1
            af, al = crate.loc(fn, a["pat"])
            solves = any(y.get("k") in ("Call", "MethodCall") and "Satisfied" in (callee(y) or "") for y in walk(a["body"]))
            if not solves:
                continue
            closed = "guard" in a and any(y.get("k") == "MethodCall" and y["name"] == "is_closed" for y in walk(a["guard"]))
            if closed:
                out.violation("try_satisfy:HasField:waits-for-closed", af, al, "the arm that solves HasField is guarded by `struct_type.is_closed()`: with an open type argument the constraint is never solved — `struct P<D: Dim> { x: D }`, `let p0 = P { x: 0 }`, `p0.x + 1 m` is rejected with 'Could not solve … HasField(P<T376> …)'")
            else:
                out.ok("try_satisfy:HasField:waits-for-closed", af, al, "solved whenever the struct constructor is known")
    out.analysed = {"hasfield_arms": n}
    out.floor("hasfield_arms", n, 1)
    return out
