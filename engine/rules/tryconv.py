"""TRYCONV — no input-dependent integer conversion is unwrapped.

`x.try_into().unwrap()` / `u32::try_from(x).unwrap()` is a panic for every x outside the target type.  It is fine
when x is a constant (`i8::MAX.try_into().unwrap()`), or when x was clamped into the target's range on every path
(`let n = n.min(<constant>)` / `.clamp(..)` before the conversion), or when the Result is propagated or branched on.
Everything else is an internal panic reachable by whatever input makes x large — the classic place is error RENDERING
(the number of fractional digits of a tolerance such as 1e-200), which the property explicitly includes."""
from core import RuleOut
from errd import classify_consumer, parent_map
from hirlib import callee, local_of, peel, peel_refs, walk

# consumers of the Result that cannot panic (this rule is about panics, not about dropped errors)
NO_PANIC = ("unwrap_or", "unwrap_or_default", "unwrap_or_else", "ok", "is_ok", "is_err", "err")
INTS = {"u8", "u16", "u32", "u64", "u128", "usize", "i8", "i16", "i32", "i64", "i128", "isize"}


def _is_const(e, inits, depth=0):
    e = peel_refs(e)
    k = e.get("k")
    if k == "Lit":
        return True
    if k == "Path" and e["res"].get("r") == "def" and str(e["res"].get("dk", "")).startswith(("AssocConst", "Const")):
        return True
    if k == "MethodCall" and e["name"] in ("unwrap", "expect", "try_into", "into") and depth < 4:
        return _is_const(e["recv"], inits, depth + 1)
    if k == "Call" and depth < 4 and e.get("args") and (callee(e) or "").endswith(("try_from", "from")):
        return _is_const(e["args"][0], inits, depth + 1)
    if k == "Path" and e["res"].get("r") == "local" and e["res"]["id"] in inits and depth < 4:
        return _is_const(inits[e["res"]["id"]], inits, depth + 1)
    return False


def _clamped(e, inits, depth=0):
    e = peel_refs(e)
    if e.get("k") == "MethodCall" and e["name"] in ("min", "clamp") and e.get("args"):
        return _is_const(e["args"][-1], inits)
    if e.get("k") == "Path" and e["res"].get("r") == "local" and e["res"]["id"] in inits and depth < 4:
        return _clamped(inits[e["res"]["id"]], inits, depth + 1)
    return False


def rule_tryconv(crate, exempt=None):
    exempt = exempt or {}
    out = RuleOut("TRYCONV", "no integer conversion of an input-dependent value is unwrapped")
    n = 0
    for d, b in sorted(crate.hir.items()):
        if "::tests::" in d or "::test::" in d:
            continue
        f = crate.file_of(b)
        if not f.startswith("numbat/src"):
            continue
        sites = []
        for x in walk(b["body"]):
            if x.get("k") not in ("MethodCall", "Call"):
                continue
            leaf = (callee(x) or "").split("::")[-1]
            if leaf not in ("try_into", "try_from"):
                continue
            t = crate.ty(x)
            if not t.startswith("std::result::Result<") or "TryFromIntError" not in t:
                continue
            sites.append(x)
        if not sites:
            continue
        pm = parent_map(b["body"])
        inits = {}
        # the binding visible at a use is the LAST `let` of that name before it; ids are unique per binding, so a map is enough
        for s_ in walk(b["body"]):
            if s_.get("k") == "Let" and s_.get("init") is not None and s_["pat"].get("k") == "Binding":
                inits[s_["pat"]["id"]] = s_["init"]
        short = d.replace("crate::", "")
        for i, x in enumerate(sites):
            n += 1
            ff, ll = crate.loc(b, x)
            operand = x["recv"] if x.get("k") == "MethodCall" else x["args"][0]
            src = crate.ty(peel_refs(operand))
            tgt = crate.ty(x).split("<", 1)[1].split(",")[0]
            key = "%s:%s->%s#%d" % (short, src, tgt, i)
            verdict, why = classify_consumer(x, pm, crate)
            if verdict == "violation" and any(("`.%s()`" % nm) in why for nm in NO_PANIC):
                out.ok(key, ff, ll, "an out-of-range value takes a fallback instead of panicking (%s)" % why.split(" ")[0])
            elif verdict != "violation":
                out.ok(key, ff, ll, "the conversion result is handled (%s)" % why)
            elif _is_const(operand, inits):
                out.ok(key, ff, ll, "constant operand")
            elif _clamped(operand, inits):
                out.ok(key, ff, ll, "the operand is clamped to a constant bound before the conversion")
            elif short in exempt:
                out.exempt(key, ff, ll, exempt[short])
            else:
                out.violation(key, ff, ll, "`%s -> %s` conversion of a value that is neither constant nor clamped is unwrapped in %s: an out-of-range value (e.g. the 200 fractional digits of the tolerance in `assert_eq(1, 2, 1e-200)`, needed only to RENDER the failure) is an internal panic" % (src, tgt, short))
    out.analysed = {"integer_conversions": n}
    out.floor("integer_conversions", n, 4)
    return out
