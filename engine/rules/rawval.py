"""RAWVAL — the bare number of a quantity is read only where its unit cannot matter.

`Quantity::unsafe_value()` drops the unit.  That is sound only if
  N  the quantity has just been brought into a known unit (convert_to, to_base_unit_representation, full_simplify,
     simplify_quantity — directly or through a `let`), or
  P  the same function also reads `.unit()` of the very same quantity (value and unit travel together: abs,
     ApplyPrefix, SetUnitConstant), or
  U  the number only feeds a unit-insensitive test (is_nan, is_infinite, is_finite), or
  —  the site is exempt with a stated reason (value_of IS the documented raw accessor).
Everything else reads a number whose meaning depends on a unit it does not look at: `chr(6500 %)` is U+1964 instead of
"A" although `6500 % == 65`, `str_slice(0, 300 %, "abcdef")` is "" — a Scalar argument is to be read with
scalar_arg! / as_scalar, like every other FFI function does."""
from core import RuleOut
from errd import parent_map
from hirlib import callee, local_of, peel, peel_refs, place_path, walk

NORMALISERS = ("Quantity::convert_to", "Quantity::to_base_unit_representation", "Quantity::full_simplify", "Quantity::full_simplify_with_registry", "Vm::simplify_quantity")
INSENSITIVE = ("is_nan", "is_infinite", "is_finite")
SKIP_FILES = ("numbat/src/quantity.rs", "numbat/src/number.rs")


def _inits(fn):
    m = {}
    for n in walk(fn["body"]):
        if n.get("k") == "Let" and n.get("init") is not None:
            for b in walk(n["pat"]):
                if b.get("k") == "Binding":
                    m[b["id"]] = n["init"]
    return m


def _normalised(e, inits, depth=0):
    for x in walk(e):
        if x.get("k") in ("MethodCall", "Call") and (callee(x) or "").endswith(NORMALISERS):
            return (callee(x) or "").split("::")[-1]
        if x.get("k") == "Path" and x["res"].get("r") == "local" and x["res"]["id"] in inits and depth < 4:
            r = _normalised(inits[x["res"]["id"]], inits, depth + 1)
            if r:
                return r
    return None


def rule_rawval(crate, exempt=None):
    exempt = exempt or {}
    out = RuleOut("RAWVAL", "the bare number of a quantity is read only after a conversion, together with its unit, or for a unit-insensitive test")
    n = 0
    files = set()
    for d, b in sorted(crate.hir.items()):
        if "::tests::" in d or "::test::" in d:
            continue
        f = crate.file_of(b)
        if f.endswith(SKIP_FILES) or not f.startswith("numbat/src"):
            continue
        sites = [x for x in walk(b["body"]) if x.get("k") == "MethodCall" and (callee(x) or "").endswith("Quantity::unsafe_value")]
        if not sites:
            continue
        files.add(f)
        inits = _inits(b)
        pm = parent_map(b["body"])
        short = d.replace("crate::", "")
        # closures are separate bodies in the facts?  they are nested nodes here; the key uses the owning function
        short = short.split("::{closure")[0]
        unit_reads = set()
        for x in walk(b["body"]):
            if x.get("k") == "MethodCall" and (callee(x) or "").endswith("Quantity::unit"):
                lid = local_of(x["recv"])
                if lid is not None:
                    unit_reads.add(lid)
                    # `let defining_unit = q.unit()` keeps q paired
        for idx, s in enumerate(sites):
            n += 1
            ff, ll = crate.loc(b, s)
            key = "%s#%d" % (short, idx)
            why = _normalised(s["recv"], inits)
            if why:
                out.ok(key, ff, ll, "read after %s" % why)
                continue
            lid = local_of(s["recv"])
            if lid is not None and lid in unit_reads:
                out.ok(key, ff, ll, "the unit of the same quantity is read in this function")
                continue
            # unit-insensitive consumer?
            cur, insens = s, False
            for _ in range(6):
                p = pm.get(id(cur))
                if p is None:
                    break
                if p.get("k") == "MethodCall" and p.get("recv") is cur:
                    if p["name"] in INSENSITIVE:
                        insens = True
                        break
                    cur = p
                    continue
                if p.get("k") in ("AddrOf", "Unary", "DropTemps", "Use"):
                    cur = p
                    continue
                break
            if insens:
                out.ok(key, ff, ll, "only feeds a unit-insensitive test")
                continue
            ex = exempt.get(short)
            if ex:
                out.exempt(key, ff, ll, ex)
                continue
            out.violation(key, ff, ll, "`unsafe_value()` in %s reads the bare number of a quantity that was neither converted to a known unit nor has its unit looked at: a Scalar argument with a unit of another size (`6500 %%` = 65, `0.25 dozen` = 3) is taken at face value (`chr(6500 %%)` is U+1964, not 'A')" % short)
    out.analysed = {"unsafe_value_sites": n, "files": len(files)}
    out.floor("unsafe_value_sites", n, 12)
    return out
