"""STRBYTE — positions in strings that cross the FFI boundary are counted in characters, never in bytes.

Numbat strings are sequences of characters (`chr`/`ord` work on code points, string literals hold arbitrary Unicode).
The library's search functions are written in Numbat on top of two primitives, str_length and str_slice, and walk a
string one position at a time (`str_slice(1, len, s)`).  If the primitives count BYTES, the first step inside a
multi-byte character yields "" (an invalid byte range), which the callers take for "end of string": everything behind
the first non-ASCII character is invisible to str_find / str_contains / str_replace / split
(`str_contains("b", "äb")` is false).

So in the FFI functions (numbat/src/ffi/*.rs) no byte-offset API of str may be applied to a program string:
len, get / get_unchecked, range indexing, split_at, find / rfind / match_indices (they return byte offsets), bytes /
as_bytes, is_char_boundary.  Character-based code (`chars()`, `char_indices()` used only to pick boundaries) is fine."""
from core import RuleOut
from hirlib import callee, strip_generics, walk

DENY = ("::len", "::get", "::get_unchecked", "::split_at", "::split_at_checked", "::find", "::rfind", "::match_indices", "::rmatch_indices", "::bytes", "::as_bytes", "::is_char_boundary", "::byte_offset")
STRINGY = ("compact_str::CompactString", "str", "std::string::String", "alloc::string::String")


def _is_string_ty(t):
    t = strip_generics(t.replace("&mut ", "").replace("&", "").strip())
    t = t.replace("'a ", "").strip()
    return t in STRINGY or t.endswith("::CompactString")


def rule_strbyte(crate, exempt=None):
    exempt = exempt or {}
    out = RuleOut("STRBYTE", "FFI string functions exchange positions and lengths in characters: no byte-offset API on program strings")
    n_fns = n_sites = 0
    for d, b in sorted(crate.hir.items()):
        f = crate.file_of(b)
        if "/src/ffi/" not in f or "::tests::" in d:
            continue
        touches_strings = any(x.get("k") == "MethodCall" and x["name"] in ("unsafe_as_string",) for x in walk(b["body"]))
        if not touches_strings:
            continue
        n_fns += 1
        short = d.replace("crate::", "")
        idx = 0
        for x in walk(b["body"]):
            hit = None
            if x.get("k") == "MethodCall":
                c = callee(x) or ""
                if c.endswith(DENY) and ("str>::" in c or "CompactString::" in c or "String::" in c or c.startswith("core::str::")):
                    if _is_string_ty(crate.ty(x["recv"])) or "str" in c:
                        hit = c
            elif x.get("k") == "Index":
                base = x.get("e") or x.get("base")
                if base is not None and _is_string_ty(crate.ty(base)):
                    hit = "str[range]"
            if hit is None:
                continue
            n_sites += 1
            ff, ll = crate.loc(b, x)
            key = "%s:%s#%d" % (short, hit.split("::")[-1], idx)
            idx += 1
            ex = exempt.get((short, hit.split("::")[-1]))
            if ex:
                out.exempt(key, ff, ll, ex)
            else:
                out.violation(key, ff, ll, "%s applies the byte-offset API `%s` to a program string: lengths and positions handed to / taken from Numbat code are then bytes, and the library's search functions, which step through a string one position at a time, stop at the first multi-byte character (`str_contains('b', 'äb')` is false, `str_find` -1, `split('ä b', ' ')` does not split)" % (short, hit))
        if idx == 0:
            out.ok(short, f, b["line"], "no byte-offset string API")
    out.analysed = {"ffi_string_functions": n_fns, "byte_api_sites": n_sites}
    out.floor("ffi_string_functions", n_fns, 6)
    return out
