"""PRINTCAST — a printer never decides how to write a number through a lossy cast of it.

The echo abbreviates some values (`x^2` → `x²`, `x^3` → `x³`).  Such a decision must compare the VALUE (`== 2.0`); a
float-to-integer `as` cast truncates (`2.5 as i64 == 2`), maps NaN to 0 and saturates, so a decision taken on the cast
prints another number than the one that was read: `2^2.5` echoed as `2²` evaluates to 4.  In the functions that build the
echo (return type Markup, in typed_ast.rs / ast.rs / pretty_print.rs) there is therefore no `<float> as <integer>` cast,
unless the same function tests integrality of that value (`fract()`, `is_integer()`, `trunc() ==`)."""
from core import RuleOut
from hirlib import walk

FILES = ("numbat/src/typed_ast.rs", "numbat/src/ast.rs", "numbat/src/pretty_print.rs")


def rule_printcast(crate):
    out = RuleOut("PRINTCAST", "no lossy float-to-integer cast decides what the echo prints")
    n_fns = n = 0
    for d, b in sorted(crate.hir.items()):
        if "::tests::" in d or b.get("body") is None:
            continue
        f = crate.file_of(b)
        if not f.endswith(FILES) or "Markup" not in str(b.get("ret", "")):
            continue
        n_fns += 1
        guarded = any(x.get("k") == "MethodCall" and x["name"] in ("fract", "is_integer", "trunc") for x in walk(b["body"]))
        for c in walk(b["body"]):
            if c.get("k") != "Cast":
                continue
            src, dst = crate.ty(c["e"]), crate.ty(c)
            if src not in ("f64", "f32") or not (dst[:1] in "iu" and dst[1:].replace("size", "64").isdigit()):
                continue
            n += 1
            cf, cl = crate.loc(b, c)
            key = "%s:%s->%s" % (d.replace("crate::", ""), src, dst)
            if guarded:
                out.ok(key, cf, cl, "the function tests the value for integrality")
            else:
                out.violation(key, cf, cl, "`%s as %s` in the printer `%s` with no integrality test: the cast truncates (2.5 → 2), so a spelling chosen from it (`²`, `³`, …) prints another number than the one that was read — `2^2.5` is echoed as `2²`, which evaluates to 4" % (src, dst, b["name"]))
    if n == 0:
        out.ok("no-float-cast-in-printers", FILES[0], 1, "no float-to-integer cast in %d printer functions" % n_fns)
    out.analysed = {"printer_functions": n_fns, "float_to_int_casts": n}
    out.floor("printer_functions", n_fns, 10)
    return out
