"""PERINPUT — nothing that later statements can read is written once per *input*.

Incremental (one line per interpret call) and batched (all lines in one call) evaluation run the same per-statement
bytecode; they differ only in how often the per-input code around `Vm::run` executes.  If that per-input epilogue
writes VM / interpreter state (e.g. the value of `ans`), the two evaluations diverge.  Rule: in
BytecodeInterpreter::run and ::interpret_statements, after the call of `Vm::run` / `self.run` no field of `self`
(or of `self.vm`) is assigned and every method called on `self` / `self.vm` has an empty modification set
(per-callee mod-sets as in SNAP)."""
from core import RuleOut
from hirlib import callee, peel, place_path, walk
from snap import ModSets


def rule_perinput(crate):
    out = RuleOut("PERINPUT", "the per-input epilogue after Vm::run writes no state that later statements read")
    ms = ModSets(crate)
    n_calls = 0
    for fname, pivot_suffix in (("bytecode_interpreter::BytecodeInterpreter::run", "vm::Vm::run"), ("BytecodeInterpreter::interpret_statements", "BytecodeInterpreter::run")):
        fn = crate.find_fn(fname, required=False)
        if fn is None:
            cands = [b for d, b in crate.hir.items() if d.endswith("::" + fname.split("::")[-1]) and "BytecodeInterpreter" in d]
            if len(cands) != 1:
                out.error("anchor missing: %s" % fname)
                continue
            fn = cands[0]
        f = crate.file_of(fn)
        self_id = fn["params"][0]["id"]
        pivots = [n for n in walk(fn["body"]) if n.get("k") == "MethodCall" and (callee(n) or "").endswith(pivot_suffix)]
        if len(pivots) != 1:
            out.error("anchor missing: exactly one call of %s in %s (found %d)" % (pivot_suffix, fname, len(pivots)))
            continue
        pv = pivots[0]
        ppos = (pv["s"][0], pv["s"][1])
        short = fname.split("::")[-1]
        idx = 0
        for n in walk(fn["body"]):
            pos = (n.get("s") or [0, 0])[:2]
            if len(pos) < 2 or tuple(pos) <= ppos or n is pv:
                continue
            if any(x is n for x in walk(pv)):
                continue
            k = n.get("k")
            if k in ("Assign", "AssignOp"):
                p = place_path(n["l"])
                if p and p[0] == self_id:
                    nf, nl = crate.loc(fn, n)
                    out.violation("%s:assign:%s" % (short, ".".join(p[2])), nf, nl, "`self.%s` is assigned after the VM has run, once per input: later statements see a different value depending on how the same lines were grouped into inputs" % ".".join(p[2]))
            elif k == "MethodCall":
                p = place_path(n["recv"])
                if not (p and p[0] == self_id):
                    continue
                c = callee(n) or ""
                cb = crate.hir.get(c)
                n_calls += 1
                nf, nl = crate.loc(fn, n)
                key = "%s:after-run:%s#%d" % (short, n["name"], idx)
                idx += 1
                if cb is None:
                    at = crate.ty(peel(n["recv"]), adjusted=True)
                    if at.startswith("&mut"):
                        out.violation(key, nf, nl, "`self.%s.%s(..)` mutates interpreter state after the VM has run (once per input)" % (".".join(p[2]), n["name"]))
                    else:
                        out.ok(key, nf, nl, "shared borrow only")
                    continue
                mods = ms.of(c)
                if mods is None:
                    out.advisory(key, nf, nl, "`%s` may modify unknown parts of its receiver; not decided" % c.split("::")[-1])
                elif mods:
                    out.violation(key, nf, nl, "`%s` is called once per input after the VM has run and modifies %s: state that later statements read (e.g. `ans`) then depends on how lines are grouped into inputs — incremental and batched evaluation disagree" % (c.split("::")[-1], ", ".join("`%s`" % m for m in sorted(mods))))
                else:
                    out.ok(key, nf, nl, "`%s` modifies nothing" % c.split("::")[-1])
        cf, cl = crate.loc(fn, pv)
        out.ok("%s:pivot" % short, cf, cl, "epilogue after `%s` analysed" % pivot_suffix.split("::")[-1])
    out.analysed = {"epilogue_calls": n_calls}
    out.floor("epilogue_calls", n_calls, 2)
    return out
