"""EXPSUP — a type is printed with a unicode exponent only if the tokenizer can read that exponent back.

The tokenizer knows ONE UnicodeExponent token: an optional `⁻` followed by exactly one of `¹`…`⁹` (tokenizer table).
Types and dimensions are rendered through `<BaseRepresentationFactor as Display>::fmt`, which delegates the exponent
to a formatter in `arithmetic`.  That formatter (or the one it wraps) maps the decimal digits of the exponent to
superscripts digit by digit, so it must first bound the exponent to a single digit and otherwise fall back to the
ASCII form `^N`: an inferred signature such as `fn f(x) = x^10` -> `A¹⁰` (or `x^2*y^3 + z^5` -> `A¹⁰ × B¹⁵`) is
otherwise rejected when written back (`Unexpected character '⁰'`).

Decided structurally: on the call path fmt -> formatter there is a function that tests the exponent against literal
bounds within [-9, 9] (a `contains` on a literal range, or comparisons with literals) and has a branch that returns
without reaching the digit mapper."""
from core import RuleOut
from hirlib import callee, peel, peel_refs, walk
from prec import tokenizer_map


def _int_lit(e):
    e = peel_refs(e)
    if e.get("k") == "Lit" and e["lit"].get("lk") == "int":
        return int(e["lit"]["v"])
    if e.get("k") == "Unary" and str(e.get("op")) == "Neg":
        v = _int_lit(e["e"])
        return -v if v is not None else None
    return None


def _bounds(fn):
    """literal bounds the function compares something with: [(lo, hi)] from `(lo..=hi).contains(..)`, or single literals"""
    found = []
    for x in walk(fn["body"]):
        if x.get("k") == "MethodCall" and x["name"] == "contains":
            r = peel_refs(x["recv"])
            if r.get("k") == "Call" and (callee(r) or "").endswith("RangeInclusive::new"):
                lo, hi = _int_lit(r["args"][0]), _int_lit(r["args"][1])
                if lo is not None and hi is not None:
                    found.append((lo, hi))
        if x.get("k") == "Binary" and str(x.get("op")) in ("<", "<=", ">", ">="):
            for side in (x["l"], x["r"]):
                v = _int_lit(side)
                if v is not None:
                    found.append((-abs(v), abs(v)))
    return found


def _maps_digits(fn):
    """does the body turn decimal digits into superscript characters? (char literal `⁰`…`⁹` in a match/closure)"""
    sup = set("⁰¹²³⁴⁵⁶⁷⁸⁹")
    return sum(1 for x in walk(fn["body"]) if x.get("k") == "Lit" and isinstance(x.get("lit"), dict) and x["lit"].get("lk") == "char" and x["lit"].get("v") in sup) >= 9


def rule_expsup(crate):
    out = RuleOut("EXPSUP", "exponents of types are printed as unicode superscripts only in the single-digit range the tokenizer reads back")
    tok = tokenizer_map(crate)
    single = sorted(k for k in tok if tok[k] == "UnicodeExponent")
    if len(single) < 9 or any(len(k.replace("⁻", "")) != 1 for k in single):
        out.advisory("tokenizer:unicode-exponent", "numbat/src/tokenizer.rs", 1, "the tokenizer's UnicodeExponent spellings are not (only) single digits: %s — rule not applicable" % single[:6])
        return out
    fmts = [b for d, b in crate.hir.items() if d.endswith("as std::fmt::Display>::fmt") and (b.get("impl_self") or "").endswith("registry::BaseRepresentationFactor")]
    if not fmts:
        out.error("anchor missing: <BaseRepresentationFactor as Display>::fmt")
        return out
    fmt = fmts[0]
    f = crate.file_of(fmt)
    # functions of crate::arithmetic reachable from fmt (depth 3)
    seen, work, chain = set(), [fmt], []
    while work:
        cur = work.pop()
        for x in walk(cur["body"]):
            c = ""
            if x.get("k") in ("Call", "MethodCall"):
                c = callee(x) or ""
            elif x.get("k") == "Path" and x["res"].get("r") == "def" and str(x["res"].get("dk", "")).startswith(("Fn", "AssocFn")):
                c = x["res"].get("inst") or x["res"].get("path") or ""  # a function passed as a value: `.map(superscript_char)`
            if c.startswith("crate::arithmetic::") and c in crate.hir and c not in seen and len(seen) < 8:
                seen.add(c)
                chain.append(crate.hir[c])
                work.append(crate.hir[c])
    mappers = [b for b in chain if _maps_digits(b)]
    if not mappers:
        out.error("anchor missing: no exponent formatter that maps digits to superscripts is reachable from BaseRepresentationFactor::fmt")
        return out
    guarded = None
    for b in chain:
        for (lo, hi) in _bounds(b):
            if -9 <= lo and hi <= 9 and (lo, hi) != (0, 0) and hi >= 2:
                guarded = (b, lo, hi)
    key = "type-exponent:single-digit-superscript"
    if guarded:
        b, lo, hi = guarded
        out.ok(key, crate.file_of(b), b["line"], "`%s` bounds the exponent to %d..=%d before the digits are mapped to superscripts" % (b["name"], lo, hi))
    else:
        m = mappers[0]
        out.violation(key, crate.file_of(m), m["line"], "types are printed through `%s`, which maps EVERY digit of an integer exponent to a superscript; the tokenizer reads a single superscript digit only (%s …): the inferred signature of `fn f(x) = x^10` is printed as `A¹⁰` and rejected when written back (likewise `x^2*y^3 + z^5` -> `A¹⁰ × B¹⁵`)" % (m["name"], " ".join(single[:4])))
    out.analysed = {"formatters_on_path": len(chain), "unicode_exponent_spellings": len(single)}
    return out
