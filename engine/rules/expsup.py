"""EXPSUP — a type is printed with a unicode exponent only if the tokenizer can read that exponent back.

The tokenizer knows ONE UnicodeExponent token: an optional `⁻` followed by exactly one of `¹`…`⁹` (tokenizer table).
Types and dimensions are rendered through `<BaseRepresentationFactor as Display>::fmt`, which delegates the exponent
to a formatter in `arithmetic`.  That formatter (or the one it wraps) maps the decimal digits of the exponent to
superscripts digit by digit, so it must first bound the exponent to a single digit and otherwise fall back to the
ASCII form `^N`: an inferred signature such as `fn f(x) = x^10` -> `A¹⁰` (or `x^2*y^3 + z^5` -> `A¹⁰ × B¹⁵`) is
otherwise rejected when written back (`Unexpected character '⁰'`).

Decided structurally: on the call path fmt -> formatter there is a function that tests the exponent against literal
bounds within [-9, 9] (a `contains` on a literal range, or comparisons with literals) and has a branch that returns
without reaching the digit mapper."""
from core import RuleOut
from hirlib import callee, peel, peel_refs, walk
from prec import tokenizer_map


def _int_lit(e):
    e = peel_refs(e)
    if e.get("k") == "Lit" and e["lit"].get("lk") == "int":
        return int(e["lit"]["v"])
    if e.get("k") == "Unary" and str(e.get("op")) == "Neg":
        v = _int_lit(e["e"])
        return -v if v is not None else None
    return None


def _bounds(fn):
    """literal bounds the function compares something with: [(lo, hi)] from `(lo..=hi).contains(..)`, or single literals"""
    found = []
    for x in walk(fn["body"]):
        if x.get("k") == "MethodCall" and x["name"] == "contains":
            r = peel_refs(x["recv"])
            if r.get("k") == "Call" and (callee(r) or "").endswith("RangeInclusive::new"):
                lo, hi = _int_lit(r["args"][0]), _int_lit(r["args"][1])
                if lo is not None and hi is not None:
                    found.append((lo, hi))
        if x.get("k") == "Binary" and str(x.get("op")) in ("<", "<=", ">", ">="):
            for side in (x["l"], x["r"]):
                v = _int_lit(side)
                if v is not None:
                    found.append((-abs(v), abs(v)))
    return found


def _maps_digits(fn, crate=None):
    """does the body turn decimal digits into superscript characters? (char literals `⁰`…`⁹` in a match/closure, or in
    a const/static table of the crate that the body indexes)"""
    sup = set("⁰¹²³⁴⁵⁶⁷⁸⁹")
    bodies = [fn["body"]]
    if crate is not None:
        for x in walk(fn["body"]):
            if x.get("k") == "Path" and x.get("res", {}).get("r") == "def" and str(x["res"].get("dk", "")).startswith(("Const", "Static", "AssocConst")):
                t = crate.hir.get(x["res"].get("path", ""))
                if t is not None and t.get("body") is not None:
                    bodies.append(t["body"])
    return sum(1 for b_ in bodies for x in walk(b_) if x.get("k") == "Lit" and isinstance(x.get("lit"), dict) and x["lit"].get("lk") == "char" and x["lit"].get("v") in sup) >= 9


def rule_expsup(crate):
    out = RuleOut("EXPSUP", "exponents of types are printed as unicode superscripts only in the single-digit range the tokenizer reads back")
    tok = tokenizer_map(crate)
    single = sorted(k for k in tok if tok[k] == "UnicodeExponent")
    if len(single) < 9 or any(len(k.replace("⁻", "")) != 1 for k in single):
        out.advisory("tokenizer:unicode-exponent", "numbat/src/tokenizer.rs", 1, "the tokenizer's UnicodeExponent spellings are not (only) single digits: %s — rule not applicable" % single[:6])
        return out
    fmts = [b for d, b in crate.hir.items() if d.endswith("as std::fmt::Display>::fmt") and (b.get("impl_self") or "").endswith("registry::BaseRepresentationFactor")]
    if not fmts:
        out.error("anchor missing: <BaseRepresentationFactor as Display>::fmt")
        return out
    fmt = fmts[0]
    f = crate.file_of(fmt)
    # functions of crate::arithmetic reachable from fmt (depth 3)
    seen, work, chain = set(), [fmt], []
    while work:
        cur = work.pop()
        for x in walk(cur["body"]):
            c = ""
            if x.get("k") in ("Call", "MethodCall"):
                c = callee(x) or ""
            elif x.get("k") == "Path" and x["res"].get("r") == "def" and str(x["res"].get("dk", "")).startswith(("Fn", "AssocFn")):
                c = x["res"].get("inst") or x["res"].get("path") or ""  # a function passed as a value: `.map(superscript_char)`
            if c.startswith("crate::arithmetic::") and c in crate.hir and c not in seen and len(seen) < 8:
                seen.add(c)
                chain.append(crate.hir[c])
                work.append(crate.hir[c])
    mappers = [b for b in chain if _maps_digits(b, crate)]
    if not mappers:
        out.error("anchor missing: no exponent formatter that maps digits to superscripts is reachable from BaseRepresentationFactor::fmt")
        return out
    guarded = None
    for b in chain:
        for (lo, hi) in _bounds(b):
            if -9 <= lo and hi <= 9 and (lo, hi) != (0, 0) and hi >= 2:
                guarded = (b, lo, hi)
    key = "type-exponent:single-digit-superscript"
    if guarded:
        b, lo, hi = guarded
        out.ok(key, crate.file_of(b), b["line"], "`%s` bounds the exponent to %d..=%d before the digits are mapped to superscripts" % (b["name"], lo, hi))
    else:
        m = mappers[0]
        out.violation(key, crate.file_of(m), m["line"], "types are printed through `%s`, which maps EVERY digit of an integer exponent to a superscript; the tokenizer reads a single superscript digit only (%s …): the inferred signature of `fn f(x) = x^10` is printed as `A¹⁰` and rejected when written back (likewise `x^2*y^3 + z^5` -> `A¹⁰ × B¹⁵`)" % (m["name"], " ".join(single[:4])))
    out.analysed = {"formatters_on_path": len(chain), "unicode_exponent_spellings": len(single)}
    return out


def rule_uexptab(crate):
    """UEXPTAB — every UnicodeExponent lexeme the tokenizer can produce is one the parser's table reads.

    Writer: Tokenizer::scan_single_token (single superscript digits, and `⁻` followed by a character accepted by
    is_exponent_char).  Reader: Parser::unicode_exponent_to_int, a match on the lexeme whose fall-through arm is
    `unreachable!()`.  A lexeme produced but not listed (`⁻⁰` after "completing" is_exponent_char with `⁰`) is an
    internal panic for the input `2⁻⁰` — before, the tokenizer reported it as an unexpected character."""
    out = RuleOut("UEXPTAB", "every unicode-exponent lexeme the tokenizer produces is listed in the parser's unicode_exponent_to_int (whose fall-through arm panics)")
    tok = tokenizer_map(crate)
    produced = set(k for k in tok if tok[k] == "UnicodeExponent")
    # `⁻` + c for every c the predicate used in the `⁻` arm accepts (evaluated, not assumed)
    from idchars import CharEval, Unknown

    scan = crate.find_fn("tokenizer::Tokenizer::scan_single_token")
    ce = CharEval(crate)
    n_pred = 0
    for m in walk(scan["body"]):
        if m.get("k") != "Match" or str(m.get("src")) != "Normal" or crate.ty(peel(m["scrut"])) != "char":
            continue
        for a in m["arms"]:
            subs = a["pat"]["pats"] if a["pat"].get("k") == "Or" else [a["pat"]]
            if not any(sp.get("k") == "Lit" and sp["lit"].get("v") == "⁻" for sp in subs):
                continue
            if not any(x.get("k") == "Path" and x.get("res", {}).get("variant") == "UnicodeExponent" for x in walk(a["body"])):
                continue
            for x in walk(a["body"]):
                if x.get("k") == "Path" and x.get("res", {}).get("r") == "def" and str(x["res"].get("dk", "")) == "Fn" and str(x["res"].get("path", "")).startswith("crate::tokenizer::"):
                    pred = crate.hir.get(x["res"]["path"])
                    if pred is None or len(pred.get("params", [])) != 1:
                        continue
                    n_pred += 1
                    for ch in "⁰¹²³⁴⁵⁶⁷⁸⁹⁺⁼⁽⁾ⁿⁱ0123456789":
                        try:
                            v = ce.call(x["res"]["path"], ch)
                        except Exception:
                            v = Unknown
                        if v is True:
                            produced.add("⁻" + ch)
    produced.discard("⁻")  # never a lexeme of its own: the `⁻` arm consumes the following character or reports an error
    produced = sorted(produced)
    try:
        fn = crate.find_fn("parser::Parser::unicode_exponent_to_int")
    except Exception:
        fn = None
    if fn is None or not produced:
        out.error("anchor missing: Parser::unicode_exponent_to_int / UnicodeExponent spellings of the tokenizer")
        return out
    f = crate.file_of(fn)
    read, panics, found = set(), False, False
    # `lexeme.strip_prefix('⁻')` (or starts_with / trim_start_matches): the sign is split off before the table is read
    splits_sign = any(x.get("k") == "MethodCall" and x["name"] in ("strip_prefix", "starts_with", "trim_start_matches") and any(y.get("k") == "Lit" and isinstance(y.get("lit"), dict) and y["lit"].get("v") == "⁻" for y in walk(x.get("args", []))) for x in walk(fn["body"]))
    for m in walk(fn["body"]):
        if m.get("k") != "Match" or str(m.get("src")) != "Normal":
            continue
        lits = []
        for a in m["arms"]:
            subs = a["pat"]["pats"] if a["pat"].get("k") == "Or" else [a["pat"]]
            ls = [sp["lit"]["v"] for sp in subs if sp.get("k") == "Lit" and sp["lit"].get("lk") == "str"]
            if ls:
                lits += ls
            elif any(x.get("k") == "Call" and "panicking" in (callee(x) or "") for x in walk(a["body"])):
                panics = True
        if lits:
            found = True
            read |= set(lits)
    if not found:
        out.advisory("unicode-exponent:table", f, fn["line"], "unicode_exponent_to_int is not a literal table: rule not applicable")
        return out
    if splits_sign:
        read |= {"⁻" + r for r in list(read) if not r.startswith("⁻")}
    missing = [p for p in produced if p not in read]
    if missing and panics:
        out.violation("unicode-exponent:produced-not-read", f, fn["line"], "the tokenizer produces the UnicodeExponent lexeme(s) %s, which unicode_exponent_to_int does not list: its fall-through arm is unreachable!() — the input `2%s` aborts the interpreter with an internal panic" % (" ".join(missing), missing[0]))
    else:
        out.ok("unicode-exponent:produced-not-read", f, fn["line"], "all %d produced lexemes are listed%s" % (len(produced), "" if panics else " (and the fall-through arm does not panic)"))
    out.analysed = {"produced": len(produced), "read": len(read), "negative_exponent_predicates": n_pred}
    out.floor("produced", len(produced), 18)
    if n_pred == 0:
        out.advisory("unicode-exponent:negative-predicate", f, fn["line"], "the `⁻` arm of the tokenizer uses no named predicate: only the spellings of the token table were compared")
    return out
