"""R3 TRAV — traversal completeness.

A family = (functions, payload types P, visit callees).  In every `match` of a
family function whose scrutinee is one of the family's enums, every field of the
matched variant whose type contains a payload type must be bound by the
pattern and flow (through let / for / closure / match binders) into a call of a
visit function.  Fields skipped by `..`, ignored by `_`, or bound and never
handed on are reported.  Let-destructurings of payload-carrying structs inside
family functions are checked the same way.
"""
import re

from core import RuleOut
from hirlib import place_path, callee, callee_decl, call_args, pat_variants, peel, peel_refs, strip_generics, walk


class Family:
    def __init__(self, name, functions, enums, payload, visit, structs=(), callback_params=(), exempt=None,
                 min_arms=0, trait_method=None):
        self.name = name
        self.functions = functions  # list of def-path suffixes, or (trait_suffix, method) tuples
        self.enums = set(enums)  # ADT paths whose matches are checked
        self.payload = set(payload)  # ADT paths that must be visited
        self.visit = visit  # list of regexes on callee paths (decl or instance)
        self.structs = set(structs)  # payload-carrying structs (checked field-wise)
        self.callback_params = set(callback_params)  # names of closure parameters that count as visit
        self.exempt = exempt or {}  # {(fn_short, variant, field): reason}
        self.min_arms = min_arms
        self.trait_method = trait_method


class TypeIndex:
    """contains(type-tree, P) with memoisation over local ADTs."""

    def __init__(self, crate):
        self.crate = crate
        self.memo = {}

    def adt_contains(self, path, P, stack=()):
        if path in P:
            return True
        key = (path, frozenset(P))
        if key in self.memo:
            return self.memo[key]
        if path in stack:
            return False
        adt = self.crate.adts.get(path)
        res = False
        if adt and adt.get("local") and adt.get("variants"):
            for v in adt["variants"]:
                for f in v["fields"]:
                    if self.contains(f["ty"], P, stack + (path,)):
                        res = True
                        break
                if res:
                    break
        self.memo[key] = res
        return res

    def contains(self, ty, P, stack=()):
        k = ty.get("k")
        if k == "adt":
            if ty["path"] in P:
                return True
            if any(self.contains(a, P, stack) for a in ty.get("args", [])):
                return True
            return self.adt_contains(ty["path"], P, stack)
        if k in ("ref", "rawptr", "slice", "array"):
            return self.contains(ty["inner"], P, stack)
        if k == "tuple":
            return any(self.contains(e, P, stack) for e in ty["elems"])
        return False

    def leaves(self, ty, P, out=None):
        """ADT leaves of a field type that are payload types, or local ADTs containing payload."""
        if out is None:
            out = []
        k = ty.get("k")
        if k == "adt":
            if ty["path"] in P:
                out.append(ty["path"])
            else:
                adt = self.crate.adts.get(ty["path"])
                if adt and adt.get("local") and self.adt_contains(ty["path"], P):
                    out.append(ty["path"])
                else:
                    for a in ty.get("args", []):
                        self.leaves(a, P, out)
        elif k in ("ref", "rawptr", "slice", "array"):
            self.leaves(ty["inner"], P, out)
        elif k == "tuple":
            for e in ty["elems"]:
                self.leaves(e, P, out)
        return out

    def variant_fields(self, adt_path, variant):
        adt = self.crate.adts.get(adt_path)
        if not adt:
            return None
        for v in adt["variants"]:
            if variant is None or v["name"] == variant:
                return v["fields"]
        return None

    def payload_fields(self, adt_path, variant, P):
        fs = self.variant_fields(adt_path, variant)
        if fs is None:
            return None
        return [f for f in fs if self.contains(f["ty"], P)]


def refs_in(node, ids):
    """Path nodes inside `node` that refer to one of the local ids; yields (path_node, field_name_or_None)."""
    out = []

    def rec(n, parent_field):
        if isinstance(n, list):
            for x in n:
                rec(x, None)
            return
        if not isinstance(n, dict):
            return
        k = n.get("k")
        if k == "Path" and n["res"].get("r") == "local" and n["res"]["id"] in ids:
            out.append((n, parent_field))
            return
        if k == "Field":
            inner = peel_refs(n["e"])
            rec(inner, n["name"])
            return
        if k in ("DropTemps", "Use", "Type", "AddrOf") or (k == "Unary" and n.get("op") == "Deref"):
            rec(n["e"], parent_field)
            return
        if k == "MethodCall" and n["name"] in ("as_ref", "as_mut", "as_deref", "as_deref_mut", "iter", "iter_mut", "deref", "deref_mut", "borrow", "borrow_mut"):
            # accessor: keeps denoting (a view of) the same value
            rec(n["recv"], parent_field)
            for a in n["args"]:
                rec(a, None)
            return
        for kk, v in n.items():
            if kk in ("s", "t", "at", "res", "lit"):
                continue
            if kk == "fields" and isinstance(v, list):
                for item in v:
                    if isinstance(item, list) and len(item) == 2:
                        rec(item[1], None)
                continue
            if isinstance(v, (dict, list)):
                rec(v, None)

    rec(node, None)
    return out


def prov_of_refs(refs, prov):
    """Field-level provenance of an expression given the refs it contains."""
    out = set()
    for (pnode, fld) in refs:
        p = prov.get(pnode["res"]["id"], set())
        if p == {"*"} and fld is not None:
            out.add(fld)
        else:
            out |= p
    return out


def derive(arm_body, seeds):
    """Bindings that (transitively) derive from the seed binding ids inside `arm_body`.

    A binder derives from x when the expression it destructures mentions x or a
    derived binder: `let p = e`, `match e { p => }`, `if let p = e`, the
    parameters of a closure passed to a method whose receiver/arguments mention
    x (`xs.iter().map(|p| ..)`), and the for-loop desugaring.
    Returns {id: provenance}, provenance = {'*'} (the value or an element of it)
    or the set of first-level field names of the seed it was projected from.
    """
    prov = {s_: {"*"} for s_ in seeds}
    changed = True
    nodes = list(walk(arm_body))
    while changed:
        changed = False

        def add_pat(p, pv):
            nonlocal changed
            if not pv:
                return
            for b in walk(p):
                if b.get("k") == "Binding":
                    old = prov.get(b["id"])
                    new = (old or set()) | pv
                    if new != old:
                        prov[b["id"]] = new
                        changed = True

        for n in nodes:
            k = n.get("k")
            if k == "Let" and "init" in n and n.get("init") is not None and "pat" in n:
                r = refs_in(n["init"], prov)
                if r:
                    add_pat(n["pat"], prov_of_refs(r, prov))
            elif k == "Match":
                r = refs_in(n["scrut"], prov)
                if r:
                    pv = prov_of_refs(r, prov)
                    for a in n["arms"]:
                        add_pat(a["pat"], pv)
            elif k in ("MethodCall", "Call"):
                args = call_args(n)
                clos = [peel(a) for a in args if peel(a).get("k") == "Closure"]
                if clos:
                    others = [a for a in args if peel(a).get("k") != "Closure"]
                    pv = set()
                    for a in others:
                        pv |= prov_of_refs(refs_in(a, prov), prov)
                    if pv:
                        for c in clos:
                            for p in c["params"]:
                                add_pat(p, pv)
    return prov


class Trav:
    def __init__(self, crate, fam, out):
        self.crate = crate
        self.fam = fam
        self.out = out
        self.ti = TypeIndex(crate)
        self.visit_res = [re.compile(v) for v in fam.visit]
        self.arms = 0
        self.guarded_arms = 0
        self.fields_checked = 0

    def is_visit_call(self, n, cb_ids):
        k = n.get("k")
        if k not in ("Call", "MethodCall"):
            return False
        for c in (callee(n), callee_decl(n)):
            if c and any(r.search(c) for r in self.visit_res):
                return True
        if k == "Call":
            f = peel(n["f"])
            if f.get("k") == "Path" and f["res"].get("r") == "local" and f["res"]["id"] in cb_ids:
                return True
        return False

    def visit_uses(self, body, ids, cb_ids):
        """Field projections with which derived ids reach visit calls: set of names / '*'."""
        uses = set()
        for n in walk(body):
            if self.is_visit_call(n, cb_ids):
                for a in call_args(n):
                    uses |= prov_of_refs(refs_in(a, ids), ids)
        return uses

    def has_family_match(self, body, ids, enum_path):
        for n in walk(body):
            if n.get("k") == "Match" and not str(n.get("src", "")).startswith(("TryDesugar", "ForLoopDesugar")):
                if strip_generics(self.crate.ty(peel_refs(n["scrut"]))) == enum_path or self._scrut_enum(n) == enum_path:
                    if refs_in(n["scrut"], ids):
                        return True
        return False

    def _scrut_enum(self, m):
        t = self.crate.ty(peel(m["scrut"]), adjusted=False)
        t = strip_generics(t)
        if t.startswith("std::boxed::Box"):
            return None
        return t

    def check_binding(self, fn, fshort, body, b, fty, label, where, cb_ids, P):
        """Is the payload reachable through binding `b` (declared type tree fty) visited in `body`?"""
        ids = derive(body, {b["id"]})
        uses = self.visit_uses(body, ids, cb_ids)
        if "*" in uses:
            return True, "flows into a visit call"
        leaves = self.ti.leaves(fty, P)
        missing = []
        for leaf in leaves:
            if leaf in P:
                missing.append(leaf)
                continue
            adt = self.crate.adts.get(leaf)
            if adt is None:
                missing.append(leaf)
                continue
            if adt["kind"] == "struct":
                need = [f["name"] for f in adt["variants"][0]["fields"] if self.ti.contains(f["ty"], P)]
                miss = [f for f in need if f not in uses]
                if miss:
                    missing.append("%s.{%s}" % (leaf.split("::")[-1], ",".join(miss)))
            else:
                # enum container (e.g. StringPart): must be matched on in the arm (the match is checked itself)
                if not self.has_family_match(body, ids, leaf):
                    missing.append(leaf)
        if missing:
            return False, "bound as `%s` but never handed to a visit function (unvisited: %s)" % (b["name"], ", ".join(x.split("::")[-1] for x in missing))
        return True, "visited field-wise / by nested match"

    def check_pattern_fields(self, fn, fshort, body, pat, adt_path, variant, cb_ids, where_line, P):
        """pat is a Struct/TupleStruct/Path pattern for adt_path::variant."""
        fields = self.ti.variant_fields(adt_path, variant)
        if fields is None:
            self.out.error("type facts missing for %s::%s" % (adt_path, variant))
            return
        k = pat.get("k")
        sub = {}
        rest = False
        if k == "Struct":
            for name, p in pat["fields"]:
                sub[name] = p
            rest = bool(pat.get("rest"))
        elif k == "TupleStruct":
            pats = pat["pats"]
            dd = pat.get("ddpos")
            n = len(fields)
            if dd is None:
                for i, p in enumerate(pats):
                    if i < n:
                        sub[fields[i]["name"]] = p
            else:
                rest = True
                for i, p in enumerate(pats[:dd]):
                    sub[fields[i]["name"]] = p
                tail = pats[dd:]
                for j, p in enumerate(tail):
                    sub[fields[n - len(tail) + j]["name"]] = p
        elif k == "Path":
            pass
        vname = variant or adt_path.split("::")[-1]
        f_, l_ = self.crate.loc(fn, pat)
        for f in fields:
            if not self.ti.contains(f["ty"], P):
                continue
            self.fields_checked += 1
            key = "%s:%s:%s.%s" % (self.fam.name, fshort, vname, f["name"])
            ex = self.fam.exempt.get((fshort, vname, f["name"]))
            p = sub.get(f["name"])
            ok, why = self.check_subpattern(fn, fshort, body, p, f, cb_ids, P)
            if ok:
                self.out.ok(key, f_, l_, why)
            elif ex:
                self.out.exempt(key, f_, l_, ex)
            else:
                self.out.violation(key, f_, l_, "in the `%s` arm of %s: field `%s: %s` %s" % (vname, fshort, f["name"], f["s"], why))

    def check_subpattern(self, fn, fshort, body, p, f, cb_ids, P):
        if p is None:
            return False, "is skipped by `..`"
        while p.get("k") in ("Ref", "Box", "Deref"):
            p = p["pat"]
        k = p.get("k")
        if k == "Wild":
            return False, "is ignored by `_`"
        if k == "Binding":
            if "sub" in p:
                # x @ pat: treat like a plain binding
                pass
            return self.check_binding(fn, fshort, body, p, f["ty"], f["name"], None, cb_ids, P)
        if k in ("Struct", "TupleStruct"):
            # nested destructuring of an Option/struct/enum field
            adt = p.get("adt")
            variant = p.get("variant")
            if adt in ("std::option::Option",):
                if variant == "None":
                    return True, "refutable payload-free pattern"
                inner = p["pats"][0] if p.get("pats") else None
                return self.check_subpattern(fn, fshort, body, inner, {"ty": f["ty"]["args"][0] if f["ty"].get("args") else f["ty"], "name": f["name"], "s": f["s"]}, cb_ids, P)
            if adt and self.crate.adts.get(adt, {}).get("local"):
                # nested local struct/enum pattern: check its payload fields
                self.check_pattern_fields(fn, fshort, body, p, adt, variant, cb_ids, None, P)
                return True, "destructured (sub-fields checked separately)"
            return False, "is matched by an unrecognised nested pattern"
        if k == "Path":
            # unit variant / constant (e.g. `None`)
            return True, "refutable payload-free pattern"
        if k == "Tuple":
            oks = []
            elems = f["ty"].get("elems", []) if f["ty"].get("k") == "tuple" else []
            for i, q in enumerate(p["pats"]):
                if i < len(elems) and self.ti.contains(elems[i], P):
                    ok, why = self.check_subpattern(fn, fshort, body, q, {"ty": elems[i], "name": "%s.%d" % (f["name"], i), "s": ""}, cb_ids, P)
                    if not ok:
                        return False, why
                    oks.append(why)
            return True, "; ".join(oks) or "tuple"
        if k == "Or":
            for q in p["pats"]:
                ok, why = self.check_subpattern(fn, fshort, body, q, f, cb_ids, P)
                if not ok:
                    return False, why
            return True, "all alternatives visited"
        return False, "is matched by an unrecognised pattern kind %s" % k

    def callback_ids(self, fn):
        ids = set()
        for p in fn["params"]:
            if p.get("k") == "Binding" and p["name"] in self.fam.callback_params:
                ids.add(p["id"])
        return ids

    def run_fn(self, fn):
        fam = self.fam
        P = fam.payload
        fshort = short_name(fn)
        cb_ids = self.callback_ids(fn)
        body = fn["body"]
        n_matches = 0
        # a nested match on a CHILD of the subject (a binding of an enclosing family arm) that only looks at the
        # child's kind — the child is handed WHOLE to a visit call in that same arm (`match lhs.as_ref() { Power(..)
        # => "(" + lhs.pretty_print() + ")", _ => with_parens(lhs) }`) — is a peek: the visit obligation for the child
        # is carried (and checked) at the binding in the enclosing arm, the peek's own arms carry none
        child_arm = {}
        for m0 in walk(body):
            if m0.get("k") == "Match" and str(m0.get("src", "")) == "Normal" and strip_generics(self.crate.ty(peel_refs(m0["scrut"]))) in fam.enums:
                for arm0 in m0["arms"]:
                    for b0 in walk(arm0["pat"]):
                        if b0.get("k") == "Binding":
                            child_arm.setdefault(b0["id"], arm0)

        def _root_local(e):
            e = peel_refs(e)
            while e.get("k") == "MethodCall" and e["name"] in ("as_ref", "deref", "borrow", "as_deref") and not e["args"]:
                e = peel_refs(e["recv"])
            p = place_path(e)
            return p[0] if p and not p[2] else None

        for n in walk(body):
            k = n.get("k")
            if k == "Match" and str(n.get("src", "")) == "Normal" and not (len(n.get("s", [])) >= 3 and n["s"][2] == 1):
                st = strip_generics(self.crate.ty(peel_refs(n["scrut"])))
                if st not in fam.enums:
                    continue
                r0 = _root_local(n["scrut"])
                if r0 in child_arm and not any(x is n for x in [child_arm[r0]]):
                    outer = [child_arm[r0]["body"]]
                    if "*" in self.visit_uses(outer, derive(outer, {r0}), cb_ids):
                        self.peeks = getattr(self, "peeks", 0) + 1
                        continue
                n_matches += 1
                adt = self.crate.adts.get(st)
                all_variants = [v["name"] for v in adt["variants"]] if adt else []
                covered = set()
                for arm in n["arms"]:
                    self.arms += 1
                    pat = arm["pat"]
                    vs = pat_variants(pat, st)
                    if "guard" in arm:
                        # a guarded arm special-cases some values of the variant; the unguarded arm
                        # that must follow it (exhaustiveness) carries the obligation
                        self.guarded_arms += 1
                        continue
                    arm_body = [arm["body"]] + ([arm["guard"]] if "guard" in arm else [])
                    if vs is None:
                        # wildcard / binding arm: all not-yet-covered variants land here
                        rest = [v for v in all_variants if v not in covered]
                        top = pat
                        while top.get("k") in ("Ref", "Box", "Deref"):
                            top = top["pat"]
                        whole_ok = False
                        if top.get("k") == "Binding":
                            ids = derive(arm_body, {top["id"]})
                            if "*" in self.visit_uses(arm_body, ids, cb_ids):
                                whole_ok = True
                        f_, l_ = self.crate.loc(fn, pat)
                        for v in rest:
                            pf = self.ti.payload_fields(st, v, P) or []
                            for f in pf:
                                self.fields_checked += 1
                                key = "%s:%s:%s.%s" % (fam.name, fshort, v, f["name"])
                                ex = fam.exempt.get((fshort, v, f["name"]))
                                if whole_ok:
                                    self.out.ok(key, f_, l_, "catch-all arm hands the whole value to a visit call")
                                elif ex:
                                    self.out.exempt(key, f_, l_, ex)
                                else:
                                    self.out.violation(key, f_, l_, "variant `%s` falls into a catch-all arm of %s; its field `%s: %s` is never visited" % (v, fshort, f["name"], f["s"]))
                        covered |= set(rest)
                        continue
                    # explicit variants; guards do not count as coverage
                    for sp in explicit_subpatterns(pat, st):
                        v = sp.get("variant")
                        # a binding of the whole value (`e @ (A(..) | B(..))`) handed on as a whole
                        top = pat
                        while top.get("k") in ("Ref", "Box", "Deref"):
                            top = top["pat"]
                        whole_ids = set()
                        if top.get("k") == "Binding" and "sub" in top:
                            whole_ids.add(top["id"])
                        # ... or the scrutinee itself, when it is a plain local (`match expr { A(..) | B(..) => expr.visit() }`)
                        scr = peel_refs(n["scrut"])
                        if scr.get("k") == "Path" and scr.get("res", {}).get("r") == "local":
                            whole_ids.add(scr["res"]["id"])
                        if whole_ids:
                            ids = derive(arm_body, whole_ids)
                            if "*" in self.visit_uses(arm_body, ids, cb_ids):
                                f_, l_ = self.crate.loc(fn, pat)
                                for f in self.ti.payload_fields(st, v, P) or []:
                                    self.fields_checked += 1
                                    self.out.ok("%s:%s:%s.%s" % (fam.name, fshort, v, f["name"]), f_, l_, "whole value handed to a visit call")
                                continue
                        self.check_pattern_fields(fn, fshort, arm_body, sp, st, v, cb_ids, None, P)
                    if "guard" not in arm:
                        covered |= vs
            elif k == "Let" and n.get("pat") is not None and n.get("init") is not None and "src" in n:
                # let-destructuring of a payload-carrying struct
                pat = n["pat"]
                while pat.get("k") in ("Ref", "Box", "Deref"):
                    pat = pat["pat"]
                if pat.get("k") == "Struct" and pat.get("adt") in fam.structs:
                    n_matches += 1
                    self.check_pattern_fields(fn, fshort, body, pat, pat["adt"], None, cb_ids, None, P)
        return n_matches


def explicit_subpatterns(pat, adt_path):
    """The Struct/TupleStruct/Path sub-patterns for variants of adt_path inside an (or-)pattern."""
    k = pat.get("k")
    if k in ("Ref", "Box", "Deref"):
        return explicit_subpatterns(pat["pat"], adt_path)
    if k == "Or":
        out = []
        for q in pat["pats"]:
            out.extend(explicit_subpatterns(q, adt_path))
        return out
    if k == "Binding" and "sub" in pat:
        return explicit_subpatterns(pat["sub"], adt_path)
    if k == "Guard":
        return explicit_subpatterns(pat["pat"], adt_path)
    if k in ("Struct", "TupleStruct", "Path") and pat.get("adt") == adt_path and pat.get("variant"):
        return [pat]
    return []


def short_name(fn):
    d = fn["def"]
    if fn.get("impl_trait"):
        return "<%s as %s>::%s" % (strip_generics(fn["impl_self"]).split("::")[-1], fn["impl_trait"].split("::")[-1], fn["name"])
    parts = d.split("::")
    return "::".join(parts[-2:]) if len(parts) >= 2 else d


def family_functions(crate, fam):
    fns = []
    for spec in fam.functions:
        if isinstance(spec, tuple):
            trait, method = spec
            hits = crate.impl_methods(trait, method)
            if not hits:
                raise_missing("no impl of %s::%s found" % (trait, method))
            fns.extend(hits)
        else:
            fns.append(crate.find_fn(spec))
    return fns


def raise_missing(msg):
    from hirlib import AnchorMissing

    raise AnchorMissing(msg)


def rule_trav(crate, fam):
    out = RuleOut("TRAV", "every payload field of every variant is visited by the traversal `%s`" % fam.name)
    tr = Trav(crate, fam, out)
    fns = family_functions(crate, fam)
    total_matches = 0
    for fn in fns:
        m = tr.run_fn(fn)
        total_matches += m
    out.analysed = {"family": fam.name, "functions": len(fns), "matches": total_matches, "arms": tr.arms, "payload_fields": tr.fields_checked}
    out.floor("arms[%s]" % fam.name, tr.arms, fam.min_arms)
    if total_matches == 0:
        out.error("family %s: no match on %s found in %s" % (fam.name, sorted(fam.enums), [short_name(f) for f in fns]))
    return out
