"""TRAV over the type checker's Environment, with the accessor idiom.

`Environment::apply` either matches on IdentifierKind itself (handled by rule_trav, family apply_substitution_env) or
goes through a crate-local accessor on IdentifierKind (`kind.type_scheme_mut().apply(s)`): then the accessor must be
a total match that returns, for every variant, a place inside that variant's type-carrying payload, and the
traversal must call the visit method on the accessor's result."""
from core import RuleOut
from hirlib import callee, pat_variants, peel, peel_refs, place_path, strip_generics, walk
from trav import rule_trav

IK = "crate::typechecker::environment::IdentifierKind"


def rule_trav_env(crate, fam):
    base = rule_trav(crate, fam)
    if not any("no match on" in e for e in base.errors):
        return base
    out = RuleOut("TRAV", base.clause)
    fn_path = fam.functions[0]
    fn = crate.find_fn(fn_path)
    f = crate.file_of(fn)
    label = "apply_substitution_env:<Environment as ApplySubstitution>::apply"
    # visit calls whose receiver is the result of an accessor on an IdentifierKind value
    accessor = None
    for n in walk(fn["body"]):
        if n.get("k") == "MethodCall" and n["name"] == "apply":
            r = peel_refs(n["recv"])
            if r.get("k") == "MethodCall":
                c = callee(r) or ""
                cb = crate.hir.get(c)
                if cb is not None and strip_generics(cb.get("impl_self") or "").endswith("IdentifierKind"):
                    accessor = cb
    if accessor is None:
        out.error("family %s: neither a match on IdentifierKind nor an accessor-based visit found in Environment::apply" % fam.name)
        return out
    m = None
    for x in walk(accessor["body"]):
        if x.get("k") == "Match" and str(x.get("src")) == "Normal" and strip_generics(crate.ty(peel_refs(x["scrut"]))) == IK:
            m = x
            break
    if m is None:
        out.error("family %s: accessor %s does not match on IdentifierKind" % (fam.name, accessor["name"]))
        return out
    adt = crate.adt(IK)
    covered = set()
    n = 0
    for a in m["arms"]:
        vs = pat_variants(a["pat"], IK)
        af, al = crate.loc(accessor, a["pat"])
        if vs is None:
            out.violation("%s:catch-all" % label, af, al, "the accessor %s has a catch-all arm: some identifier kinds hand out no type to substitute" % accessor["name"])
            continue
        binds = {q["id"] for q in walk(a["pat"]) if q.get("k") == "Binding"}
        val = peel_refs(a["body"])
        p = place_path(val)
        for v in sorted(vs):
            n += 1
            covered.add(v)
            key = "%s:%s.0" % (label, v)
            if p and p[0] in binds:
                out.ok(key, af, al, "accessor `%s` returns the payload of %s, and Environment::apply visits the accessor's result" % (accessor["name"], v))
            else:
                out.violation(key, af, al, "accessor `%s` does not return a place inside the payload of IdentifierKind::%s: that kind of identifier keeps unsolved type variables" % (accessor["name"], v))
    for v in [x["name"] for x in adt["variants"]]:
        if v not in covered:
            out.violation("%s:%s.0" % (label, v), f, fn["line"], "IdentifierKind::%s is not handled by the accessor" % v)
    out.analysed = {"family": fam.name, "functions": 2, "matches": 1, "arms": n, "payload_fields": n, "via_accessor": accessor["name"]}
    out.floor("arms[%s]" % fam.name, n, fam.min_arms)
    return out
