"""R6 PREC — the precedence chain of the recursive-descent parser equals the documented table
(book/src/basics/operations.md), and R4d: documented spellings map to the token kinds consumed there."""
import html
import os
import re

from core import RuleOut
from hirlib import callee, ctor_variant, peel, peel_refs, place_path, strip_generics, walk

TK = "crate::tokenizer::TokenKind"
PARSER = "crate::parser::Parser::"


def doc_rows(path):
    rows = []
    with open(path, encoding="utf-8") as f:
        lines = f.read().splitlines()
    in_table = False
    for ln, line in enumerate(lines, 1):
        if line.startswith("|") and "Operation" in line and "Syntax" in line:
            in_table = True
            continue
        if in_table:
            if not line.startswith("|"):
                break
            cells = [c.strip() for c in line.strip().strip("|").split("|")]
            if set(cells[0]) <= set("- "):
                continue
            # the syntax cell may contain `|` inside <code>..</code> (escaped as &#124;) — rejoin
            name = cells[0]
            syntax = "|".join(cells[1:])
            snippets = re.findall(r"`([^`]+)`", syntax) + [html.unescape(s) for s in re.findall(r"<code>(.*?)</code>", syntax)]
            rows.append((name, snippets, ln))
    return rows


def spelling_of(snippet):
    """operator spelling of a documented snippet: drop the placeholder operands x, y, z, f and blanks."""
    s = snippet
    s = re.sub(r"(?<![A-Za-z0-9_])[xyzf](?![A-Za-z0-9_])", " ", s)
    s = s.replace(" ", "")
    return s


def tokenizer_map(crate):
    """{spelling: TokenKind variant} from Tokenizer::scan_single_token (char arms + match_char guards)
    and the keyword table."""
    fn = crate.find_fn("tokenizer::Tokenizer::scan_single_token")
    out = {}
    # keywords: m.insert("per", TokenKind::Per)
    for n in walk(fn["body"]):
        if n.get("k") == "MethodCall" and n["name"] == "insert" and len(n["args"]) == 2:
            k = peel_refs(n["args"][0])
            v = ctor_variant(n["args"][1])
            if k.get("k") == "Lit" and k["lit"].get("lk") == "str" and v and v[0] == TK:
                out[k["lit"]["v"]] = v[1]
    for m in walk(fn["body"]):
        if m.get("k") != "Match" or str(m.get("src")) != "Normal" or crate.ty(peel(m["scrut"])) != "char":
            continue
        for a in m["arms"]:
            p = a["pat"]
            chars = []
            subs = p["pats"] if p.get("k") == "Or" else [p]
            for sp in subs:
                if sp.get("k") == "Lit" and sp["lit"].get("lk") == "char":
                    chars.append(sp["lit"]["v"])
            if not chars and p.get("k") == "Binding" and "guard" in a:
                # `c if predicate(c) => Kind`: the characters the (crate-local) predicate accepts, evaluated over the
                # character literals its own body mentions
                g = peel(a["guard"])
                body_ = peel(a["body"])
                while body_.get("k") == "Block" and body_.get("tail") is not None and not body_.get("stmts"):
                    body_ = peel(body_["tail"])
                v_ = ctor_variant(body_)
                if g.get("k") == "Call" and len(g.get("args", [])) == 1 and v_ and v_[0] == TK:
                    pth = (callee(g) or "").split("::<")[0]
                    pf = crate.hir.get(pth)
                    arg = peel_refs(g["args"][0])
                    if pf is not None and arg.get("k") == "Path" and arg.get("res", {}).get("id") == p.get("id"):
                        from idchars import CharEval

                        ce = CharEval(crate)
                        cands = sorted({y["lit"]["v"] for y in walk(pf["body"]) if y.get("k") == "Lit" and isinstance(y.get("lit"), dict) and y["lit"].get("lk") == "char"})
                        for ch in cands:
                            try:
                                if ce.call(pth, ch) is True:
                                    out.setdefault(ch, v_[1])
                            except Exception:
                                pass
                continue
            if not chars:
                continue
            second = None
            if "guard" in a:
                g = peel(a["guard"])
                for x in walk(g):
                    if x.get("k") == "MethodCall" and x["name"] == "match_char":
                        lit = peel_refs(x["args"][-1])
                        if lit.get("k") == "Lit":
                            second = lit["lit"]["v"]
                if second is None and g.get("k") != "Lit":
                    # other guards (scopes, peeks): the plain arm below is the general one
                    simple_guard = False
                else:
                    simple_guard = True
            body = peel(a["body"])
            while body.get("k") == "Block" and body.get("tail") is not None:
                body = peel(body["tail"])
            v = ctor_variant(body)
            if not v or v[0] != TK:
                continue
            for c in chars:
                sp = c + (second or "")
                if "guard" in a and second is None:
                    continue
                out.setdefault(sp, v[1])
    # unicode exponents: ⁻ + exponent char
    for c in "¹²³⁴⁵⁶⁷⁸⁹":
        if c in out:
            out.setdefault("⁻" + c, out[c])
    return out


class Level:
    def __init__(self, name):
        self.name = name
        self.events = []  # (pos, 'match', {kinds}) | (pos, 'operand', callee) | (pos, 'implicit')
        self.loop = False
        self.binop = False
        self.depth = None


def kinds_in(node):
    out = set()
    for x in walk(node):
        if x.get("k") == "Path" and x["res"].get("adt") == TK and x["res"].get("variant"):
            out.add(x["res"]["variant"])
    return out


def in_loop_nodes(body):
    ids = set()
    for n in walk(body):
        if n.get("k") == "Loop":
            for x in walk(n["body"]):
                ids.add(id(x))
    return ids


def analyse_level(crate, fn, level_names):
    lv = Level(fn["name"])
    loops = in_loop_nodes(fn["body"])
    for n in walk(fn["body"]):
        if n.get("k") != "MethodCall":
            continue
        c = callee(n) or ""
        pos = (n["s"][0], n["s"][1])
        if c == PARSER + "parse_binop":
            kinds = kinds_in(n["args"][1])
            lv.binop = True
            # operand parser: callee inside the closure argument
            opc = None
            for a in n["args"]:
                a = peel(a)
                if a.get("k") == "Closure":
                    for x in walk(a["body"]):
                        if x.get("k") == "MethodCall" and (callee(x) or "").startswith(PARSER):
                            nm = callee(x)[len(PARSER):]
                            if nm in level_names:
                                opc = nm
            lv.events.append((pos, "operand", opc))
            lv.events.append(((pos[0], pos[1] + 1), "match", kinds, True))
            lv.events.append(((pos[0], pos[1] + 2), "operand", opc))
        elif c in (PARSER + "match_exact", PARSER + "match_any", PARSER + "match_exact_beyond_linebreaks"):
            kinds = kinds_in(n["args"][1:])
            if kinds:
                lv.events.append((pos, "match", kinds, id(n) in loops))
        elif c == PARSER + "next_token_could_start_power_expression":
            lv.events.append((pos, "implicit", None, id(n) in loops))
        elif c.startswith(PARSER):
            nm = c[len(PARSER):]
            if nm in level_names:
                lv.events.append((pos, "operand", nm))
    lv.events.sort(key=lambda e: e[0])
    return lv


def rule_prec(crate, repo):
    out = RuleOut("PREC", "the nesting of the parser's level functions reproduces the documented precedence table and associativity")
    doc = os.path.join(repo, "book", "src", "basics", "operations.md")
    rows = doc_rows(doc)
    docrel = "book/src/basics/operations.md"
    if len(rows) < 17:
        out.error("anchor missing: operator table in %s (found %d rows)" % (docrel, len(rows)))
        return out
    # ---- level chain (longest-path depth, see level_chain)
    lc = level_chain(crate)
    if lc is None:
        out.error("anchor missing: Parser::expression")
        return out
    fns, levels, depth = lc
    start = "expression"
    level_names = set(levels)
    f = crate.file_of(fns[start])

    def find_level(kind, position):
        """level function that consumes token `kind` as prefix / infix(postfix)"""
        hits = []
        for nm, lv in levels.items():
            first_operand = next((i for i, e in enumerate(lv.events) if e[1] == "operand"), None)
            for i, e in enumerate(lv.events):
                if e[1] == "match" and kind in e[2]:
                    pre = first_operand is None or i < first_operand
                    if (position == "prefix") == pre:
                        hits.append(nm)
                        break
        return hits

    tokmap = tokenizer_map(crate)
    # expected (token kinds, position) per documented row, derived from the documented spellings
    expect = []
    for (name, snippets, ln) in rows:
        kinds = set()
        unknown = []
        position = "infix"
        implicit = False
        for sn in snippets:
            sn = sn.strip()
            if sn in ("…", "..."):
                continue
            sp = spelling_of(sn)
            if sn.startswith("if "):
                sp = "if"
                position = "prefix"
            elif sp == "" and "(" not in sn:
                implicit = True
                continue
            elif re.match(r"^[^\sxyzfA-Za-z0-9]+\s*[xyzf]$", sn):
                position = "prefix"
            # `x!!`, `x!!!`: repetitions of one token
            if sp and len(set(sp)) == 1 and len(sp) > 1 and sp[0] == "!":
                sp = "!"
            if sp in tokmap:
                kinds.add(tokmap[sp])
            else:
                unknown.append(sn)
        expect.append((name, kinds, position, implicit, unknown, ln))

    row_level = []
    for (name, kinds, position, implicit, unknown, ln) in expect:
        key = "row:%s:%s" % (ln - rows[0][2] + 1, name.replace(" ", "_"))
        for u in unknown:
            out.violation(key + ":spelling", docrel, ln, "documented spelling `%s` is not produced as a token by Tokenizer::scan_single_token" % u)
        lvl = set()
        if implicit:
            for nm, lv in levels.items():
                if any(e[1] == "implicit" for e in lv.events):
                    lvl.add(nm)
        for k in kinds:
            hits = find_level(k, position)
            if not hits:
                out.violation(key + ":" + k, docrel, ln, "no parser level consumes token %s as %s operator (documented in row `%s`)" % (k, position, name))
            lvl |= set(hits)
        # a token may be consumed at several levels (e.g. `-` after `^`); keep the shallowest that is a chain level
        lv_names = [x for x in lvl if x in depth]
        if not lv_names:
            out.violation(key, docrel, ln, "row `%s` could not be located in the parser's level chain" % name)
            row_level.append((name, None, ln, key))
            continue
        chosen = min(lv_names, key=lambda x: depth[x])
        row_level.append((name, chosen, ln, key))
    # ---- precedence order: rows are listed from high to low precedence
    n_pairs = 0
    for i in range(len(row_level) - 1):
        a = row_level[i]
        b = row_level[i + 1]
        if a[1] is None or b[1] is None:
            continue
        n_pairs += 1
        key = "order:%s>%s" % (a[0].replace(" ", "_"), b[0].replace(" ", "_"))
        if depth[a[1]] >= depth[b[1]]:
            out.ok(key, docrel, a[2], "`%s` is parsed by %s (depth %d) ≥ `%s` by %s (depth %d)" % (a[0], a[1], depth[a[1]], b[0], b[1], depth[b[1]]))
        else:
            out.violation(key, f, fns[a[1]]["line"], "`%s` is documented to bind tighter than `%s`, but it is parsed by Parser::%s (depth %d), which is above Parser::%s (depth %d)" % (a[0], b[0], a[1], depth[a[1]], b[1], depth[b[1]]))
    # ---- associativity facts stated in the property
    def lv_of(rowname):
        for (nm, l, ln, key) in row_level:
            if nm.startswith(rowname):
                return l
        return None

    pw = lv_of("exponentiation")
    if pw:
        lv = levels[pw]
        # right operand parsed by a self call after the match, and the match is not inside a loop
        ev = lv.events
        mi = next((i for i, e in enumerate(ev) if e[1] == "match" and "Power" in e[2]), None)
        right_self = mi is not None and any(e[1] == "operand" and e[2] == pw for e in ev[mi + 1:])
        looped = mi is not None and ev[mi][3]
        if right_self and not looped:
            out.ok("assoc:power:right", f, fns[pw]["line"], "`^` parses its right operand by recursion into Parser::%s (right-associative)" % pw)
        else:
            out.violation("assoc:power:right", f, fns[pw]["line"], "exponentiation is not right-associative (right operand is not parsed by self-recursion, or the operator is matched in a loop)")
    cv = lv_of("unit conversion")
    if cv:
        lv = levels[cv]
        if lv.binop or any(e[1] == "match" and e[3] for e in lv.events):
            out.ok("assoc:conversion:left", f, fns[cv]["line"], "conversions are folded in a loop (left-associative)")
        else:
            out.violation("assoc:conversion:left", f, fns[cv]["line"], "conversions are not left-associative")
    # parse_binop itself folds to the left: loop { match_any; next_parser }
    pb = fns.get("parse_binop")
    if pb is not None:
        loops = [n for n in walk(pb["body"]) if n.get("k") == "Loop"]
        has = any(any(x.get("k") == "MethodCall" and x["name"] == "match_any" for x in walk(l)) for l in loops)
        if has:
            out.ok("assoc:parse_binop:left-fold", f, pb["line"], "parse_binop matches operators in a loop and nests the accumulated expression as lhs")
        else:
            out.violation("assoc:parse_binop:left-fold", f, pb["line"], "parse_binop does not fold operators in a loop")
    # ---- associativity per level, from the grammar the parser documents in its own module comment:
    #   A ::= B ( op C ) *     iteration: operands are folded in a loop, left-associative — A must not call itself
    #   A ::= … A …            recursion into A is part of the production (power, unary, logical_neg, condition)
    grammar = {}
    try:
        with open(os.path.join(repo, f), encoding="utf-8") as src:
            for line in src:
                mm = re.match(r"^//!\s*([a-z_]+)\s*::=\s*(.*?)\s*$", line)
                if mm:
                    grammar[mm.group(1)] = mm.group(2)
    except OSError:
        grammar = {}
    n_gram = 0
    for nm in sorted(levels):
        if nm not in depth or nm not in grammar:
            continue
        rhs = grammar[nm]
        iterative = bool(re.search(r"\)\s*\*\s*$", rhs)) and not re.search(r"\b%s\b" % re.escape(nm), rhs)
        if not iterative:
            continue
        n_gram += 1
        body = fns[nm]["body"]
        self_calls = [x for x in walk(body) if x.get("k") == "MethodCall" and (callee(x) or "") == PARSER + nm]
        loops = [x for x in walk(body) if x.get("k") == "Loop"]
        folds = levels[nm].binop or any(any(y.get("k") == "MethodCall" and (callee(y) or "").startswith(PARSER) for y in walk(l)) for l in loops)
        key = "assoc:%s:left" % nm
        if self_calls:
            sf, sl = crate.loc(fns[nm], self_calls[0])
            out.violation(key, sf, sl, "the parser documents `%s ::= %s` — an iteration, i.e. operands are combined from the left — but Parser::%s parses its right operand by calling itself: `a b c` is read as `a (b c)` (e.g. `2 3 °C` becomes 2 × (3 °C))" % (nm, rhs, nm))
        elif folds:
            out.ok(key, f, fns[nm]["line"], "documented as an iteration `%s`; operands are folded in a loop" % rhs)
        else:
            out.advisory(key, f, fns[nm]["line"], "documented as an iteration `%s`; no loop and no self-recursion found (not decided)" % rhs)
    out.floor("iterative_levels", n_gram, 8)
    # ---- operands parsed at a LOOSER level must be bracketed: a level function may hand an operand to a shallower
    # level (primary -> expression inside parentheses, list/struct/argument/interpolation elements, the `if` and
    # `then` parts of a conditional) only when a closing token is matched after it; an unbracketed up-call lets the
    # operand swallow operators that bind looser than the calling level
    CLOSERS = {"RightParen", "RightBracket", "RightCurly", "Comma", "Then", "Else", "StringInterpolationSpecifiers", "StringInterpolationMiddle", "StringInterpolationEnd"}
    n_up = 0
    for nm, lv in sorted(levels.items()):
        if nm not in depth:
            continue
        k = 0
        for i, e in enumerate(lv.events):
            if e[1] != "operand" or not e[2] or e[2] not in depth or depth[e[2]] >= depth[nm]:
                continue
            n_up += 1
            later = [x for x in lv.events[i + 1:] if x[1] == "match"]
            key = "upcall:%s->%s#%d" % (nm, e[2], k)
            k += 1
            line = e[0][0]
            if later and (later[0][2] & CLOSERS):
                out.ok(key, f, line, "operand parsed at the looser level `%s` is closed by %s" % (e[2], "/".join(sorted(later[0][2] & CLOSERS))))
            else:
                out.violation(key, f, line, "`%s` (depth %d) parses an operand with the looser level `%s` (depth %d) and no closing token follows: that operand swallows every operator that binds looser than `%s`, contradicting the documented precedence (e.g. `if c then a else b |> f`)" % (nm, depth[nm], e[2], depth[e[2]], nm))
    out.floor("bracketed_upcalls", n_up, 4)
    out.analysed = {"doc_rows": len(rows), "levels": len(levels), "chain_depth": max(depth.values()) if depth else 0, "ordered_pairs": n_pairs, "token_spellings": len(tokmap)}
    out.floor("doc_rows", len(rows), 17)
    out.floor("levels", len(depth), 17)
    out.floor("ordered_pairs", n_pairs, 16)
    return out


# ---------------------------------------------------------------- R4b: operator spelling round trip
BINOP = "crate::ast::BinaryOperator"


def printer_table(crate):
    """{BinaryOperator variant: printed spelling} from <BinaryOperator as PrettyPrint>::pretty_print"""
    fns = [b for d, b in crate.hir.items() if d.endswith("::pretty_print") and (b.get("impl_self") or "").endswith("BinaryOperator")]
    if not fns:
        return None, None
    fn = fns[0]
    table = {}
    for m in walk(fn["body"]):
        if m.get("k") != "Match" or str(m.get("src")) != "Normal":
            continue
        rows = {}
        for a in m["arms"]:
            vs = None
            from hirlib import pat_variants

            vs = pat_variants(a["pat"], BINOP)
            body = peel_refs(a["body"])
            if vs and body.get("k") == "Lit" and body["lit"].get("lk") == "str":
                for v in vs:
                    rows[v] = body["lit"]["v"]
        if len(rows) > len(table):
            table = rows
    return fn, table


def parser_operator_map(crate):
    """exact: {TokenKind: BinaryOperator} from parse_binop calls (closure `|_| Op` or `match matched { Kind => Op }`);
    loose: {TokenKind: {ops}} for level functions that match a kind and construct `op: BinaryOperator::X` themselves."""
    exact, loose = {}, {}
    for d, b in crate.hir.items():
        if not d.startswith(PARSER):
            continue
        binops = [n for n in walk(b["body"]) if n.get("k") == "MethodCall" and (callee(n) or "") == PARSER + "parse_binop"]
        for n in binops:
            kinds = kinds_in(n["args"][1])
            cl = peel(n["args"][2])
            if cl.get("k") != "Closure":
                continue
            arms = {}
            for m in walk(cl["body"]):
                if m.get("k") == "Match" and str(m.get("src")) == "Normal":
                    for a in m["arms"]:
                        ks = kinds_in(a["pat"])
                        v = ctor_variant(a["body"])
                        if ks and v and v[0] == BINOP:
                            for k in ks:
                                arms[k] = v[1]
            if arms:
                for k in kinds:
                    if k in arms:
                        exact[k] = arms[k]
            else:
                v = ctor_variant(cl["body"])
                if v and v[0] == BINOP:
                    for k in kinds:
                        exact[k] = v[1]
        if not binops:
            ops = set()
            for n in walk(b["body"]):
                if n.get("k") == "Path" and n["res"].get("adt") == BINOP and n["res"].get("variant"):
                    ops.add(n["res"]["variant"])
            ks = set()
            for n in walk(b["body"]):
                if n.get("k") == "MethodCall" and (callee(n) or "") in (PARSER + "match_exact", PARSER + "match_any", PARSER + "match_exact_beyond_linebreaks"):
                    ks |= kinds_in(n["args"][1:])
            for k in ks:
                loose.setdefault(k, set()).update(ops)
    return exact, loose


def rule_oprt(crate):
    out = RuleOut("OPRT", "every operator spelling the printer emits is lexed to a token the parser maps back to the same operator")
    fn, table = printer_table(crate)
    if not fn or not table:
        out.error("anchor missing: <BinaryOperator as PrettyPrint>::pretty_print spelling table")
        return out
    f = crate.file_of(fn)
    tok = tokenizer_map(crate)
    exact, loose = parser_operator_map(crate)
    adt = crate.adt(BINOP)
    for v in [x["name"] for x in adt["variants"]]:
        key = "binary:%s" % v
        if v not in table:
            out.violation(key, f, fn["line"], "the printer has no spelling for BinaryOperator::%s" % v)
            continue
        sp = table[v]
        kind = tok.get(sp)
        if kind is None:
            out.violation(key, f, fn["line"], "BinaryOperator::%s is printed as `%s`, which the tokenizer does not produce as one operator token" % (v, sp))
            continue
        if kind in exact:
            if exact[kind] == v:
                out.ok(key, f, fn["line"], "`%s` -> TokenKind::%s -> BinaryOperator::%s" % (sp, kind, v))
            else:
                out.violation(key, f, fn["line"], "BinaryOperator::%s is printed as `%s`; the tokenizer reads that as TokenKind::%s, which the parser turns into BinaryOperator::%s: the echoed form means something else" % (v, sp, kind, exact[kind]))
        elif v in loose.get(kind, set()):
            out.ok(key, f, fn["line"], "`%s` -> TokenKind::%s -> matched by a level function that builds BinaryOperator::%s" % (sp, kind, v))
        else:
            out.violation(key, f, fn["line"], "BinaryOperator::%s is printed as `%s` (TokenKind::%s), but no parser level maps that token to %s" % (v, sp, kind, v))
    out.analysed = {"printed_operators": len(table), "tokenizer_spellings": len(tok), "parser_exact": len(exact), "parser_loose": len(loose)}
    out.floor("printed_operators", len(table), 14)
    out.floor("parser_exact", len(exact), 12)
    return out


# ---------------------------------------------------------------- PARENS
AST_E = "crate::ast::Expression"
TYPED_E = "crate::typed_ast::Expression"
# typed variants that have no parser-level twin of the same name: (typed variant -> ast variant, why)
PARENS_RENAMES = {
    "UnitIdentifier": ("Identifier", "created from an Identifier by the prefix transformer"),
    "CallableCall": ("FunctionCall", "a call whose callee is an expression; same call syntax"),
    "BinaryOperatorForDate": ("BinaryOperator", "a binary operator on date-times"),
}


def level_chain(crate):
    fns = {b["name"]: b for d, b in crate.hir.items() if d.startswith(PARSER)}
    start = "expression"
    if start not in fns:
        return None
    level_names = set()
    stack = [start]
    while stack:
        x = stack.pop()
        if x in level_names or x not in fns:
            continue
        if "Expression" not in fns[x].get("ret", ""):
            continue
        if x in ("parse_binop",):
            continue
        level_names.add(x)
        for n in walk(fns[x]["body"]):
            if n.get("k") == "MethodCall" and (callee(n) or "").startswith(PARSER):
                stack.append(callee(n)[len(PARSER):])
    levels = {nm: analyse_level(crate, fns[nm], level_names) for nm in level_names}
    # depth = length of the LONGEST simple path of operand edges from `expression` (a level that is also reached by a
    # short cut — `x // f` parses its right side with `call` — still sits where the full chain puts it)
    succ = {nm: sorted({e[2] for e in levels[nm].events if e[1] == "operand" and e[2]}) for nm in levels}
    depth = {}

    def dfs(x, d, path):
        if d > depth.get(x, -1):
            depth[x] = d
        for y in succ.get(x, []):
            if y not in path:
                dfs(y, d + 1, path | {y})

    dfs(start, 0, {start})
    return fns, levels, depth


def constructed_variants(crate, fn):
    out = set()
    for n in walk(fn["body"]):
        v = None
        if n.get("k") in ("Struct", "Call"):
            v = ctor_variant(n)
        if v and v[0] == AST_E:
            out.add(v[1])
    # parse_binop builds BinaryOperator nodes on behalf of its callers
    if any(x.get("k") == "MethodCall" and (callee(x) or "") == PARSER + "parse_binop" for x in walk(fn["body"])):
        out.add("BinaryOperator")
    return out


def rule_parens(crate):
    """The printer may leave a sub-expression unparenthesised in operand position only if the parser builds that kind
    of expression at (or below) the call level — the levels that bind tighter than every prefix, infix and postfix
    operator.  Anything built at an operator level (unary minus, factorial, binary operators, if-then-else) printed
    bare next to another operator is re-read with a different structure (`(3!)!` -> `3!!`)."""
    from hirlib import pat_variants, strip_generics

    out = RuleOut("PARENS", "sub-expressions printed without parentheses are exactly kinds the parser builds at the call/primary levels")
    lc = level_chain(crate)
    wp = crate.find_fn("typed_ast::with_parens")
    f = crate.file_of(wp)
    if lc is None:
        out.error("anchor missing: Parser::expression")
        return out
    fns, levels, depth = lc
    built = {}  # ast variant -> depth of the deepest level that builds it
    for nm in levels:
        if nm not in depth:
            continue
        for v in constructed_variants(crate, fns[nm]):
            built[v] = max(built.get(v, -1), depth[nm])
    if "FunctionCall" not in built:
        out.error("anchor missing: no parser level builds Expression::FunctionCall")
        return out
    threshold = built["FunctionCall"]
    operator_levels = {v: d for v, d in built.items() if d < threshold}
    n = 0
    from wpeval import evaluate

    variants = [x["name"] for x in crate.adt(TYPED_E)["variants"]]
    table, ev, why = evaluate(crate, wp, variants)
    if table is None:
        out.error("anchor missing: " + why)
        return out
    bare_variants = set()
    for v in variants:
        n += 1
        rows = table[v]
        bare_rows = [r for r in rows if r[1] == "bare"]
        node = (bare_rows or rows)[0][2]
        af, al = crate.loc(wp, node)
        av = PARENS_RENAMES.get(v, (v,))[0]
        key = "with_parens:%s" % v
        if not bare_rows:
            out.ok(key, af, al, "parenthesised (in all %d case(s))" % len(rows))
            continue
        bare_variants.add(v)
        if av not in built:
            out.advisory(key, af, al, "printed bare; the parser builds no Expression::%s (not decided)" % av)
        elif built[av] >= threshold:
            out.ok(key, af, al, "printed bare; built by the parser at depth %d >= call level %d" % (built[av], threshold))
        else:
            out.violation(key, af, al, "Expression::%s is printed without parentheses in operand position, but the parser builds it at an operator level (depth %d, above the call level %d): next to another operator the echoed text is re-read with a different structure (e.g. `(3!)!` echoed as `3!!`)" % (v, built[av], threshold))
    # ---- negative number literals: the parser turns a unicode exponent with a minus sign (`km⁻¹`) into a Scalar with
    # a NEGATIVE value; printed bare it starts with the operator `-` (`kilometre^-1`), which reads back as a negation
    # and is then echoed differently (`kilometre^(-1)`): with_parens must test the sign of a Scalar
    uxi = crate.hir.get(PARSER + "unicode_exponent_to_int")
    up = crate.hir.get(PARSER + "unicode_power")
    signed = uxi is not None and any((y.get("k") == "Unary" and str(y.get("op")) == "Neg") or (y.get("k") == "Lit" and isinstance(y.get("lit"), dict) and str(y["lit"].get("v", "")).startswith("-")) for y in walk(uxi["body"]))
    builds = up is not None and any((ctor_variant(y) or ("", ""))[1] == "Scalar" for y in walk(up["body"]) if y.get("k") in ("Call", "Struct")) and any(y.get("k") in ("Call", "MethodCall") and (callee(y) or "").endswith("unicode_exponent_to_int") for y in walk(up["body"]))
    if uxi is None or up is None:
        out.error("anchor missing: Parser::unicode_power / unicode_exponent_to_int")
    elif signed and builds:
        n += 1
        sign_tested = False
        for (asg, res, _n) in table.get("Scalar", []):
            if res != "paren":
                continue
            for name, val in asg.items():
                node = ev.atoms.get(name)
                if val and node is not None:
                    for y in walk(node):
                        if (y.get("k") == "Binary" and str(y.get("op")) in ("<", "<=", ">", ">=")) or (y.get("k") == "MethodCall" and y["name"] in ("is_negative", "is_sign_negative", "is_positive", "is_sign_positive", "signum")):
                            sign_tested = True
        if sign_tested:
            out.ok("with_parens:Scalar:negative", f, wp["line"], "a Scalar with a negative value is parenthesised")
        else:
            out.violation("with_parens:Scalar:negative", f, wp["line"], "Parser::unicode_power builds a Scalar with a NEGATIVE value for exponents like `⁻¹`, and with_parens prints every Scalar bare: `km⁻¹` is echoed as `kilometre^-1`, whose re-read is echoed as `kilometre^(-1)` — the echo is not stable")
    # ---- sugar forms: a kind that with_parens leaves bare must not PRINT as an operator expression.  In the printing
    # arm of such a kind, an emitted operator/keyword whose token is consumed by a level looser than `call` (->, +, …)
    # is allowed only for the callee names that with_parens parenthesises: the names tested by a condition of
    # with_parens which, when true, leads to parentheses for every kind of expression.
    op_kinds = set()
    for nm, lv in levels.items():
        if nm in depth and depth[nm] < threshold:
            for e in lv.events:
                if e[1] == "match":
                    op_kinds |= set(e[2])
    tok = tokenizer_map(crate)
    op_spellings = {sp for sp, kd in tok.items() if kd in op_kinds}
    printers = [b for d, b in crate.hir.items() if d.endswith("::pretty_print") and strip_generics(b.get("impl_self") or "").endswith("typed_ast::Expression")]

    def str_lits(e):
        out_ = set()
        for y in walk(e):
            if y.get("k") == "Lit" and isinstance(y.get("lit"), dict) and y["lit"].get("lk") == "str":
                out_.add(y["lit"]["v"])
        return out_

    paren_names = set()
    for name, node in ev.atoms.items():
        forces = True
        seen = False
        for v in variants:
            for (asg, res, _n) in table[v]:
                if asg.get(name) is True:
                    seen = True
                    if res != "paren":
                        forces = False
        if not (seen and forces):
            continue
        paren_names |= str_lits(node)
        for y in walk(node):
            if y.get("k") in ("Call", "MethodCall"):
                cb = crate.hir.get(callee(y) or "")
                if cb is not None:
                    paren_names |= str_lits(cb["body"])
                    for z in walk(cb["body"]):
                        if z.get("k") in ("Call", "MethodCall"):
                            cb2 = crate.hir.get(callee(z) or "")
                            if cb2 is not None:
                                paren_names |= str_lits(cb2["body"])
    n_sugar = 0
    if printers:
        pfn = printers[0]
        from errd import parent_map

        pm = parent_map(pfn["body"])
        self_ids = {p["id"] for p in pfn["params"] if p.get("k") == "Binding"}
        for pmatch in walk(pfn["body"]):
            if pmatch.get("k") != "Match" or str(pmatch.get("src")) != "Normal":
                continue
            sp = place_path(peel_refs(pmatch["scrut"]))
            if not (sp and sp[0] in self_ids and not sp[2]):
                continue  # a match on an operand (peek at a child's kind), not the printer's dispatch on `self`
            for a in pmatch["arms"]:
                vs = pat_variants(a["pat"], TYPED_E)
                if not vs or not (vs & bare_variants):
                    continue
                for c in walk(a["body"]):
                    if c.get("k") != "Call" or not (callee(c) or "").startswith("crate::markup::"):
                        continue
                    lit = peel_refs(c["args"][0]) if c.get("args") else {}
                    if lit.get("k") != "Lit" or not isinstance(lit.get("lit"), dict) or lit["lit"].get("v") not in op_spellings:
                        continue
                    n_sugar += 1
                    # names this emission is conditional on: literals compared in the enclosing `if`s
                    cond_names = set()
                    cur = c
                    while id(cur) in pm and pm[id(cur)] is not a:
                        p = pm[id(cur)]
                        if p.get("k") == "If":
                            cond_names |= str_lits(p["cond"])
                        cur = p
                    cf, cl = crate.loc(pfn, c)
                    v = sorted(vs & bare_variants)[0]
                    key = "sugar:%s:%s#%d" % (v, lit["lit"]["v"], cl)
                    key = "sugar:%s:%s" % (v, "+".join(sorted(cond_names)) or "unconditional")
                    missing = sorted(cond_names - paren_names)
                    if cond_names and not missing:
                        out.ok(key, cf, cl, "printed with the operator `%s` only for callee names that with_parens parenthesises" % lit["lit"]["v"])
                    elif not cond_names:
                        out.violation(key, cf, cl, "Expression::%s is left bare by with_parens but its printer emits the operator `%s` unconditionally: as an operand it is re-read with a different structure" % (v, lit["lit"]["v"]))
                    else:
                        out.violation(key, cf, cl, "Expression::%s is left bare by with_parens, but for the callee name(s) %s its printer emits the sugar form with the operator `%s` (`x %s °C`), which is not an atomic expression: `(300 K -> °C) + 1` is echoed as `300 kelvin -> °C + 1`" % (v, missing, lit["lit"]["v"], lit["lit"]["v"]))
    out.analysed = {"arms": n, "call_level_depth": threshold, "levels": len(depth), "operator_level_variants": sorted(operator_levels), "sugar_emissions": n_sugar, "parenthesised_names": len(paren_names)}
    out.floor("arms", n, 12)
    return out


# ---------------------------------------------------------------- printer details found by reading echo output
def rule_printfields(crate):
    """(a) STRUCTDEF: the printer of `struct` definitions uses name, kind (the type parameter list) and fields of the
    StructInfo it prints — a field skipped by `..` is silently missing from the echo.
    (b) EXPFMT: in the printer of dimension expressions, the exponent of `^` is written without parentheses only under
    an `is_integer()` test (a rational `1/2` printed bare reads back as `(X^1)/2`)."""
    from hirlib import pat_variants, strip_generics

    out = RuleOut("PRINTFIELDS", "the printers of struct definitions and of dimension-expression exponents lose nothing")
    # (a)
    fns = [b for d, b in crate.hir.items() if d.endswith("::pretty_print") and strip_generics(b.get("impl_self") or "").endswith("typed_ast::Statement")]
    if not fns:
        out.error("anchor missing: <typed_ast::Statement as PrettyPrint>::pretty_print")
        return out
    fn = fns[0]
    f = crate.file_of(fn)
    arm = None
    for m in walk(fn["body"]):
        if m.get("k") == "Match" and str(m.get("src")) == "Normal":
            for a in m["arms"]:
                if pat_variants(a["pat"], "crate::typed_ast::Statement") == {"DefineStruct"}:
                    arm = a
    if arm is None:
        out.error("anchor missing: DefineStruct arm of the statement printer")
    else:
        bound = {}
        for p in walk(arm["pat"]):
            if p.get("k") == "Struct" and (p.get("adt") or "").endswith("StructInfo"):
                for it in p.get("fields", []) or []:
                    if isinstance(it, list) and len(it) == 2:
                        for q in walk(it[1]):
                            if q.get("k") == "Binding":
                                bound[str(it[0])] = q["id"]
            if p.get("k") == "Binding" and crate.ty(p).replace("&", "").strip().endswith("StructInfo"):
                bound["*"] = p["id"]
        used = {x["res"]["id"] for x in walk(arm["body"]) if x.get("k") == "Path" and x["res"].get("r") == "local"}
        af, al = crate.loc(fn, arm["pat"])
        for fld in ("name", "kind", "fields"):
            key = "struct-definition:%s" % fld
            if "*" in bound:
                # whole struct bound: the field must be read somewhere
                reads = any(x.get("k") == "Field" and x.get("name") == fld for x in walk(arm["body"]))
                ok = reads
            else:
                ok = fld in bound and bound[fld] in used
            if ok:
                out.ok(key, af, al, "StructInfo.%s is used by the printer" % fld)
            else:
                out.violation(key, af, al, "the printer of struct definitions does not use StructInfo.%s%s: the echoed definition no longer says the same as the input" % (fld, " (the type parameter list `<D: Dim, …>`)" if fld == "kind" else ""))
    # (c) DECORATORS: a definition that carries decorators is echoed with them (`@aliases(w) let v = 1` without its
    # decorator no longer defines `w`; @name/@url/@description/@example are what `info` shows)
    n_dec = 0
    for m in walk(fn["body"]):
        if m.get("k") != "Match" or str(m.get("src")) != "Normal":
            continue
        for a in m["arms"]:
            vs = pat_variants(a["pat"], "crate::typed_ast::Statement")
            if not vs or len(vs) != 1:
                continue
            v = next(iter(vs))
            # the struct pattern that destructures the definition: the variant itself or a struct in its payload
            carriers = []
            for p in walk(a["pat"]):
                if p.get("k") != "Struct" or not p.get("adt"):
                    continue
                adt = crate.adts.get(p["adt"])
                if not adt:
                    continue
                vv = next((x for x in adt["variants"] if x["name"] == (p.get("variant") or adt["variants"][0]["name"])), None)
                if vv and any(fl.get("name") == "decorators" for fl in vv["fields"]):
                    carriers.append(p)
            for p in carriers:
                n_dec += 1
                bid = None
                for it in p.get("fields", []) or []:
                    if isinstance(it, list) and len(it) == 2 and str(it[0]) == "decorators":
                        for q in walk(it[1]):
                            if q.get("k") == "Binding":
                                bid = q["id"]
                af, al = crate.loc(fn, a["pat"])
                key = "decorators:%s" % v
                used = bid is not None and any(x.get("k") == "Path" and x["res"].get("r") == "local" and x["res"].get("id") == bid for x in walk(a["body"]))
                if used:
                    out.ok(key, af, al, "the decorators of %s are printed" % v)
                else:
                    out.violation(key, af, al, "the printer of Statement::%s does not use its `decorators`: `@aliases(w) let v = 1` is echoed as `let v: Scalar = 1`, after which `w` is unknown; @name/@description/@url/@example are lost as well" % v)
    # (d) BASEUNIT: `unit foo` (no annotation) itself creates the dimension `Foo`; an echo that writes the implicit
    # dimension as an annotation (`unit foo: Foo`) refers to a dimension that does not exist in the session state in
    # which the statement was accepted
    for m in walk(fn["body"]):
        if m.get("k") != "Match" or str(m.get("src")) != "Normal":
            continue
        for a in m["arms"]:
            if pat_variants(a["pat"], "crate::typed_ast::Statement") != {"DefineBaseUnit"}:
                continue
            ts = None
            for p in walk(a["pat"]):
                if p.get("k") == "Struct":
                    for it in p.get("fields", []) or []:
                        if isinstance(it, list) and len(it) == 2 and str(it[0]) == "type_scheme":
                            for q in walk(it[1]):
                                if q.get("k") == "Binding":
                                    ts = q["id"]
            af, al = crate.loc(fn, a["pat"])
            uses = ts is not None and any(x.get("k") == "Path" and x["res"].get("r") == "local" and x["res"].get("id") == ts for x in walk(a["body"]))
            if uses:
                out.violation("base-unit:implicit-dimension-annotation", af, al, "the printer of base-unit definitions writes the INFERRED type where the definition has no annotation: `unit foo` is echoed as `unit foo: Foo`, which is rejected in the same session state (unknown dimension `Foo` — the dimension is created by the un-annotated definition itself)")
            else:
                out.ok("base-unit:implicit-dimension-annotation", af, al, "only a written annotation is echoed")
    if n_dec < 4:
        out.error("anchor missing: fewer than 4 statement printer arms destructure a definition with decorators (%d)" % n_dec)
    # (b)
    tfns = [b for d, b in crate.hir.items() if d.endswith("::pretty_print") and strip_generics(b.get("impl_self") or "").endswith("ast::TypeExpression")]
    if not tfns:
        out.error("anchor missing: <ast::TypeExpression as PrettyPrint>::pretty_print")
        return out
    tf = tfns[0]
    parm = None
    tf_self = {p["id"] for p in tf["params"] if p.get("k") == "Binding"}
    for m in walk(tf["body"]):
        if m.get("k") == "Match" and str(m.get("src")) == "Normal":
            sp = place_path(peel_refs(m["scrut"]))
            if not (sp and sp[0] in tf_self and not sp[2]):
                continue  # a peek at an operand, not the printer's dispatch on `self`
            for a in m["arms"]:
                if pat_variants(a["pat"], "crate::ast::TypeExpression") == {"Power"}:
                    parm = a
    if parm is None:
        out.error("anchor missing: Power arm of the dimension-expression printer")
        return out
    pf, pl = crate.loc(tf, parm["pat"])
    from wpeval import is_paren_wrapper

    # the exponent binding: last field of the Power pattern
    tsp = [p_ for p_ in walk(parm["pat"]) if p_.get("k") == "TupleStruct" and p_.get("pats")]
    exp_id = tsp[0]["pats"][-1].get("id") if tsp and tsp[0]["pats"][-1].get("k") == "Binding" else None
    if exp_id is None:
        out.error("anchor missing: exponent binding of the Power arm of the dimension-expression printer")
        return out

    def mentions_exp(e):
        return any(y.get("k") == "Path" and y.get("res", {}).get("r") == "local" and y["res"].get("id") == exp_id for y in walk(e))

    def template_pieces(y):
        """literal pieces of a format_args! template (byte-string form: <len> <bytes> … 0xC0 = argument … 0x00)"""
        raw, i, res = bytes.fromhex(y["lit"]["v"]), 0, []
        while i < len(raw):
            n_ = raw[i]
            if n_ == 0:
                break
            if n_ < 0x80:
                res.append(raw[i + 1:i + 1 + n_].decode("utf-8", "replace"))
                i += 1 + n_
            else:
                i += 1
        return res

    def has_paren(e):
        for y in walk(e):
            if y.get("k") == "Lit" and isinstance(y.get("lit"), dict):
                if y["lit"].get("lk") == "bytestr" and "v" in y["lit"]:
                    if any("(" in pc for pc in template_pieces(y)):
                        return True
                elif y["lit"].get("v") == "(":
                    return True
            if y.get("k") == "Call" and is_paren_wrapper(crate, callee(y)):
                return True
        return False

    def delegates(e):
        return any(y.get("k") == "Call" and (callee(y) or "").startswith("crate::arithmetic::") and any(mentions_exp(a_) for a_ in y.get("args", [])) for y in walk(e))

    def leaves(i, path):
        tests = {y["name"] for y in walk(i["cond"]) if y.get("k") == "MethodCall"}
        negated = any(y.get("k") == "Unary" and y.get("op") == "Not" for y in walk(i["cond"]))
        for br in ("then", "else"):
            e = i[br]
            inner = peel(e)
            while inner.get("k") == "Block" and not inner.get("stmts") and inner.get("tail") is not None:
                inner = peel(inner["tail"])
            step = path + [(tests, br, negated)]
            if inner.get("k") == "If" and inner.get("else") is not None:
                yield from leaves(inner, step)
            else:
                yield step, e

    matched_form = False
    # the same decision written as a match with guards: `match op { None => .., Some(_) if exp.is_integer() => .., Some(_) => .. }`
    for mm in walk(parm["body"]):
        if mm.get("k") != "Match" or str(mm.get("src")) != "Normal" or not mentions_exp(mm) or len(mm.get("arms", [])) < 2:
            continue
        arms_ = mm["arms"]
        kinds_ = [("paren" if has_paren(a_["body"]) else "delegated" if delegates(a_["body"]) else "bare") for a_ in arms_]
        if "bare" not in kinds_ or len(set(kinds_)) == 1 or not any(mentions_exp(a_["body"]) for a_ in arms_):
            continue
        if not any("guard" in a_ for a_ in arms_) and "Bool" not in str(crate.ty(mm["scrut"])).title():
            continue  # a dispatch on something else (e.g. on the base): not the exponent decision
        mm_decided = True
        for a_, kd in zip(arms_, kinds_):
            if kd != "bare" or not mentions_exp(a_["body"]):
                continue
            gtests = {y["name"] for y in walk(a_.get("guard") or {}) if y.get("k") == "MethodCall"}
            gneg = any(y.get("k") == "Unary" and y.get("op") == "Not" for y in walk(a_.get("guard") or {}))
            others = set()
            for b_ in arms_:
                if b_ is not a_:
                    others |= {y["name"] for y in walk(b_.get("guard") or {}) if y.get("k") == "MethodCall"}
            if "is_integer" in gtests and not gneg:
                out.ok("type-exponent:bare-only-if-integer", pf, pl, "the exponent is written without parentheses only in an arm guarded by is_integer()")
            elif "is_integer" in others:
                out.ok("type-exponent:bare-only-if-integer", pf, pl, "the bare arm follows arms guarded on is_integer() (the guard decides)")
            else:
                out.violation("type-exponent:bare-only-if-integer", pf, pl, "the exponent of a dimension expression is written without parentheses in a match arm that no is_integer() guard protects: `Length^(1/2)` is echoed as `Length^1/2`")
        if mm_decided:
            matched_form = True
    all_ifs = [x for x in walk(parm["body"]) if x.get("k") == "If" and x.get("else") is not None and mentions_exp(x)]
    nested = {id(y) for x in all_ifs for br in ("then", "else") for y in walk(x[br]) if y.get("k") == "If"}
    ifs = [x for x in all_ifs if id(x) not in nested]
    decided = False
    n_leaves = 0
    for i in ifs:
        lv = list(leaves(i, []))
        kinds = [("paren" if has_paren(e) else "delegated" if delegates(e) else "bare") for _p, e in lv]
        if "bare" not in kinds or len(set(kinds)) == 1:
            continue
        decided = True
        for (pth, e), kd in zip(lv, kinds):
            if kd != "bare":
                continue
            n_leaves += 1
            guarded = any("is_integer" in t_ and ((br == "then" and not neg) or (br == "else" and neg)) for t_, br, neg in pth)
            alltests = sorted(set().union(*[t_ for t_, _b, _n in pth]))
            if guarded:
                out.ok("type-exponent:bare-only-if-integer", pf, pl, "the exponent is written without parentheses only under an is_integer() test (%s)" % alltests)
            else:
                out.violation("type-exponent:bare-only-if-integer", pf, pl, "the exponent of a dimension expression is written without parentheses under the test %s, which does not include is_integer(): `Length^(1/2)` is echoed as `Length^1/2`" % alltests)
    if not decided and not matched_form:
        # no decision in the arm: look at the parts of the arm that render the exponent
        blk = peel(parm["body"])
        parts = []
        if blk.get("k") == "Block":
            parts = [st for st in blk.get("stmts", []) if mentions_exp(st)] + ([blk["tail"]] if blk.get("tail") is not None and mentions_exp(blk["tail"]) else [])
        else:
            parts = [blk]
        if parts and all(delegates(p_) and not has_paren(p_) for p_ in parts):
            out.ok("type-exponent:bare-only-if-integer", pf, pl, "the exponent is rendered by the formatter of crate::arithmetic (see EXPSUP / EXPFORM)")
        elif any(has_paren(p_) for p_ in parts):
            out.ok("type-exponent:bare-only-if-integer", pf, pl, "the exponent is always parenthesised")
        else:
            out.violation("type-exponent:bare-only-if-integer", pf, pl, "the exponent of a dimension expression is never parenthesised")
    out.analysed = {"struct_fields": 3, "power_arm_ifs": len(ifs), "decorator_carriers": n_dec}
    return out


def rule_readable(crate):
    """READABLE — the types shown for a generic function use ONE naming of its type parameters.  In the DefineFunction
    arm of Statement::update_readable_types the signature (parameters, return type) is rendered from `fn_type`
    instantiated with the user's type-parameter names; every other readable type created in that arm (the where-clause
    locals) must be rendered from a type derived from that same instantiation — a local rendered from its own type
    scheme gets the default names A, B, … (`where y: A³ = x³` inside `fn cube<D: Dim>`), which the echoed definition
    does not declare."""
    from hirlib import pat_variants, local_of

    out = RuleOut("READABLE", "all readable types of a function definition use the function's own type-parameter names")
    fn = crate.find_fn("typed_ast::Statement::update_readable_types")
    f = crate.file_of(fn)
    arm = None
    for m in walk(fn["body"]):
        if m.get("k") == "Match" and str(m.get("src")) == "Normal":
            for a in m["arms"]:
                if pat_variants(a["pat"], "crate::typed_ast::Statement") == {"DefineFunction"}:
                    arm = a
    if arm is None:
        out.error("anchor missing: DefineFunction arm of update_readable_types")
        return out
    # locals derived from `instantiate_for_printing(Some(type_parameters…))`
    named = set()
    for n in walk(arm["body"]):
        if n.get("k") == "Let" and n.get("init") is not None and any(x.get("k") == "MethodCall" and x["name"] == "instantiate_for_printing" for x in walk(n["init"])):
            for q in walk(n["pat"]):
                if q.get("k") == "Binding":
                    named.add(q["id"])
    changed = True
    lets = [n for n in walk(arm["body"]) if n.get("k") == "Let" and n.get("init") is not None]
    loops = [n for n in walk(arm["body"]) if n.get("k") == "Match" and str(n.get("src")) == "ForLoopDesugar"]
    while changed:
        changed = False
        for n in lets:
            if any(x.get("k") == "Path" and x["res"].get("r") == "local" and x["res"]["id"] in named for x in walk(n["init"])):
                for q in walk(n["pat"]):
                    if q.get("k") == "Binding" and q["id"] not in named:
                        named.add(q["id"])
                        changed = True
        for lp in loops:
            if any(x.get("k") == "Path" and x["res"].get("r") == "local" and x["res"]["id"] in named for x in walk(lp["scrut"])):
                for q in walk(lp["arms"][0]["body"]):
                    if q.get("k") == "Binding" and q["id"] not in named and "Type" in crate.ty(q):
                        named.add(q["id"])
                        changed = True
    calls = [n for n in walk(arm["body"]) if n.get("k") == "Call" and (callee(n) or "").endswith("create_readable_type")]
    n_ok = 0
    for i, c in enumerate(calls):
        cf, cl = crate.loc(fn, c)
        scheme_arg = c["args"][1] if len(c["args"]) > 1 else {}
        from_named = any(x.get("k") == "Path" and x["res"].get("r") == "local" and x["res"]["id"] in named for x in walk(scheme_arg))
        # what is being rendered (assignment target)
        key = "update_readable_types:DefineFunction:readable#%d" % i
        tgt = None
        from errd import parent_map
    pm = parent_map(arm["body"])
    for i, c in enumerate(calls):
        cf, cl = crate.loc(fn, c)
        scheme_arg = c["args"][1] if len(c["args"]) > 1 else {}
        from_named = any(x.get("k") == "Path" and x["res"].get("r") == "local" and x["res"]["id"] in named for x in walk(scheme_arg))
        cur = c
        tgt = "?"
        while id(cur) in pm:
            p = pm[id(cur)]
            if p.get("k") == "Assign":
                lp_ = peel_refs(p["l"])
                tgt = lp_.get("res", {}).get("name") if lp_.get("k") == "Path" else (peel_refs(lp_.get("e", {})).get("res", {}).get("name") if lp_.get("k") == "Unary" else "?")
                break
            cur = p
        key = "update_readable_types:DefineFunction:%s" % (tgt or "?")
        if from_named:
            n_ok += 1
            out.ok(key, cf, cl, "rendered from the function type instantiated with the user's type-parameter names")
        else:
            out.violation(key, cf, cl, "`%s` is rendered from a type scheme of its own, instantiated with default names (A, B, …) instead of the function's type-parameter names: `fn cube<D: Dim>(x: D) -> D^3 = y where y = x^3` is echoed with `where y: A³ = x³`, which does not read back" % tgt)
    out.analysed = {"readable_types_in_arm": len(calls), "named": n_ok}
    out.floor("readable_types_in_arm", len(calls), 3)
    return out


# ---------------------------------------------------------------- OPERANDS: which operands the printer leaves bare
def _op_set(crate, e, op, inits, op_id, depth=0):
    """value of a data-driven operator set (`&[BinaryOperator::Power, …]`, possibly chosen by `if matches!(op, …)` /
    `match op {…}`) for the operator `op` of the enclosing arm; None when the expression is not understood"""
    from hirlib import pat_variants

    e = peel_refs(peel(e))
    k = e.get("k")
    if depth > 6:
        return None
    if k == "Block" and not e.get("stmts") and e.get("tail") is not None:
        return _op_set(crate, e["tail"], op, inits, op_id, depth + 1)
    if k == "Array":
        vals = set()
        for el in e.get("elems", []):
            el = peel_refs(peel(el))
            v = el["res"].get("variant") if el.get("k") == "Path" else None
            if v is None:
                return None
            vals.add(v)
        return vals
    if k == "Path" and e["res"].get("r") == "local" and e["res"]["id"] in inits:
        return _op_set(crate, inits[e["res"]["id"]], op, inits, op_id, depth + 1)

    def arm_hits(a):
        vs = pat_variants(a["pat"], BINOP)
        return vs is None or op in vs

    if k == "If" and e.get("else") is not None:
        c = peel(e["cond"])
        if c.get("k") == "Match" and local_of_(c["scrut"]) == op_id and len(c["arms"]) == 2 and op is not None:
            first = c["arms"][0]
            vs = pat_variants(first["pat"], BINOP)
            b = peel(first["body"])
            if vs is not None and b.get("k") == "Lit" and b["lit"].get("v") in (True, "true"):
                return _op_set(crate, e["then"] if op in vs else e["else"], op, inits, op_id, depth + 1)
        return None
    if k == "Match" and local_of_(e["scrut"]) == op_id and op is not None:
        for a in e["arms"]:
            if "guard" in a:
                return None
            if arm_hits(a):
                return _op_set(crate, a["body"], op, inits, op_id, depth + 1)
    return None


def local_of_(e):
    from hirlib import local_of

    return local_of(peel_refs(peel(e)))


def _match_bare_set(crate, m, all_kinds, op, inits, op_id, is_bare):
    """`|expr| match expr { P [if S.contains(inner_op)] => A, …, _ => B }`"""
    remaining = list(all_kinds)
    bare = set()
    for a in m["arms"]:
        hit = None  # kinds this arm takes out of `remaining`
        top = a["pat"]
        while top.get("k") == "Ref":
            top = top["pat"]
        structs = [p for p in walk(top) if p.get("k") in ("Struct", "TupleStruct") and (p.get("adt") or "") == TYPED_E and p.get("variant")]
        if not structs:
            if any(p.get("k") in ("Struct", "TupleStruct", "Lit", "Path") for p in walk(top)):
                return None
            hit = set(remaining)  # `_` / a binding
            if "guard" in a:
                return None
        else:
            hit = set()
            for p in structs:
                v = p["variant"]
                if v not in ("BinaryOperator", "BinaryOperatorForDate"):
                    hit |= {kd for kd in remaining if kd == v}
                    continue
                ops = {q.get("variant") for q in walk(p) if (q.get("adt") or "") == BINOP and q.get("variant")}
                if ops:
                    hit |= {kd for kd in remaining if kd.split(":")[0] == v and kd.split(":")[1] in ops}
                else:
                    hit |= {kd for kd in remaining if kd.split(":")[0] == v}
            if "guard" in a:
                g = peel(a["guard"])
                # `S.contains(inner_op)` with inner_op bound to the `op` field of the pattern
                op_bind = set()
                for p in structs:
                    for it in p.get("fields", []) or []:
                        if isinstance(it, list) and len(it) == 2 and str(it[0]) == "op":
                            op_bind |= {q["id"] for q in walk(it[1]) if q.get("k") == "Binding"}
                if not (g.get("k") == "MethodCall" and g["name"] == "contains" and g["args"] and local_of_(g["args"][0]) in op_bind):
                    return None
                allowed = _op_set(crate, g["recv"], op, inits, op_id)
                if allowed is None:
                    return None
                hit = {kd for kd in hit if ":" in kd and kd.split(":")[1] in allowed}
        if is_bare(a["body"]):
            bare |= hit
        remaining = [kd for kd in remaining if kd not in hit]
    return bare


def _closure_bare_set(crate, clos, all_kinds, op=None, inits=None, op_id=None):
    """kinds of expression a `|expr| if matches!(expr, P) {A} else {B}` closure prints WITHOUT parentheses"""
    from hirlib import pat_variants

    body = peel(clos["body"])
    if body.get("k") == "Block" and body.get("tail") is not None and not body.get("stmts"):
        body = peel(body["tail"])

    def is_bare(e):
        return not any((callee(y) or "").endswith(("typed_ast::with_parens", "typed_ast::with_parens_liberal")) for y in walk(e) if y.get("k") == "Call")

    if body.get("k") == "Match" and str(body.get("src")) == "Normal":
        return _match_bare_set(crate, body, all_kinds, op, inits or {}, op_id, is_bare)
    if body.get("k") != "If" or body.get("else") is None:
        return None
    cond = peel(body["cond"])
    pats = set()
    mt = cond if cond.get("k") == "Match" else None
    if mt is None:
        for x in walk(cond):
            if x.get("k") == "Match":
                mt = x
                break
    if mt is None:
        return None
    for a in mt["arms"]:
        b = peel(a["body"])
        if not (b.get("k") == "Lit" and isinstance(b.get("lit"), dict) and b["lit"].get("v") in (True, "true")):
            continue
        for p in walk(a["pat"]):
            if p.get("k") in ("Struct", "TupleStruct") and (p.get("adt") or "") == TYPED_E and p.get("variant"):
                v = p["variant"]
                ops = {q.get("variant") for q in walk(p) if (q.get("adt") or "") == BINOP and q.get("variant")}
                if v in ("BinaryOperator", "BinaryOperatorForDate") and ops:
                    for o in ops:
                        pats.add("%s:%s" % (v, o))
                else:
                    pats.add(v)

    then_bare, else_bare = is_bare(body["then"]), is_bare(body["else"])
    if then_bare and not else_bare:
        return set(pats)
    if else_bare and not then_bare:
        out_ = set()
        for kd in all_kinds:
            base = kd.split(":")[0]
            if kd in pats or (base in pats):
                continue
            out_.add(kd)
        return out_
    if then_bare and else_bare:
        return set(all_kinds)
    return set()


def rule_operands(crate, dispositions=None):
    """OPERANDS — an operand is printed without parentheses only where re-reading cannot regroup it.

    binop   in typed_ast::pretty_print_binop, for the arm of operator `op` (parsed at level depth d):
              left operand  bare  =>  its kind is parsed at depth >= d   (same level is fine: left-associative)
              right operand bare  =>  its kind is parsed at depth >  d   (a same-level right operand would be re-read
                                       as the left-nested tree: `a + (b + c)` -> `a + b + c`)
            kinds built at the call/primary levels are always fine; the bare sets are read off the `matches!` closures.
    postfix the object of a field access and the callee of a callable call are printed through with_parens."""
    from hirlib import pat_variants, local_of

    dispositions = dispositions or {}
    out = RuleOut("OPERANDS", "operands are printed bare only where the parser cannot regroup them")
    lc = level_chain(crate)
    if lc is None:
        out.error("anchor missing: Parser::expression")
        return out
    fns, levels, depth = lc
    built = {}
    for nm in levels:
        if nm in depth:
            for v in constructed_variants(crate, fns[nm]):
                built[v] = max(built.get(v, -1), depth[nm])
    threshold = built.get("FunctionCall", 10 ** 6)
    # depth at which each binary operator is parsed (through the printer's own spelling)
    pf, ptab = printer_table(crate)
    tok = tokenizer_map(crate)
    op_depth = {}
    for op, sp in (ptab or {}).items():
        kind = tok.get(sp)
        cands = []
        for nm, lv in levels.items():
            if nm in depth and any(e[1] == "match" and kind in e[2] for e in lv.events):
                cands.append(depth[nm])
        if cands:
            op_depth[op] = min(cands)
    adt = crate.adt(TYPED_E)
    all_ops = [v["name"] for v in crate.adt(BINOP)["variants"]]
    all_kinds = []
    for v in [x["name"] for x in adt["variants"]]:
        if v == "BinaryOperator":
            all_kinds += ["%s:%s" % (v, o) for o in all_ops]
        elif v == "BinaryOperatorForDate":
            # only date-time plus/minus a duration and the difference of two date-times are elaborated to this variant
            all_kinds += ["%s:%s" % (v, o) for o in ("Add", "Sub")]
        else:
            all_kinds.append(v)

    def kind_depth(kd):
        base = kd.split(":")[0]
        if base in ("BinaryOperator", "BinaryOperatorForDate"):
            return op_depth.get(kd.split(":")[1])
        av = PARENS_RENAMES.get(base, (base,))[0]
        return built.get(av)

    fn = crate.find_fn("typed_ast::pretty_print_binop")
    f = crate.file_of(fn)
    ids = [p["id"] for p in fn["params"] if p.get("k") == "Binding"]
    if len(ids) < 3:
        out.error("anchor missing: pretty_print_binop(op, lhs, rhs)")
        return out
    lhs_id, rhs_id = ids[1], ids[2]
    outer = None
    for m in walk(fn["body"]):
        if m.get("k") == "Match" and str(m.get("src")) == "Normal" and "BinaryOperator" in crate.ty(peel_refs(m["scrut"])):
            outer = m
            break
    if outer is None:
        out.error("anchor missing: match on the operator in pretty_print_binop")
        return out
    seen_ops = set()
    n = 0
    for a in outer["arms"]:
        vs = pat_variants(a["pat"], BINOP)
        ops = sorted(vs) if vs else [o for o in all_ops if o not in seen_ops]
        if vs:
            seen_ops |= vs
        closures = {}
        for st in walk(a["body"]):
            if st.get("k") == "Let" and st.get("init") is not None and peel(st["init"]).get("k") == "Closure" and st["pat"].get("k") == "Binding":
                closures[st["pat"]["id"]] = peel(st["init"])
        arm_inits = {}
        for st in walk(a["body"]):
            if st.get("k") == "Let" and st.get("init") is not None and st["pat"].get("k") == "Binding":
                arm_inits[st["pat"]["id"]] = st["init"]

        inline_sugar_safe = {}

        def bare_for(sid, op):
            """kinds printed bare over all printing sites of this operand in the arm, for operator `op`;
            "?" when a closure's shape is not understood"""
            bare = None
            saw_wp = saw_pp = saw_closure = False
            for c in walk(a["body"]):
                if c.get("k") == "Call" and c.get("args") and local_of(c["args"][0]) == sid:
                    cal = callee(c) or ""
                    fl = local_of(c["f"]) if c["f"].get("k") == "Path" else None
                    if fl in closures:
                        saw_closure = True
                        bs = _closure_bare_set(crate, closures[fl], all_kinds, op, arm_inits, ids[0])
                        if bs is None:
                            return "?"
                        bare = (bare or set()) | bs
                    elif cal.endswith("typed_ast::with_parens"):
                        saw_wp = True
                        bare = bare or set()
                    elif cal.endswith("typed_ast::with_parens_liberal"):
                        saw_wp = True
                        bare = (bare or set()) | {"~quantity-literal"}
                elif c.get("k") == "MethodCall" and c["name"] == "pretty_print" and local_of(c["recv"]) == sid:
                    saw_pp = True
                    bare = set(all_kinds)
            if saw_wp and saw_pp and not saw_closure:
                # the decision is written inline (`if needs_parens { with_parens(x) } else { x.pretty_print() }`, possibly
                # through boolean locals): evaluate the arm for every kind of operand
                from wpeval import evaluate

                table, ev_, why_ = evaluate(crate, fn, all_kinds, adt=TYPED_E, body=a["body"], pid=sid)
                if table is None:
                    return "?"
                ev_bare = {kd for kd in all_kinds if any(r[1] == "bare" for r in table[kd])}
                # calls in sugar form: safe iff every case in which is_printed_in_sugar_form holds is parenthesised
                sugar_atoms = [nm for nm in ev_.atoms if "is_printed_in_sugar_form" in nm]
                safe = bool(sugar_atoms) and all(r[1] == "paren" for kd in ("FunctionCall", "CallableCall") for r in table.get(kd, []) if any(r[0].get(nm) for nm in sugar_atoms))
                inline_sugar_safe[(sid, op)] = safe
                return ev_bare
            return bare

        for side, sid in (("lhs", lhs_id), ("rhs", rhs_id)):
            for op in ops:
                d = op_depth.get(op)
                if d is None:
                    continue
                bare = bare_for(sid, op)
                if bare is None:
                    continue
                if bare == "?":
                    n += 1
                    af, al = crate.loc(fn, a["pat"])
                    out.advisory("binop:%s:%s" % (op, side), af, al, "the closure that decides about parentheses for the %s operand of %s has a shape this rule does not evaluate; not decided" % (side, op))
                    continue
                n += 1
                af, al = crate.loc(fn, a["pat"])
                bad = []
                for kd in sorted(bare):
                    if kd == "~quantity-literal":
                        jd = min([depth[nm] for nm, lv in levels.items() if nm in depth and any(e[1] == "implicit" for e in lv.events)] or [10 ** 6])
                        if not (jd > d):
                            bad.append("quantity literal `2 m` (juxtaposition)")
                        continue
                    kdp = kind_depth(kd)
                    if kdp is None or kdp >= threshold:
                        continue
                    if (side == "lhs" and kdp < d) or (side == "rhs" and kdp <= d):
                        bad.append(kd.replace("BinaryOperator:", ""))
                # calls of the temperature functions are PRINTED as `x -> °C` (an expression at the conversion level):
                # a call that is printed bare must not be one of those, unless the conversion level binds tighter here
                conv_d = op_depth.get("ConvertTo")
                if conv_d is not None and ({"FunctionCall", "CallableCall"} & bare) and ((side == "rhs" and conv_d <= d) or (side == "lhs" and conv_d < d)):
                    tested = inline_sugar_safe.get((sid, op), False)
                    for c in walk(a["body"]):
                        if c.get("k") == "Call" and c.get("args") and local_of(c["args"][0]) == sid:
                            fl = local_of(c["f"]) if c["f"].get("k") == "Path" else None
                            if fl in closures and any(y.get("k") == "Call" and (callee(y) or "").endswith("is_printed_in_sugar_form") for y in walk(closures[fl]["body"])):
                                tested = True
                    n += 1
                    skey = "binop:%s:%s:sugar" % (op, side)
                    if tested:
                        out.ok(skey, af, al, "calls printed in their sugar form (`x -> °C`) are singled out before the %s operand of %s is printed bare" % (side, op))
                    else:
                        out.violation(skey, af, al, "the %s operand of `%s` is printed bare when it is a function call, but calls of the temperature functions are printed in the sugar form `x -> °C`, which is a conversion: `1 -> °C(300 K)` is echoed as `1 ➞ 300 kelvin -> °C` and read back as `(1 ➞ 300 K) -> °C`" % (side, op))
                key = "binop:%s:%s" % (op, side)
                if not bad:
                    out.ok(key, af, al, "%s operand of %s: bare only for kinds that bind %s" % (side, op, "at least as tightly" if side == "lhs" else "strictly tighter"))
                else:
                    disp = dispositions.get(key)
                    msg = "the %s operand of `%s` is printed without parentheses when it is %s, which the parser reads at %s precedence: the echoed text regroups (`a %s (b %s c)` is echoed as `a %s b %s c`, a different tree — and for floating point a different value)" % (side, op, "/".join(bad), "the same or lower" if side == "rhs" else "lower", ptab.get(op, op), ptab.get(bad[0], bad[0]) if bad[0] in ptab else "∘", ptab.get(op, op), ptab.get(bad[0], bad[0]) if bad[0] in ptab else "∘")
                    if disp and disp[0] == "witness":
                        out.violation(key, af, al, msg + ". Witness: " + disp[1])
                    else:
                        out.violation(key, af, al, msg)
    # ---- postfix heads
    printers = [b for d, b in crate.hir.items() if d.endswith("::pretty_print") and strip_generics(b.get("impl_self") or "").endswith("typed_ast::Expression")]
    if printers:
        pfn = printers[0]
        for pmatch in walk(pfn["body"]):
            if pmatch.get("k") != "Match" or str(pmatch.get("src")) != "Normal":
                continue
            for a in pmatch["arms"]:
                vs = pat_variants(a["pat"], TYPED_E)
                if not vs or not (vs & {"AccessField", "CallableCall"}):
                    continue
                v = sorted(vs & {"AccessField", "CallableCall"})[0]
                head_field = "expr" if v == "AccessField" else "callable"
                hid = None
                for p in walk(a["pat"]):
                    if p.get("k") == "Struct" and p.get("fields"):
                        for it in p["fields"]:
                            if isinstance(it, list) and len(it) == 2 and str(it[0]) == head_field:
                                for q in walk(it[1]):
                                    if q.get("k") == "Binding":
                                        hid = q["id"]
                if hid is None:
                    continue
                n += 1
                af, al = crate.loc(pfn, a["pat"])
                direct = [c for c in walk(a["body"]) if c.get("k") == "MethodCall" and c["name"] == "pretty_print" and local_of(c["recv"]) == hid]
                wrapped = [c for c in walk(a["body"]) if c.get("k") == "Call" and (callee(c) or "").endswith(("typed_ast::with_parens", "typed_ast::with_parens_liberal")) and c.get("args") and local_of(c["args"][0]) == hid]
                key = "postfix:%s:head" % v
                if direct:
                    out.violation(key, *crate.loc(pfn, direct[0]), detail="the %s of a %s is printed without with_parens: `(if c then a else b)%s` is echoed without its parentheses and re-read as something else" % ("object" if v == "AccessField" else "callee", v, ".x" if v == "AccessField" else "(1)"))
                elif wrapped:
                    out.ok(key, af, al, "printed through with_parens")
                else:
                    out.advisory(key, af, al, "head operand printing not recognised; not decided")
    out.analysed = {"operand_positions": n, "operators_with_depth": len(op_depth)}
    out.floor("operand_positions", n, 10)
    return out
