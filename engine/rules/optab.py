"""R4 OPTAB — sibling tables agree.

(a) opcode operand count: emitter (`Vm::add_op{,1,2,3}` call sites) vs decoder
    (number of unconditional `read_u16()` in the VM arm for the opcode).
(c) prefix tables: `PrefixParser::prefixes()` rows vs `Prefix::as_string_long/short`.
"""
from core import RuleOut
from hirlib import callee, ctor_variant, local_of, pat_variants, peel, peel_refs, strip_generics, walk

OP = "crate::vm::Op"
ADD_OPS = {
    "crate::vm::Vm::add_op": 0,
    "crate::vm::Vm::add_op1": 1,
    "crate::vm::Vm::add_op2": 2,
    "crate::vm::Vm::add_op3": 3,
}


def variants_in(expr, adt):
    """Variants of `adt` that the *value* of expr may be (through if/match/block tails)."""
    out = set()
    e = peel(expr)
    k = e.get("k")
    if k == "Path":
        if e["res"].get("adt") == adt and e["res"].get("variant"):
            out.add(e["res"]["variant"])
    elif k == "If":
        out |= variants_in(e["then"], adt)
        if e.get("else") is not None:
            out |= variants_in(e["else"], adt)
    elif k == "Match":
        for a in e["arms"]:
            out |= variants_in(a["body"], adt)
    elif k == "Block":
        if e.get("tail") is not None:
            out |= variants_in(e["tail"], adt)
    return out


def local_inits(body):
    """local id -> init expression for simple `let x = init;`"""
    m = {}
    for n in walk(body):
        if n.get("k") == "Let" and "src" in n and n.get("init") is not None and n["pat"].get("k") == "Binding":
            m[n["pat"]["id"]] = n["init"]
    return m


def unconditional_calls(node, name_pred, out, cond, depth=0):
    """Collect calls matching name_pred; cond=True when under a branch/loop/closure."""
    if isinstance(node, list):
        for x in node:
            unconditional_calls(x, name_pred, out, cond, depth)
        return
    if not isinstance(node, dict):
        return
    k = node.get("k")
    if k in ("MethodCall", "Call") and name_pred(node):
        out.append((node, cond))
    if k == "If":
        unconditional_calls(node["cond"], name_pred, out, cond, depth)
        unconditional_calls(node["then"], name_pred, out, True, depth)
        if node.get("else") is not None:
            unconditional_calls(node["else"], name_pred, out, True, depth)
        return
    if k == "Match":
        src = str(node.get("src", ""))
        unconditional_calls(node["scrut"], name_pred, out, cond, depth)
        for a in node["arms"]:
            # the Continue arm of `?` and single-arm matches are not branches
            unconditional_calls(a.get("guard"), name_pred, out, True, depth)
            unconditional_calls(a["body"], name_pred, out, True if not src.startswith("TryDesugar") else cond, depth)
        return
    if k in ("Closure", "Loop"):
        for f in ("body",):
            unconditional_calls(node.get(f), name_pred, out, True, depth)
        return
    if k == "Binary" and node.get("op") in ("&&", "||"):
        unconditional_calls(node["l"], name_pred, out, cond, depth)
        unconditional_calls(node["r"], name_pred, out, True, depth)
        return
    for kk, v in node.items():
        if kk in ("s", "t", "at", "res", "lit", "pat"):
            continue
        if kk == "fields" and isinstance(v, list):
            for item in v:
                if isinstance(item, list) and len(item) == 2:
                    unconditional_calls(item[1], name_pred, out, cond, depth)
            continue
        if isinstance(v, (dict, list)):
            unconditional_calls(v, name_pred, out, cond, depth)


def rule_optab_operands(crate, min_ops=38, min_sites=30):
    out = RuleOut("OPTAB", "every opcode is emitted with exactly the number of u16 operands its VM arm decodes")
    adt = crate.adt(OP)
    all_ops = [v["name"] for v in adt["variants"]]
    # ---- decoder
    run = crate.find_fn("vm::Vm::run_without_cleanup")
    decode = {}
    decode_loc = {}
    n_match = 0
    for n in walk(run["body"]):
        if n.get("k") == "Match" and str(n.get("src")) == "Normal" and strip_generics(crate.ty(peel_refs(n["scrut"]))) == OP:
            # the dispatch match is the one whose arms cover the opcodes with explicit variants
            arms = n["arms"]
            explicit = set()
            for a in arms:
                v = pat_variants(a["pat"], OP)
                if v:
                    explicit |= v
            if len(explicit) < len(all_ops) // 2:
                continue  # an inner `match op { Op::Add => .. }` selecting among a few variants
            n_match += 1
            for a in arms:
                vs = pat_variants(a["pat"], OP)
                f, l = crate.loc(run, a["pat"])
                if vs is None:
                    out.violation("decode:wildcard", f, l, "the opcode dispatch has a catch-all arm; opcodes falling into it decode no operands")
                    continue
                reads = []
                unconditional_calls(a["body"], lambda c: c.get("k") == "MethodCall" and (callee(c) or "").endswith("vm::Vm::read_u16"), reads, False)
                n_uncond = sum(1 for (_c, cond) in reads if not cond)
                n_cond = sum(1 for (_c, cond) in reads if cond)
                for v in vs:
                    decode[v] = (n_uncond, n_cond)
                    decode_loc[v] = (f, l)
    if n_match != 1:
        out.error("expected exactly one opcode dispatch match in Vm::run_without_cleanup, found %d" % n_match)
        return out
    # ---- emitter
    emit = {}
    sites = 0
    for d, b in crate.hir.items():
        if d == "crate::vm::vm_basic":
            continue
        inits = None
        for n in walk(b["body"]):
            if n.get("k") != "MethodCall":
                continue
            c = callee(n)
            if c not in ADD_OPS:
                continue
            cnt = ADD_OPS[c]
            arg0 = peel(n["args"][0])
            vs = set()
            cv = ctor_variant(arg0)
            if cv and cv[0] == OP:
                vs = {cv[1]}
            else:
                lid = local_of(arg0)
                if lid is not None:
                    if inits is None:
                        inits = local_inits(b["body"])
                    init = inits.get(lid)
                    if init is not None:
                        vs = variants_in(init, OP)
                if not vs:
                    vs = variants_in(arg0, OP)
            f, l = crate.loc(b, n)
            if not vs:
                out.violation("emit:%s:unresolved" % d.split("::")[-1], f, l, "cannot determine which opcode is emitted by this %s call" % c.split("::")[-1])
                continue
            sites += 1
            for v in vs:
                emit.setdefault(v, []).append((cnt, f, l, d.split("::")[-1]))
    # ---- compare
    for v in all_ops:
        if v not in decode:
            out.violation("op:%s" % v, crate.file_of(run), run["line"], "opcode %s has no decoding arm" % v)
            continue
        nd, ncond = decode[v]
        f, l = decode_loc[v]
        if ncond:
            out.violation("op:%s:conditional-read" % v, f, l, "the VM arm for %s reads %d operand(s) conditionally; the instruction length would depend on run-time values" % (v, ncond))
        es = emit.get(v, [])
        if not es:
            out.advisory("op:%s:never-emitted" % v, f, l, "opcode %s is decoded (%d operands) but never emitted by the compiler" % (v, nd))
            continue
        bad = [e for e in es if e[0] != nd]
        if bad:
            for (cnt, ef, el, fn) in bad:
                out.violation("op:%s" % v, ef, el, "%s emits %s with %d operand(s) but the VM arm at %s:%d decodes %d" % (fn, v, cnt, f, l, nd))
        else:
            out.ok("op:%s" % v, f, l, "%d emission site(s) with %d operand(s) = %d decoded" % (len(es), nd, nd))
    # ---- the disassembler's table (Op::num_operands) agrees with the decoder
    numops = crate.find_fn("vm::Op::num_operands", required=False)
    if numops is not None:
        for n in walk(numops["body"]):
            if n.get("k") == "Match" and str(n.get("src")) == "Normal":
                for a in n["arms"]:
                    vs = pat_variants(a["pat"], OP) or set()
                    body = peel(a["body"])
                    if body.get("k") == "Lit":
                        val = int(body["lit"]["v"])
                        for v in vs:
                            if v in decode and decode[v][0] != val:
                                f, l = crate.loc(numops, a["pat"])
                                out.violation("num_operands:%s" % v, f, l, "Op::num_operands says %d for %s, but it is emitted and decoded with %d operand(s): Vm::disassemble (`numbat --debug`) gets out of step after the first such instruction and transmutes operand bytes into opcodes — undefined behaviour, `numbat --debug -e 1` aborts with 'trying to construct an enum from an invalid value'" % (val, v, decode[v][0]))
                            elif v in decode:
                                f, l = crate.loc(numops, a["pat"])
                                out.ok("num_operands:%s" % v, f, l, "disassembler table agrees with the decoder (%d)" % val)
    out.analysed = {"opcodes": len(all_ops), "decoded": len(decode), "emission_sites": sites}
    out.floor("opcodes", len(decode), min_ops)
    out.floor("emission_sites", sites, min_sites)
    return out
