"""ALIASREG — every name a variable definition introduces goes through the same admission check.

`@aliases(a, b) let x = …` makes x, a and b names of the variable.  The prefix transformer is where a new name is
checked against reserved identifiers (`ans`, `_`) and against the (prefixed) unit names, by registering it with the
prefix parser (add_other_identifier / add_shadowing_identifier).  In Transformer::transform_define_variable every name
that is recorded as a variable name must therefore be registered too — i.e. the registration happens for the loop
variable of the loop over decorator::name_and_aliases, not once for the primary identifier.  Otherwise
`@aliases(ans) let x = 1` or `@aliases(m) let w = "seven"` are accepted although `let ans = 1` / `let m = …` are not,
and the checker (which types the alias) and the compiler (which still reads `m` as metre) disagree — a type confusion
that ends in a panic.  (Units: register_name_and_aliases already registers each alias; it is the sibling this rule
holds variables to.)"""
from core import RuleOut
from hirlib import callee, local_of, peel, peel_refs, walk

REG = ("add_other_identifier", "add_shadowing_identifier", "add_unit")


def _loops_over_aliases(fn):
    """loops (for-loops or iterator closures) over decorator::name_and_aliases*(…): [(loop node, ids bound by its pattern)]"""
    res = []
    for x in walk(fn["body"]):
        if x.get("k") == "Match" and str(x.get("src", "")).startswith("ForLoop") and x["scrut"].get("k") == "Call" and (callee(x["scrut"]) or "").endswith("IntoIterator::into_iter"):
            it = x["scrut"]["args"][0] if x["scrut"].get("args") else {}
            if any(y.get("k") == "Call" and "name_and_aliases" in (callee(y) or "") for y in walk(it)):
                ids = set()
                for inner in walk(x):
                    if inner.get("k") == "Match" and inner is not x:
                        for a in inner["arms"]:
                            if any(p.get("variant") == "Some" for p in walk(a["pat"])):
                                ids |= {q["id"] for q in walk(a["pat"]) if q.get("k") == "Binding"}
                        break
                res.append((x, ids))
    # iterator form: name_and_aliases(..).map(|(alias, ..)| { register(alias)?; .. }) / for_each / try_for_each
    for x in walk(fn["body"]):
        if x.get("k") == "MethodCall" and x["name"] in ("map", "for_each", "try_for_each", "filter_map", "flat_map", "inspect") and x.get("args"):
            if not any(y.get("k") == "Call" and "name_and_aliases" in (callee(y) or "") for y in walk(x["recv"])):
                continue
            cl = peel(x["args"][0])
            if cl.get("k") != "Closure":
                continue
            ids = set()
            for p in cl.get("params", []) or []:
                ids |= {q["id"] for q in walk(p.get("pat", p)) if q.get("k") == "Binding"}
            res.append((cl, ids))
    return res


def rule_aliasreg(crate):
    out = RuleOut("ALIASREG", "the name and every alias of a definition are registered with (and checked by) the prefix parser")
    n = 0
    for path, what in (("prefix_transformer::Transformer::transform_define_variable", "variable"), ("prefix_transformer::Transformer::register_name_and_aliases", "unit")):
        fn = crate.find_fn(path)
        f = crate.file_of(fn)
        loops = _loops_over_aliases(fn)
        regs = [x for x in walk(fn["body"]) if x.get("k") == "MethodCall" and x["name"] in REG]
        n += 1
        key = "%s:every-alias-registered" % path.split("::")[-1]
        if not loops:
            out.error("anchor missing: no loop over decorator::name_and_aliases in %s" % path)
            continue
        if not regs:
            out.violation(key, f, fn["line"], "%s names are never registered with the prefix parser" % what)
            continue
        inside = []
        for r in regs:
            for (lp, ids) in loops:
                if any(y is r for y in walk(lp)) and r.get("args") and any(local_of(a) in ids for a in r["args"]):
                    inside.append(r)
        outside = [r for r in regs if not any(r is i for i in inside)]
        if inside and not outside:
            out.ok(key, f, fn["line"], "every name yielded by name_and_aliases is passed to %s" % "/".join(sorted({r["name"] for r in inside})))
        else:
            rf, rl = crate.loc(fn, (outside or regs)[0])
            out.violation(key, rf, rl, "%s registers only the primary identifier with the prefix parser (%s outside of the loop over name_and_aliases); the aliases are recorded as %s names without the reserved-identifier and unit-clash checks: `@aliases(ans) let x = 1` and `@aliases(m) let w = 'seven'` are accepted (then `ans` / `m` have the alias's type and the old meaning's value: `str_length(m)` panics)" % (path.split("::")[-1], (outside or regs)[0]["name"], what))
    out.analysed = {"definition_kinds": n}
    out.floor("definition_kinds", n, 2)
    return out
