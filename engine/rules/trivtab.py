"""TRIVTAB — the constraint solver's *trivial* resolution of `IsDType(t)` agrees with the predicate `Type::is_dtype`
the elaborator branches on.

elaborate_expression treats closed operand types (annotated code) and open ones (inferred code) on different paths:
for closed types it asks `is_dtype()` and then adds `IsDType` constraints through enforce_dtype; for open types it only
records the equality.  The two paths accept the same programs only if `IsDType(t)` is decided on the spot exactly like
`t.is_dtype()` whenever t is closed — Satisfied (and dropped) for the types is_dtype accepts, type parameters included,
Violated for all others — and is kept (Unknown) when t is not closed.

Decided by abstract evaluation of try_trivial_resolution, whatever its shape (guarded arms, an inner match on the type,
if/else chains): the arms for `Constraint::IsDType` are evaluated for every truth assignment of the atoms
  C = t.is_closed()      D = t.is_dtype()  (or: t matches the variants is_dtype accepts)      U1.. = any other test
and the resulting table must be  C∧D -> Satisfied,  C∧¬D -> Violated,  ¬C -> Unknown  for ALL values of the other
atoms (an extra test that can change the answer for closed types is exactly what makes annotated code stricter or
laxer than inferred code)."""
import itertools

from core import RuleOut
from hirlib import ctor_variant, local_of, pat_variants, peel, peel_refs, strip_generics, walk

TYPE = "crate::typed_ast::Type"
CONSTRAINT = "crate::typechecker::constraints::Constraint"
TRIV = "crate::typechecker::constraints::TrivialResolution"


class Unknown(Exception):
    pass


def dtype_variants(crate):
    fn = crate.find_fn("typed_ast::Type::is_dtype")
    pos = set()
    for m in walk(fn["body"]):
        if m.get("k") == "Match":
            for a in m["arms"]:
                vs = pat_variants(a["pat"], TYPE)
                b = peel(a["body"])
                if vs and b.get("k") == "Lit" and b["lit"].get("lk") == "bool" and b["lit"]["v"] in (True, "true"):
                    pos |= vs
    return fn, pos


class Eval:
    def __init__(self, crate, pos):
        self.crate = crate
        self.pos = pos
        self.atoms = []  # names of extra atoms, in order of discovery

    def atom(self, name, env):
        if name not in self.atoms:
            self.atoms.append(name)
        if name not in env:
            raise Unknown(name)
        return env[name]

    def cond(self, e, env):
        e = peel_refs(e)
        k = e.get("k")
        if k == "Unary" and e.get("op") == "Not":
            return not self.cond(e["e"], env)
        if k == "Binary" and e.get("op") == "&&":
            return self.cond(e["l"], env) and self.cond(e["r"], env)
        if k == "Binary" and e.get("op") == "||":
            return self.cond(e["l"], env) or self.cond(e["r"], env)
        if k == "Lit" and isinstance(e.get("lit"), dict) and e["lit"].get("lk") == "bool":
            return e["lit"]["v"] in (True, "true")
        if k == "MethodCall" and e["name"] == "is_closed":
            return env["C"]
        if k == "MethodCall" and e["name"] == "is_dtype":
            return env["D"]
        if k == "Let":
            vs = pat_variants(e["pat"], TYPE)
            if vs is not None and strip_generics(self.crate.ty(peel_refs(e["init"]))) == TYPE:
                if vs <= self.pos:
                    return env["D"]
                if not (vs & self.pos):
                    return (not env["D"]) and self.atom("matches:" + "+".join(sorted(vs)), env)
            return self.atom("let@%s" % e["s"][0], env)
        if k == "Block" and not e.get("stmts") and e.get("tail") is not None:
            return self.cond(e["tail"], env)
        name = e.get("name") if k == "MethodCall" else k
        return self.atom("%s@%s" % (name, e["s"][0]), env)

    def value(self, e, env):
        e = peel(e)
        k = e.get("k")
        v = ctor_variant(e)
        if v and v[0] == TRIV:
            return v[1]
        if k == "Block":
            if e.get("stmts"):
                for st in e["stmts"]:
                    inner = st.get("e") if st.get("k") in ("Semi", "Expr") else None
                    if isinstance(inner, dict) and peel(inner).get("k") == "Ret":
                        return self.value(peel(inner)["e"], env)
            if e.get("tail") is not None:
                return self.value(e["tail"], env)
            raise Unknown("block")
        if k == "If":
            if self.cond(e["cond"], env):
                return self.value(e["then"], env)
            if e.get("else") is None:
                raise Unknown("if-without-else")
            return self.value(e["else"], env)
        if k == "Match" and strip_generics(self.crate.ty(peel_refs(e["scrut"]))) == TYPE:
            for a in e["arms"]:
                vs = pat_variants(a["pat"], TYPE)
                if vs is None:
                    hit = True
                elif vs <= self.pos:
                    hit = env["D"]
                elif not (vs & self.pos):
                    hit = (not env["D"]) and self.atom("matches:" + "+".join(sorted(vs)), env)
                else:
                    hit = self.atom("matches:" + "+".join(sorted(vs)), env)
                if hit and ("guard" not in a or self.cond(a["guard"], env)):
                    return self.value(a["body"], env)
            raise Unknown("no arm")
        if k == "Ret" and e.get("e") is not None:
            return self.value(e["e"], env)
        raise Unknown(k)


def rule_trivtab(crate):
    out = RuleOut("TRIVTAB", "IsDType is resolved on the spot exactly like Type::is_dtype for closed types and kept for open ones")
    isd, pos = dtype_variants(crate)
    fn = crate.find_fn("constraints::Constraint::try_trivial_resolution")
    f = crate.file_of(fn)
    if not pos:
        out.error("anchor missing: Type::is_dtype is not a `matches!(self, Type::…)` predicate")
        return out
    outer = None
    for m in walk(fn["body"]):
        if m.get("k") == "Match" and str(m.get("src")) == "Normal" and strip_generics(crate.ty(peel_refs(m["scrut"]))) == CONSTRAINT:
            outer = m
            break
    if outer is None:
        out.error("anchor missing: match on the constraint in try_trivial_resolution")
        return out
    arms = [a for a in outer["arms"] if pat_variants(a["pat"], CONSTRAINT) == {"IsDType"} or pat_variants(a["pat"], CONSTRAINT) is None]
    if not any(pat_variants(a["pat"], CONSTRAINT) == {"IsDType"} for a in arms):
        out.error("anchor missing: no arm for Constraint::IsDType in try_trivial_resolution")
        return out
    ev = Eval(crate, pos)

    def decide(env):
        for a in arms:
            if "guard" in a and not ev.cond(a["guard"], env):
                continue
            return ev.value(a["body"], env)
        raise Unknown("no IsDType arm applies")

    # discover the extra atoms by evaluating with growing environments
    want = {(True, True): "Satisfied", (True, False): "Violated", (False, True): "Unknown", (False, False): "Unknown"}
    line = crate.loc(fn, arms[0]["pat"])[1]
    n = 0
    for (C, D), expect in sorted(want.items(), reverse=True):
        n += 1
        key = "IsDType:%s:%s" % ("closed" if C else "open", "dtype" if D else "other")
        results = {}
        undecided = None
        # iterate: evaluate, on Unknown(atom) add that atom and enumerate both values
        pending = [{"C": C, "D": D}]
        guard_iter = 0
        while pending and guard_iter < 256:
            guard_iter += 1
            env = pending.pop()
            try:
                r = decide(env)
                results[tuple(sorted((k, v) for k, v in env.items() if k not in ("C", "D")))] = r
            except Unknown as u:
                name = str(u)
                if name in env or name in ("block", "if-without-else", "no arm", "no IsDType arm applies") or name in ("Match", "MethodCall", "Call", "Path"):
                    undecided = name
                    continue
                for val in (True, False):
                    e2 = dict(env)
                    e2[name] = val
                    pending.append(e2)
        vals = set(results.values())
        if undecided and not results:
            out.advisory(key, f, line, "the resolution of IsDType could not be evaluated for this case (%s); not decided" % undecided)
        elif vals == {expect}:
            out.ok(key, f, line, "IsDType(t) with t %s and %s resolves to %s under every other test (%d case(s))" % ("closed" if C else "not closed", "a dimension type" if D else "not a dimension type", expect, len(results)))
        else:
            bad = [(k, v) for k, v in results.items() if v != expect]
            atoms = ", ".join("%s=%s" % (a.split("@")[0], b) for a, b in bad[0][0]) or "always"
            if C and D:
                msg = "IsDType on a closed dimension type is not always Satisfied on the spot (it is %s when %s), although Type::is_dtype — the test that sends annotated code down the closed-type path — accepts it: annotated signatures (closed types with type parameters) are then checked more strictly than inferred ones" % (bad[0][1], atoms)
            elif C:
                msg = "IsDType on a closed non-dimension type resolves to %s (%s) instead of Violated" % (bad[0][1], atoms)
            else:
                msg = "IsDType on a type that is not closed resolves to %s (%s) instead of being kept (Unknown): the constraint is decided before its type variables are solved" % (bad[0][1], atoms)
            out.violation(key, f, line, msg)
    out.analysed = {"rows": n, "dtype_variants": sorted(pos), "extra_atoms": len(ev.atoms)}
    out.floor("rows", n, 4)
    return out
