"""TRIVTAB — the constraint solver's *trivial* resolution of `IsDType(t)` for closed types agrees with the predicate
`Type::is_dtype` the elaborator branches on.

elaborate_expression treats closed operand types (annotated code) and open ones (inferred code) on different paths:
for closed types it asks `is_dtype()` and then adds `IsDType` constraints through enforce_dtype; for open types it only
records the equality.  The two paths accept the same programs only if `IsDType(t)` on a closed t is decided on the
spot exactly like `t.is_dtype()`: Satisfied (and dropped) for the variants is_dtype accepts — unconditionally, type
parameters included — and Violated for all others.  A guard on that arm, or another result, makes the annotated form
of a function stricter or laxer than the inferred one (C16), and changes which programs are accepted (C02)."""
from core import RuleOut
from hirlib import ctor_variant, pat_variants, peel, peel_refs, strip_generics, walk

TYPE = "crate::typed_ast::Type"
CONSTRAINT = "crate::typechecker::constraints::Constraint"
TRIV = "crate::typechecker::constraints::TrivialResolution"


def dtype_variants(crate):
    fn = crate.find_fn("typed_ast::Type::is_dtype")
    pos = set()
    for m in walk(fn["body"]):
        if m.get("k") == "Match":
            for a in m["arms"]:
                vs = pat_variants(a["pat"], TYPE)
                b = peel(a["body"])
                if vs and b.get("k") == "Lit" and b["lit"].get("lk") == "bool" and b["lit"]["v"] in (True, "true"):
                    pos |= vs
    return fn, pos


def rule_trivtab(crate):
    out = RuleOut("TRIVTAB", "IsDType on a closed type is resolved on the spot exactly like Type::is_dtype")
    isd, pos = dtype_variants(crate)
    fn = crate.find_fn("constraints::Constraint::try_trivial_resolution")
    f = crate.file_of(fn)
    if not pos:
        out.error("anchor missing: Type::is_dtype is not a `matches!(self, Type::…)` predicate")
        return out
    outer = None
    for m in walk(fn["body"]):
        if m.get("k") == "Match" and str(m.get("src")) == "Normal" and strip_generics(crate.ty(peel_refs(m["scrut"]))) == CONSTRAINT:
            outer = m
            break
    if outer is None:
        out.error("anchor missing: match on the constraint in try_trivial_resolution")
        return out
    n = 0
    seen_closed_arm = False
    for a in outer["arms"]:
        if pat_variants(a["pat"], CONSTRAINT) != {"IsDType"}:
            continue
        guard_closed = "guard" in a and any(x.get("k") == "MethodCall" and x["name"] == "is_closed" for x in walk(a["guard"]))
        if not guard_closed:
            if not seen_closed_arm and "guard" not in a:
                # an unguarded IsDType arm before any closed-type arm decides closed types too
                v = ctor_variant(a["body"])
                af, al = crate.loc(fn, a["pat"])
                out.violation("IsDType:closed-arm", af, al, "IsDType constraints on closed types are not resolved before the general arm (result %s)" % (v[1] if v else "?"))
            continue
        seen_closed_arm = True
        inner = None
        for m in walk(a["body"]):
            if m.get("k") == "Match" and str(m.get("src")) == "Normal" and strip_generics(crate.ty(peel_refs(m["scrut"]))) == TYPE:
                inner = m
                break
        af, al = crate.loc(fn, a["pat"])
        if inner is None:
            out.violation("IsDType:closed-arm", af, al, "the closed-type IsDType arm does not decide by the type's constructor")
            continue
        covered = set()
        for ia in inner["arms"]:
            vs = pat_variants(ia["pat"], TYPE)
            res = ctor_variant(ia["body"])
            res = res[1] if res and res[0] == TRIV else None
            xf, xl = crate.loc(fn, ia["pat"])
            if vs is None:
                # catch-all: everything not covered so far
                n += 1
                rest_has_dtype = bool(pos - covered)
                if rest_has_dtype:
                    out.violation("IsDType:closed:%s" % "+".join(sorted(pos - covered)), xf, xl, "a closed %s type reaches the catch-all arm and is resolved as %s instead of Satisfied: the annotated form of a function is checked differently from the inferred one" % ("/".join(sorted(pos - covered)), res))
                if res == "Violated" and "guard" not in ia:
                    out.ok("IsDType:closed:other", xf, xl, "closed non-dimension types are Violated at once")
                else:
                    out.violation("IsDType:closed:other", xf, xl, "closed non-dimension types are not rejected at once (result %s%s)" % (res, ", guarded" if "guard" in ia else ""))
                continue
            for v in sorted(vs):
                n += 1
                key = "IsDType:closed:%s" % v
                if v in covered:
                    continue
                if v in pos:
                    if res == "Satisfied" and "guard" not in ia:
                        out.ok(key, xf, xl, "closed %s types (type parameters included) satisfy IsDType at once, as Type::is_dtype says" % v)
                        covered.add(v)
                    elif "guard" in ia:
                        out.violation(key, xf, xl, "IsDType on a closed %s type is resolved as Satisfied only under an extra guard; the remaining closed types stay as constraints although the elaborator's is_dtype() already accepted them: annotated signatures (closed types with type parameters) are checked more strictly than inferred ones" % v)
                        # do not mark covered: a later arm decides the rest
                    else:
                        out.violation(key, xf, xl, "IsDType on a closed %s type is resolved as %s, but Type::is_dtype accepts it" % (v, res))
                        covered.add(v)
                else:
                    if res == "Violated":
                        out.ok(key, xf, xl, "closed %s types violate IsDType at once" % v)
                    else:
                        out.violation(key, xf, xl, "IsDType on a closed %s type is resolved as %s, but Type::is_dtype rejects it" % (v, res))
                    covered.add(v)
    if not seen_closed_arm:
        out.error("anchor missing: `Constraint::IsDType(t) if t.is_closed()` arm of try_trivial_resolution")
    out.analysed = {"rows": n, "dtype_variants": sorted(pos)}
    out.floor("rows", n, 2)
    return out
