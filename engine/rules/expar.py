"""R8 EXPAR — exponent arithmetic on Ratio<i128> reachable from Context::interpret_with_settings must be
overflow-checked (checked_* / DType::try_*).  Unchecked operator calls are listed per call site."""
import re

from callgraph import CallGraph, owner
from core import RuleOut

UNCHECKED = [
    re.compile(r"^<(&'a )?num_rational::Ratio<T> as std::ops::(Add|Sub|Mul|Div|Neg|Rem)(<.*>)?>::(add|sub|mul|div|neg|rem)$"),
    re.compile(r"^num_rational::opassign::<impl std::ops::(Add|Sub|Mul|Div|Rem)Assign(<.*>)? for num_rational::Ratio<T>>::\w+_assign$"),
    re.compile(r"^num_integer::lcm$"),
    re.compile(r"^num_rational::Ratio::(pow|recip)$"),
]
ITER_FOLDS = re.compile(r"^std::iter::Iterator::(sum|product)$")


def rule_expar(crate, entry="crate::Context::interpret_with_settings", dispositions=None, min_sites=15):
    out = RuleOut("EXPAR", "rational exponent arithmetic is overflow-checked")
    dispositions = dispositions or {}
    cg = CallGraph(crate)
    reach = cg.reachable([entry])
    if entry not in cg.edges:
        out.error("anchor missing: %s in the call graph" % entry)
        return out
    n = 0
    counts = {}
    for d, b in crate.mir.items():
        own = owner(d)
        for blk in b["body"]["blocks"]:
            t = blk["term"]
            if t.get("k") != "call" or t["f"].get("o") != "const" or "fn" not in t["f"]:
                continue
            fn = t["f"].get("inst") or t["f"]["fn"]
            g = t["f"].get("gargs", "")
            hit = None
            if any(r.search(fn) for r in UNCHECKED) and ("Ratio<i128>" in g or "[i128]" in g):
                hit = fn
            elif ITER_FOLDS.search(fn) and "num_rational::Ratio<i128>" in g.split("]")[0][-120:] and g.rstrip("]").endswith("num_rational::Ratio<i128>"):
                hit = fn
            if not hit:
                continue
            if len(t["s"]) >= 2 and t["s"][1] == 1:
                pass  # macro-generated spans are still real calls
            n += 1
            opn = re.sub(r".*::", "", hit)
            short = own.split("::")[-1] if not own.startswith("<") else own
            short = re.sub(r"crate::", "", short)
            base = "%s:%s" % (short, opn)
            idx = counts.get(base, 0)
            counts[base] = idx + 1
            key = base if idx == 0 else "%s#%d" % (base, idx)
            f = crate.files[b["file"]]
            line = t["s"][0]
            if own not in reach:
                out.advisory(key, f, line, "unchecked %s on Ratio<i128>, not reachable from %s" % (opn, entry.split("::")[-1]))
                continue
            disp = dispositions.get(key)
            if disp and disp[0] == "bounded":
                out.exempt(key, f, line, "bounded: " + disp[1])
            elif disp and disp[0] == "witness":
                out.violation(key, f, line, "unchecked `%s` on Ratio<i128> exponents (overflow panics in checked builds, wraps otherwise)" % opn, witness=disp[1])
            else:
                out.advisory(key, f, line, "unchecked `%s` on Ratio<i128> exponents reachable from interpret_with_settings — unresolved: neither a failing input nor a bound argument is recorded for this site" % opn)
    out.analysed = {"unchecked_sites": n, "reachable_functions": len(reach), "call_edges": cg.n_edges}
    out.floor("unchecked_sites", n, min_sites)
    return out
