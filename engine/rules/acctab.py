"""ACCTAB — the alias annotation `: short | long | both | none` round-trips between printer and parser.

printer   typed_ast::accepts_prefix_markup maps an AcceptsPrefix {short, long} to a keyword; evaluated abstractly for the
          four value combinations (struct patterns with literal fields, or a tuple of the two fields with literal
          tuple patterns — whatever order the tuple is built in);
parser    Parser::accepts_prefix maps a keyword token to an AcceptsPrefix constructor, whose body gives {short, long};
          the tokenizer maps the spelling to the token kind.
For every combination:  parse(print(combo)) == combo.  Otherwise the echoed unit definition re-reads as a unit that
accepts a different set of prefixed names."""
from core import RuleOut
from hirlib import callee, ctor_variant, peel, peel_refs, place_path, walk
from prec import TK, kinds_in, tokenizer_map

AP = "crate::prefix_parser::AcceptsPrefix"


def _bool(n):
    n = peel(n) if isinstance(n, dict) else {}
    if n.get("k") == "Lit" and isinstance(n.get("lit"), dict) and n["lit"].get("lk") == "bool":
        return n["lit"]["v"] in (True, "true")
    return None


def _struct_fields(p):
    out = {}
    for it in p.get("fields", []) or []:
        if isinstance(it, list) and len(it) == 2:
            out[str(it[0])] = it[1]
        elif isinstance(it, dict) and "pat" in it:
            out[str(it.get("name"))] = it["pat"]
    return out


def field_of_local(fn, e, depth=0):
    """the AcceptsPrefix field a local variable holds: bound in a struct pattern over AcceptsPrefix, or initialised
    from a field projection"""
    e = peel_refs(e)
    if e.get("k") != "Path" or e["res"].get("r") != "local":
        return None
    lid = e["res"]["id"]
    for p in walk(fn["body"]):
        if p.get("k") == "Struct" and "fields" in p and str(p.get("adt") or p.get("path") or "").endswith("AcceptsPrefix"):
            for name, q in _struct_fields(p).items():
                while isinstance(q, dict) and q.get("k") == "Ref":
                    q = q["pat"]
                if isinstance(q, dict) and q.get("k") == "Binding" and q.get("id") == lid:
                    return name
        if p.get("k") == "Let" and p.get("init") is not None and depth < 3:
            q = p["pat"]
            if isinstance(q, dict) and q.get("k") == "Binding" and q.get("id") == lid:
                pp = place_path(p["init"])
                if pp and pp[2]:
                    return pp[2][-1]
                return field_of_local(fn, p["init"], depth + 1)
    return None


def printer_table(crate):
    fn = crate.find_fn("typed_ast::accepts_prefix_markup")
    table = {}
    for m in walk(fn["body"]):
        if m.get("k") != "Match" or str(m.get("src")) != "Normal":
            continue
        sc = peel_refs(m["scrut"])
        order = None
        if sc.get("k") == "Tup":
            order = []
            for e in sc["elems"]:
                p = place_path(e)
                if p and p[2]:
                    order.append(p[2][-1])  # `ap.short`
                else:  # a local bound to the field by a struct pattern (`let Some(AcceptsPrefix { short, long }) = …`) or by `let s = ap.short`
                    order.append(field_of_local(fn, e))
        elif not crate.ty(sc).replace("&", "").strip().endswith("AcceptsPrefix"):
            continue
        rows = {}
        for a in m["arms"]:
            p = a["pat"]
            while p.get("k") == "Ref":
                p = p["pat"]
            combo = {}
            if order is not None and p.get("k") == "Tuple":
                for name, q in zip(order, p["pats"]):
                    combo[name] = _bool(q)
            elif p.get("k") == "Struct":
                for name, q in _struct_fields(p).items():
                    combo[name] = _bool(q)
            else:
                continue
            lits = [x["lit"]["v"] for x in walk(a["body"]) if x.get("k") == "Lit" and isinstance(x.get("lit"), dict) and x["lit"].get("lk") == "str"]
            if combo.get("short") is None or combo.get("long") is None or len(lits) != 1:
                continue
            rows[(combo["short"], combo["long"])] = lits[0]
        if len(rows) > len(table):
            table = rows
    return fn, table


def parser_table(crate):
    """{TokenKind: (short, long)}"""
    fn = crate.find_fn("parser::Parser::accepts_prefix")
    ctors = {}
    for d, b in crate.hir.items():
        if (b.get("impl_self") or "").endswith("AcceptsPrefix") and not b.get("params"):
            for s in walk(b["body"]):
                if s.get("k") == "Struct" and s.get("fields"):
                    vals = {}
                    for it in s["fields"]:
                        if isinstance(it, list) and len(it) == 2:
                            vals[str(it[0])] = _bool(it[1])
                    if vals.get("short") is not None and vals.get("long") is not None:
                        ctors[d] = (vals["short"], vals["long"])
    out = {}
    for n in walk(fn["body"]):
        if n.get("k") != "If":
            continue
        ks = kinds_in(n["cond"])
        if len(ks) != 1:
            continue
        then = n["then"]
        for c in walk(then):
            if c.get("k") == "Call" and (callee(c) or "") in ctors:
                out[next(iter(ks))] = ctors[callee(c)]
                break
    return fn, out, ctors


def rule_acctab(crate):
    out = RuleOut("ACCTAB", "the alias annotation short/long/both/none is printed in a form the parser reads back as the same AcceptsPrefix")
    pf, ptab = printer_table(crate)
    qf, qtab, ctors = parser_table(crate)
    f = crate.file_of(pf)
    tok = tokenizer_map(crate)
    if len(ptab) < 4:
        out.error("anchor missing: accepts_prefix_markup does not map the four {short, long} combinations to keywords (found %d)" % len(ptab))
        return out
    if len(qtab) < 4:
        out.error("anchor missing: Parser::accepts_prefix does not map four keyword tokens to AcceptsPrefix constructors (found %d)" % len(qtab))
        return out
    for (short, long_), kw in sorted(ptab.items()):
        key = "accepts(short=%s,long=%s)" % (str(short).lower(), str(long_).lower())
        kind = tok.get(kw)
        if kind is None:
            out.violation(key, f, pf["line"], "printed as `%s`, which the tokenizer does not know as a keyword" % kw)
            continue
        back = qtab.get(kind)
        if back is None:
            out.violation(key, f, pf["line"], "printed as `%s` (TokenKind::%s), which Parser::accepts_prefix does not accept" % (kw, kind))
        elif back == (short, long_):
            out.ok(key, f, pf["line"], "`%s` -> TokenKind::%s -> AcceptsPrefix{short: %s, long: %s}" % (kw, kind, back[0], back[1]))
        else:
            out.violation(key, f, pf["line"], "an alias that accepts %s prefixes is echoed as `: %s`, which the parser reads as one that accepts %s prefixes: the echoed unit definition accepts a different set of prefixed names" % (_words(short, long_), kw, _words(*back)))
    out.analysed = {"printer_rows": len(ptab), "parser_rows": len(qtab), "constructors": len(ctors)}
    out.floor("printer_rows", len(ptab), 4)
    return out


def _words(short, long_):
    return {(True, True): "short and long", (True, False): "only short", (False, True): "only long", (False, False): "no"}[(short, long_)]
