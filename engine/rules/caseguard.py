"""CASEGUARD — the two spellings of one letter are consumed under the same guard.

Where the tokenizer accepts a letter in both cases (`e` / `E` of scientific notation, `x` / `X`, …) it tests them in one
condition, `guard && (match_char('e') || match_char('E'))`.  match_char CONSUMES the character, so an alternative that
escapes the guard (`guard && match_char('e') || match_char('E')`: `&&` binds tighter) is taken without the look-ahead:
`2EB`, `5EiB`, `100EUR` stop being number × identifier and are rejected with "Expected digit", while `2eV` still
works.  Rule: within one condition, match_char leaves whose character literals differ only in case have the same set of
`&&`-conjuncts on their path (compared as nodes, not as text)."""
from core import RuleOut
from hirlib import peel, peel_refs, walk


def _gid(e):
    """identity of a conjunct: a local is the same guard wherever it is mentioned; anything else is its own node"""
    e = peel(e)
    if e.get("k") == "Path" and e.get("res", {}).get("r") == "local":
        return ("local", e["res"].get("id"))
    return ("node", id(e))


def _leaves(e, guards, acc):
    e = peel(e)
    if e.get("k") == "Binary" and str(e.get("op")) == "&&":
        _leaves(e["l"], guards + [_gid(e["r"])], acc)
        _leaves(e["r"], guards + [_gid(e["l"])], acc)
        return
    if e.get("k") == "Binary" and str(e.get("op")) == "||":
        _leaves(e["l"], guards, acc)
        _leaves(e["r"], guards, acc)
        return
    if e.get("k") == "MethodCall" and e["name"] == "match_char" and e.get("args"):
        lit = peel_refs(e["args"][-1])
        if lit.get("k") == "Lit" and isinstance(lit.get("lit"), dict) and lit["lit"].get("lk") == "char":
            acc.append((lit["lit"]["v"], frozenset(guards), e))


def rule_caseguard(crate):
    out = RuleOut("CASEGUARD", "in the tokenizer the two case spellings of a letter are consumed under the same look-ahead guard")
    n_conds = n_pairs = 0
    for d, b in sorted(crate.hir.items()):
        if "::tests::" in d or b.get("body") is None or not crate.file_of(b).endswith("numbat/src/tokenizer.rs"):
            continue
        conds = [x["cond"] for x in walk(b["body"]) if x.get("k") == "If"]
        conds += [x["init"] for x in walk(b["body"]) if x.get("k") == "Let" and x.get("init") is not None and peel(x["init"]).get("k") == "Binary" and str(peel(x["init"]).get("op")) in ("&&", "||")]
        for cnd in conds:
            acc = []
            _leaves(cnd, [], acc)
            if len(acc) < 2:
                continue
            n_conds += 1
            for i in range(len(acc)):
                for j in range(i + 1, len(acc)):
                    (c1, g1, e1), (c2, g2, _e2) = acc[i], acc[j]
                    if c1 != c2 and c1.lower() == c2.lower():
                        n_pairs += 1
                        f, l = crate.loc(b, e1)
                        key = "%s:%s/%s" % (d.replace("crate::", ""), c1, c2)
                        if g1 == g2:
                            out.ok(key, f, l, "both spellings are tried under the same %d conjunct(s)" % len(g1))
                        else:
                            out.violation(key, f, l, "`match_char('%s')` and `match_char('%s')` are alternatives of one condition but not under the same `&&` guard (operator precedence: `a && b || c` is `(a && b) || c`): one spelling is consumed without the look-ahead — `2EB`, `5EiB`, `100EUR` are rejected with 'Expected digit' instead of being read as number × identifier" % (c1, c2))
    if n_pairs == 0:
        out.ok("no-case-pair", "numbat/src/tokenizer.rs", 1, "no condition of the tokenizer tries two case spellings of a letter (%d multi-alternative conditions)" % n_conds)
    out.analysed = {"conditions_with_alternatives": n_conds, "case_pairs": n_pairs}
    return out
