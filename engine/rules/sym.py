"""R9 SYM — operand-role symmetry of binary quantity operations."""
from core import RuleOut
from hirlib import callee, local_of, peel, peel_refs, place_path, walk

CONVERT = ("quantity::Quantity::convert_to",)
SELECTORS = ("::smaller_unit",)
# wrappers around the selector that are accepted once check_zero_aware_selector has verified their shape
WRAPPED_SELECTORS = set()


def let_inits(fn):
    """binding id -> the expression it is bound from (let init, if-let init, match scrutinee)."""
    m = {}
    for n in walk(fn["body"]):
        k = n.get("k")
        if k == "Let" and n.get("init") is not None and n.get("pat") is not None:
            for b in walk(n["pat"]):
                if b.get("k") == "Binding":
                    m[b["id"]] = n["init"]
        elif k == "Match":
            sc = peel(n["scrut"])
            for a in n["arms"]:
                p = a["pat"]
                if sc.get("k") == "Tup" and p.get("k") == "Tuple" and len(p["pats"]) == len(sc["elems"]) and p.get("ddpos") is None:
                    # `match (a, b) { (x, y) => .. }`: x comes from a, y from b
                    for sub, el in zip(p["pats"], sc["elems"]):
                        for b in walk(sub):
                            if b.get("k") == "Binding":
                                m.setdefault(b["id"], el)
                    continue
                for b in walk(p):
                    if b.get("k") == "Binding":
                        m.setdefault(b["id"], n["scrut"])
    return m


def operand_prov(expr, inits, operands, depth=0, via=None):
    """Set of operand ids the expression derives from; `via` collects callee paths met on the way."""
    out = set()
    for n in walk(expr):
        if n.get("k") in ("MethodCall", "Call") and via is not None:
            c = callee(n)
            if c:
                via.add(c)
        if n.get("k") == "Path" and n["res"].get("r") == "local":
            i = n["res"]["id"]
            if i in operands:
                out.add(i)
            elif i in inits and depth < 8:
                out |= operand_prov(inits[i], inits, operands, depth + 1, via)
    return out


def two_operands(fn):
    ps = [p for p in fn["params"] if p.get("k") == "Binding"]
    if len(ps) < 2:
        return None
    return ps[0], ps[1]


ZERO_AWARE = set()  # labels whose conversion target comes from a verified zero-aware selector
FRAMES = {}  # label -> the common representation in which the function compares / combines its operands


def check_binary(crate, fn, out, label, expect_symmetric=True, _depth=0):
    ops = two_operands(fn)
    f = crate.file_of(fn)
    if ops is None:
        out.error("%s: expected two operand parameters" % label)
        return
    a, b = ops
    operands = {a["id"]: a["name"], b["id"]: b["name"]}
    inits = let_inits(fn)
    convs = []
    for n in walk(fn["body"]):
        if n.get("k") == "MethodCall" and (callee(n) or "").endswith(CONVERT):
            recv = operand_prov(n["recv"], inits, operands)
            via = set()
            tgt = operand_prov(n["args"][0], inits, operands, via=via)
            convs.append((n, recv, tgt, via))
    if not convs:
        # alternative symmetric idiom: both operands brought to their base-unit representation
        bases = []
        for n in walk(fn["body"]):
            if n.get("k") == "MethodCall" and n["name"] == "to_base_unit_representation":
                bases.append((n, operand_prov(n["recv"], inits, operands)))
        who = set()
        for (_n, pr) in bases:
            if len(pr) == 1:
                who |= pr
        if who == set(operands):
            cf, cl = crate.loc(fn, bases[0][0])
            out.ok("%s:convert(both->base representation)" % label, cf, cl, "both operands are brought to their base-unit representation")
            FRAMES[label] = "base-unit representation"
            return
        # the conversion may live in a crate-local helper that receives both operands: analyse the helper instead
        if _depth < 2:
            for n in walk(fn["body"]):
                if n.get("k") not in ("MethodCall", "Call"):
                    continue
                c = callee(n) or ""
                helper = crate.hir.get(c)
                if helper is None or helper is fn:
                    continue
                args = ([n["recv"]] if n.get("k") == "MethodCall" else []) + list(n["args"])
                provs = [operand_prov(a, inits, operands) for a in args]
                single = [p for p in provs if len(p) == 1]
                if len({next(iter(p)) for p in single}) == 2 and len(two_operands(helper) or ()) == 2:
                    before = len(out.findings) + len(out.errors)
                    check_binary(crate, helper, out, label, expect_symmetric, _depth + 1)
                    if len(out.findings) + len(out.errors) > before:
                        return
        out.error("%s: no convert_to call found" % label)
        return
    # group by target provenance
    for (n, recv, tgt, via) in convs:
        cf, cl = crate.loc(fn, n)
        rname = "/".join(sorted(operands[i] for i in recv)) or "?"
        tname = "/".join(sorted(operands[i] for i in tgt)) or "(neither operand)"
        key = "%s:convert(%s->unit of %s)" % (label, rname, tname)
        if len(recv) != 1:
            out.advisory(key, cf, cl, "conversion whose receiver is not a single operand")
            continue
        r = next(iter(recv))
        other = next(i for i in operands if i != r)
        if not tgt:
            # target independent of both operands: need the mirror conversion of the other operand
            mirror = any(rc == {other} and not tg for (_n, rc, tg, _v) in convs)
            if mirror:
                out.ok(key, cf, cl, "both operands are converted to a target that depends on neither")
            else:
                out.violation(key, cf, cl, "`%s` is converted to an operand-independent unit but `%s` is not" % (operands[r], operands[other]))
        elif tgt == set(operands):
            sel = any(v.endswith(SELECTORS) or v in WRAPPED_SELECTORS for v in via)
            mirror = any(rc == {other} and tg == tgt for (_n, rc, tg, _v) in convs)
            if sel and mirror:
                FRAMES[label] = "smaller_unit(a.unit, b.unit)"
                if any(v in WRAPPED_SELECTORS for v in via):
                    ZERO_AWARE.add(label)
                out.ok(key, cf, cl, "both operands are converted to the unit chosen by the symmetric selector smaller_unit(a.unit, b.unit)")
            elif not sel:
                out.violation(key, cf, cl, "the conversion target depends on both operands but not through the symmetric selector `Unit::smaller_unit`")
            else:
                out.violation(key, cf, cl, "`%s` is converted to the selected unit but `%s` is not" % (operands[r], operands[other]))
        elif tgt == {other}:
            out.violation(
                key, cf, cl,
                "`%s` is converted into the unit of `%s`: the result depends on which operand is on the left (rounding of the conversion differs between a∘b and b∘a)" % (operands[r], operands[other]),
            )
        elif tgt == {r}:
            out.advisory(key, cf, cl, "operand converted to its own unit")


def check_zero_aware_selector(crate, out, suffix="quantity::Quantity::comparison_unit"):
    """`comparison_unit(a, b)`: a zero operand (convertible to any unit) never determines the unit, otherwise the
    symmetric selector decides:  if a.is_zero() { b.unit } else if b.is_zero() { a.unit } else { smaller_unit(a.unit, b.unit) }.
    Mirror-image zero branches + symmetric selector = a symmetric function of (a, b) up to the both-zero case, where
    the unit is irrelevant."""
    fn = crate.find_fn(suffix, required=False)
    WRAPPED_SELECTORS.clear()
    if fn is None:
        return
    f = crate.file_of(fn)
    ops = two_operands(fn)
    if ops is None:
        out.violation("comparison_unit:shape", f, fn["line"], "comparison_unit does not take two operands")
        return
    a, b = ops
    operands = {a["id"]: a["name"], b["id"]: b["name"]}
    body = peel(fn["body"])
    node = peel(body.get("tail")) if body.get("k") == "Block" and body.get("tail") is not None else body

    def unit_of(e):
        """operand whose `.unit` this expression denotes"""
        e = peel(e)
        if e.get("k") == "Block" and e.get("tail") is not None:
            e = peel(e["tail"])
        p = place_path(e)
        if p and p[0] in operands and p[2] == ["unit"]:
            return p[0]
        return None

    def zero_test(c):
        c = peel(c)
        if c.get("k") == "MethodCall" and c["name"] == "is_zero":
            return local_of(c["recv"])
        return None

    ok = False
    why = "not of the form `if a.is_zero() { &b.unit } else if b.is_zero() { &a.unit } else { a.unit.smaller_unit(&b.unit) }`"
    if node.get("k") == "If" and node.get("else") is not None:
        z1 = zero_test(node["cond"])
        r1 = unit_of(node["then"])
        e1 = peel(node["else"])
        if e1.get("k") == "Block" and not e1.get("stmts") and e1.get("tail") is not None:
            e1 = peel(e1["tail"])
        if e1.get("k") == "If" and e1.get("else") is not None:
            z2 = zero_test(e1["cond"])
            r2 = unit_of(e1["then"])
            last = peel(e1["else"])
            sel_calls = [x for x in walk(last) if x.get("k") == "MethodCall" and (callee(x) or "").endswith(SELECTORS)]
            sel_ok = False
            for sc in sel_calls:
                rp = place_path(sc["recv"])
                ap = place_path(sc["args"][0]) if sc["args"] else None
                if rp and ap and {rp[0], ap[0]} == set(operands) and rp[2] == ["unit"] and ap[2] == ["unit"]:
                    sel_ok = True
            if z1 in operands and z2 in operands and z1 != z2 and r1 == z2 and r2 == z1 and sel_ok:
                ok = True
                why = "zero operand never determines the unit (mirror-image branches), otherwise smaller_unit(a.unit, b.unit)"
            elif z1 in operands and z2 in operands and (r1 != z2 or r2 != z1):
                why = "the zero branches are not mirror images (a zero operand must yield the OTHER operand's unit)"
    if ok:
        WRAPPED_SELECTORS.add(fn["def"] if "def" in fn else "crate::" + suffix)
        WRAPPED_SELECTORS.add("crate::" + suffix)
        out.ok("comparison_unit:shape", f, fn["line"], why)
    else:
        out.violation("comparison_unit:shape", f, fn["line"], "Quantity::comparison_unit is " + why)


def check_selector(crate, out):
    """Unit::smaller_unit(a, b) is a symmetric function: the parameter with the strictly smaller base-unit factor wins,
    and when the factors are EQUAL (kph vs km/h, Gy vs Sv, mHz vs mBq: different units of the same size) the choice must
    not depend on which parameter is `self` — it has to be made by an order on the units themselves.  A non-strict
    comparison that returns a parameter directly (`if fa <= fb { self } else { other }`) gives the left operand on a
    tie, so `a == b` / `a - b` convert the other way round than `b == a` / `b - a`."""
    fn = crate.find_fn("smaller_unit")
    f = crate.file_of(fn)
    ops = two_operands(fn)
    a, b = ops
    operands = {a["id"]: a["name"], b["id"]: b["name"]}
    inits = let_inits(fn)

    def prov(e):
        return operand_prov(e, inits, operands)

    def ret_param(e):
        e = peel(e)
        if e.get("k") == "Block" and e.get("tail") is not None and not e.get("stmts"):
            e = peel(e["tail"])
        lid = local_of(e)
        return lid if lid in operands else None

    def is_factor(e):
        """does the value derive from the base-unit factor (to_base_unit_representation) of a parameter — as opposed to
        a key computed from the unit itself (names, prefixes, exponents), which is what a tie-break compares"""
        via = set()
        operand_prov(e, inits, operands, via=via)
        return any(v.endswith("to_base_unit_representation") for v in via)

    order_of = {id(n): i for i, n in enumerate(walk(fn["body"]))}
    factor_cmp_pos, key_cmp = [], []  # positions of the factor comparisons; (position, node) of unit-key comparisons

    strict = {}  # param id -> True when a strictly-smaller test returns it
    tie_symmetric = False
    tie_positional = None
    n_cmp = 0
    # nodes inside the tie arm (Equal / None / _) of a three-way comparison of the factors: comparisons there are the
    # tie-break on the units themselves, not comparisons of the factors
    in_tie = set()
    for n in walk(fn["body"]):
        if n.get("k") == "Match":
            sc = peel(n["scrut"])
            if sc.get("k") == "MethodCall" and sc["name"] in ("partial_cmp", "cmp", "total_cmp"):
                for arm in n["arms"]:
                    variants = {p.get("variant") for p in walk(arm["pat"]) if p.get("variant")}
                    if not (variants & {"Less", "Greater"}):
                        for x in walk(arm["body"]):
                            in_tie.add(id(x))
    for n in walk(fn["body"]):
        k = n.get("k")
        if k == "If" and id(n) not in in_tie:
            c = peel(n["cond"])
            if c.get("k") == "Binary" and c.get("op") in ("<", "<=", ">", ">="):
                lp, rp = prov(c["l"]), prov(c["r"])
                if len(lp) == 1 and len(rp) == 1 and lp != rp and not (is_factor(c["l"]) or is_factor(c["r"])):
                    # `else if self.key() <= other.key() { self } else { other }`: a comparison of the units themselves
                    key_cmp.append((order_of[id(n)], n))
                elif len(lp) == 1 and len(rp) == 1 and lp != rp:
                    n_cmp += 1
                    factor_cmp_pos.append(order_of[id(n)])
                    l_id, r_id = next(iter(lp)), next(iter(rp))
                    small = l_id if c["op"] in ("<", "<=") else r_id
                    th = ret_param(n["then"])
                    if th is not None and th == small:
                        if c["op"] in ("<", ">"):
                            strict[th] = True
                        else:
                            # non-strict: on a tie this branch is taken and returns a fixed parameter
                            tie_positional = (th, crate.loc(fn, n)[1])
                            strict[th] = True
                        el = n.get("else")
                        if el is not None and ret_param(el) is not None and ret_param(el) != th and c["op"] in ("<=", ">="):
                            strict[ret_param(el)] = True
                    elif th is not None:
                        out.violation("smaller_unit:selector", f, fn["line"], "the comparison selects the LARGER unit")
                        return
        if k == "Match":
            sc = peel(n["scrut"])
            if sc.get("k") == "MethodCall" and sc["name"] in ("partial_cmp", "cmp", "total_cmp"):
                lp, rp = prov(sc["recv"]), prov(sc["args"][0]) if sc["args"] else set()
                if len(lp) == 1 and len(rp) == 1 and lp != rp:
                    n_cmp += 1
                    l_id, r_id = next(iter(lp)), next(iter(rp))
                    for arm in n["arms"]:
                        variants = {p.get("variant") for p in walk(arm["pat"]) if p.get("variant")}
                        rp_ = ret_param(arm["body"])
                        if variants == {"Some", "Less"} or variants == {"Less"}:
                            if rp_ == l_id:
                                strict[l_id] = True
                            elif rp_ is not None:
                                out.violation("smaller_unit:selector", f, fn["line"], "the comparison selects the LARGER unit")
                                return
                        elif variants == {"Some", "Greater"} or variants == {"Greater"}:
                            if rp_ == r_id:
                                strict[r_id] = True
                            elif rp_ is not None:
                                out.violation("smaller_unit:selector", f, fn["line"], "the comparison selects the LARGER unit")
                                return
                        else:
                            # tie (Equal / None / _): must be decided by a comparison of the two units themselves
                            if rp_ is not None:
                                tie_positional = (rp_, crate.loc(fn, arm["pat"])[1])
                            else:
                                for x in walk(arm["body"]):
                                    if x.get("k") == "MethodCall" and x["name"] in ("le", "lt", "ge", "gt", "cmp", "partial_cmp") and x["args"]:
                                        p1, p2 = prov(x["recv"]), prov(x["args"][0])
                                        if len(p1) == 1 and len(p2) == 1 and p1 != p2:
                                            tie_symmetric = True
                                    if x.get("k") == "Binary" and x.get("op") in ("<", "<=", ">", ">="):
                                        p1, p2 = prov(x["l"]), prov(x["r"])
                                        if len(p1) == 1 and len(p2) == 1 and p1 != p2:
                                            tie_symmetric = True
    # any other early decision (`if <something about both factors> { return self; }`) that is not a strict order
    # between the two factors picks a parameter by position on (near-)ties
    for n in walk(fn["body"]):
        if n.get("k") != "If" or id(n) in in_tie:
            continue
        c = peel(n["cond"])
        strict_cmp = c.get("k") == "Binary" and c.get("op") in ("<", ">") and len(prov(c["l"])) == 1 and len(prov(c["r"])) == 1 and prov(c["l"]) != prov(c["r"])
        nonstrict_handled = c.get("k") == "Binary" and c.get("op") in ("<=", ">=") and len(prov(c["l"])) == 1 and len(prov(c["r"])) == 1
        if strict_cmp or nonstrict_handled or any(n is kn for (_p, kn) in key_cmp):
            continue
        if len(prov(n["cond"])) < 2:
            continue
        rets = [x for x in walk(n["then"]) if x.get("k") == "Ret" and x.get("e") is not None and local_of(x["e"]) in operands]
        tail_p = ret_param(n["then"])
        if rets or tail_p is not None:
            who = local_of(rets[0]["e"]) if rets else tail_p
            tie_positional = (who, crate.loc(fn, n)[1])
    if n_cmp == 0 or set(strict) != set(operands):
        out.violation("smaller_unit:selector", f, fn["line"], "the body does not select between the two parameters by comparing their base-unit factors")
        return
    out.ok("smaller_unit:selector", f, fn["line"], "returns the parameter whose base-unit factor is strictly smaller (one comparison over both factors)")
    # a comparison of unit keys placed after the strict factor comparisons of an if-chain is reached exactly on a tie
    for (pos, kn) in key_cmp:
        th, el = ret_param(kn["then"]), (ret_param(kn["else"]) if kn.get("else") is not None else None)
        if factor_cmp_pos and pos > max(factor_cmp_pos) and th is not None and el is not None and th != el:
            tie_symmetric = True
        elif th is not None and (not factor_cmp_pos or pos < max(factor_cmp_pos)):
            tie_positional = tie_positional or (th, crate.loc(fn, kn)[1])
    if tie_positional is not None:
        out.violation("smaller_unit:tie", f, tie_positional[1], "when both units have the SAME base-unit factor (different units of equal size: kph vs km/h, Gy vs Sv, mHz vs mBq) smaller_unit returns `%s`, i.e. whichever operand is on that side: `a == b`, `a < b`, `a - b` then convert the other way round than `b == a`, `b > a`, `b - a`, and the rounding of the conversion makes the results differ" % operands[tie_positional[0]])
    elif tie_symmetric:
        out.ok("smaller_unit:tie", f, fn["line"], "a tie of the factors is broken by an order on the units themselves, independent of operand position")
    else:
        out.violation("smaller_unit:tie", f, fn["line"], "no position-independent tie-break for units of equal size")


def zero_shortcuts(crate, fn, out, label):
    """The `is_zero` short-cuts of add/sub must be mirror images: if a.is_zero() -> (±)b ; if b.is_zero() -> a."""
    ops = two_operands(fn)
    a, b = ops
    names = {a["id"]: a["name"], b["id"]: b["name"]}
    tests = []
    for n in walk(fn["body"]):
        if n.get("k") == "If":
            c = peel(n["cond"])
            if c.get("k") == "MethodCall" and (callee(c) or "").endswith("Quantity::is_zero"):
                who = local_of(c["recv"])
                ret = set()
                for x in walk(n["then"]):
                    if x.get("k") == "Path" and x["res"].get("r") == "local" and x["res"]["id"] in names:
                        ret.add(x["res"]["id"])
                tests.append((who, ret, n))
    f = crate.file_of(fn)
    if len(tests) < 2:
        out.advisory("%s:zero-shortcut" % label, f, fn["line"], "fewer than two is_zero short-cuts")
        return
    good = all(len(ret) == 1 and next(iter(ret)) != who for (who, ret, _n) in tests) and {t[0] for t in tests} == set(names)
    if good:
        out.ok("%s:zero-shortcut" % label, f, fn["line"], "zero short-cuts are mirror images (a zero -> b, b zero -> a)")
    else:
        out.violation("%s:zero-shortcut" % label, f, fn["line"], "the is_zero short-cuts are not mirror images of each other")


def find_impl(crate, trait_suffix, method, self_contains):
    hits = [b for b in crate.impl_methods(trait_suffix, method) if self_contains == b.get("impl_self", "")]
    if len(hits) != 1:
        from hirlib import AnchorMissing

        raise AnchorMissing("<%s as %s>::%s (%d candidates)" % (self_contains, trait_suffix, method, len(hits)))
    return hits[0]


def rule_sym_addsub(crate):
    out = RuleOut("SYM", "addition/subtraction treat both operands alike: both are converted to the unit chosen by a symmetric selector")
    for trait, method, label in (("std::ops::Add", "add", "Quantity::add"), ("std::ops::Sub", "sub", "Quantity::sub")):
        fn = find_impl(crate, trait, method, "&crate::quantity::Quantity")
        check_binary(crate, fn, out, label)
        zero_shortcuts(crate, fn, out, label)
    check_selector(crate, out)
    out.analysed = {"functions": 3, "conversions": sum(1 for f in out.findings if ":convert(" in f.key)}
    out.floor("conversions", out.analysed["conversions"], 4)
    return out


def rule_sym_cmp(crate):
    out = RuleOut("SYM", "comparisons treat both operands alike")
    fns = [
        (find_impl(crate, "std::cmp::PartialEq", "eq", "crate::quantity::Quantity"), "Quantity::eq"),
        (find_impl(crate, "std::cmp::PartialOrd", "partial_cmp", "crate::quantity::Quantity"), "Quantity::partial_cmp"),
        (crate.find_fn("quantity::Quantity::partial_cmp_preserve_nan"), "Quantity::partial_cmp_preserve_nan"),
    ]
    FRAMES.clear()
    ZERO_AWARE.clear()
    check_selector(crate, out)
    check_zero_aware_selector(crate, out)
    for fn, label in fns:
        check_binary(crate, fn, out, label)
    # the literal 0 is polymorphic: `8 km > 0` and `0 < 8 km` type-check, so the comparison must not convert the
    # non-zero operand into the (scalar) unit of a zero operand.  Either the target unit comes from the verified
    # zero-aware selector, or the function has mirror-image is_zero() short-cuts before converting.
    for fn, label in fns:
        tests = set()
        ops = two_operands(fn)
        for n in walk(fn["body"]):
            if n.get("k") == "MethodCall" and n["name"] == "is_zero":
                lid = local_of(n["recv"])
                if ops and lid in (ops[0]["id"], ops[1]["id"]):
                    tests.add(lid)
        ff = crate.file_of(fn)
        if label in ZERO_AWARE or len(tests) == 2:
            out.ok("%s:zero-operand" % label, ff, fn["line"], "a zero operand never determines the unit both operands are converted to")
        elif FRAMES.get(label) == "base-unit representation":
            out.ok("%s:zero-operand" % label, ff, fn["line"], "compared in base representation (no conversion into an operand's unit)")
        else:
            out.violation("%s:zero-operand" % label, ff, fn["line"], "%s converts its operands to a unit that a zero operand can determine: `8 km > 0` / `0 < 8 km` type-check (0 is polymorphic) but the non-zero operand is then converted into the scalar unit of the zero and the comparison fails at run time with an incompatible-units error" % label)
    # equality and ordering must compare in the SAME common representation: the conversion rounds, and two different
    # representations round differently, so `a < b`, `a == b`, `a > b` would no longer be mutually exclusive
    frames = {label: FRAMES.get(label) for _fn, label in fns}
    known = {v for v in frames.values() if v}
    f0 = crate.file_of(fns[0][0])
    if len(known) == 1 and all(frames.values()):
        out.ok("cmp:same-frame", f0, fns[0][0]["line"], "==, partial_cmp and partial_cmp_preserve_nan all compare in %s" % next(iter(known)))
    elif len(known) > 1:
        out.violation("cmp:same-frame", f0, fns[0][0]["line"], "equality and ordering compare in different representations (%s): the conversions round differently, so for operands in different units that are equal within an ulp `a < b`, `a == b`, `a > b` are not mutually exclusive (or none holds)" % ", ".join("%s: %s" % (k.split("::")[-1], v) for k, v in sorted(frames.items())))
    # equality and ordering must use the same (IEEE) comparison family on the values
    for fn, label in fns:
        calls = [(callee(x) or "", x) for x in walk(fn["body"]) if x.get("k") in ("MethodCall", "Call", "Binary")]
        total = [c for c, _x in calls if c.endswith("::total_cmp")]
        ff, ll = crate.file_of(fn), fn["line"]
        if label.endswith("::eq"):
            good = any(c.endswith("PartialEq>::eq") or c.endswith("PartialEq::eq") for c, _x in calls)
            want = "`==` of the values"
        else:
            good = any(c.endswith("PartialOrd>::partial_cmp") or c.endswith("PartialOrd::partial_cmp") for c, _x in calls)
            want = "`partial_cmp` of the values"
        if total or not good:
            out.violation("%s:ieee" % label, ff, ll, "%s does not decide by %s%s: `a < b`, `a == b`, `a > b` are then not mutually exclusive (e.g. -0 vs +0)" % (label, want, " (uses f64::total_cmp)" if total else ""))
        else:
            out.ok("%s:ieee" % label, ff, ll, "decided by %s (IEEE semantics, consistent between == and the ordering)" % want)
    # NaN handling precedes any conversion in partial_cmp_preserve_nan
    fn = fns[2][0]
    nan_line = conv_line = None
    for n in walk(fn["body"]):
        if n.get("k") == "MethodCall" and n["name"] == "is_nan" and nan_line is None:
            nan_line = n["s"][0]
        if n.get("k") == "MethodCall" and (callee(n) or "").endswith(CONVERT) and conv_line is None:
            conv_line = n["s"][0]
    f = crate.file_of(fn)
    body = peel(fn["body"])
    first = body["stmts"][0] if body.get("stmts") else None
    nan_first = False
    if first is not None:
        e = first.get("e") or {}
        e = peel(e)
        if e.get("k") == "If":
            c = peel(e["cond"])
            nans = [x for x in walk(c) if x.get("k") == "MethodCall" and x["name"] == "is_nan"]
            ops = two_operands(fn)
            who = set()
            inits = {}
            for x in nans:
                who |= operand_prov(x["recv"], inits, {ops[0]["id"]: 1, ops[1]["id"]: 1})
            rets = [x for x in walk(e["then"]) if x.get("k") == "Ret"]
            if c.get("k") == "Binary" and c.get("op") == "||" and len(who) == 2 and rets:
                nan_first = True
    # the comparison of the CONVERTED values can still be undefined (the conversion multiplies/divides by factors that
    # overflow: inf / inf = NaN), so its result must not be unwrapped
    unwrapped = [x for x in walk(fn["body"]) if x.get("k") == "MethodCall" and x["name"] in ("expect", "unwrap") and peel(x["recv"]).get("k") == "MethodCall" and peel(x["recv"])["name"] == "partial_cmp"]
    if unwrapped:
        uf, ul = crate.loc(fn, unwrapped[0])
        out.violation("Quantity::partial_cmp_preserve_nan:nan-after-conversion", uf, ul, "the ordering of the converted values is unwrapped: a NaN produced by the conversion itself (huge factors: `1 pc^20 < 1 ly^20` computes inf / inf) panics with `unexpectedly got a None partial_cmp`")
    else:
        out.ok("Quantity::partial_cmp_preserve_nan:nan-after-conversion", f, fn["line"], "an undefined comparison after the conversion is mapped to NanOperand, not unwrapped")
    if nan_first:
        out.ok("Quantity::partial_cmp_preserve_nan:nan-first", f, fn["line"], "NaN of either operand is detected before any conversion")
    else:
        out.violation("Quantity::partial_cmp_preserve_nan:nan-first", f, fn["line"], "the NaN test does not cover both operands before the conversion")
    # VM arms: LessThan / GreaterThan etc. read the ordering as mirror images
    run = crate.find_fn("vm::Vm::run_without_cleanup")
    table = {}
    for n in walk(run["body"]):
        if n.get("k") == "Match" and "QuantityOrdering" in crate.ty(peel(n["scrut"])):
            for a in n["arms"]:
                ordv = None
                for p in walk(a["pat"]):
                    if p.get("adt") == "std::cmp::Ordering" and p.get("variant"):
                        ordv = p["variant"]
                if ordv:
                    ops_true = set()
                    for x in walk(a["body"]):
                        if x.get("adt") == "crate::vm::Op" and x.get("variant"):
                            ops_true.add(x["variant"])
                    table[ordv] = ops_true
                nanv = [p for p in walk(a["pat"]) if p.get("variant") == "NanOperand"]
                if nanv:
                    b = peel(a["body"])
                    table["NaN"] = b.get("lit", {}).get("v") if b.get("k") == "Lit" else "?"
    want = {"Less": {"LessThan", "LessOrEqual"}, "Equal": {"LessOrEqual", "GreatorOrEqual"}, "Greater": {"GreaterThan", "GreatorOrEqual"}}
    rf = crate.file_of(run)
    for k, v in want.items():
        if table.get(k) == v:
            out.ok("vm:ordering:%s" % k, rf, run["line"], "Ordering::%s makes exactly %s true" % (k, sorted(v)))
        else:
            out.violation("vm:ordering:%s" % k, rf, run["line"], "Ordering::%s makes %s true, expected %s (a<b must equal b>a)" % (k, sorted(table.get(k) or []), sorted(v)))
    if table.get("NaN") is False:
        out.ok("vm:ordering:NaN", rf, run["line"], "every ordering comparison involving NaN is false")
    else:
        out.violation("vm:ordering:NaN", rf, run["line"], "ordering comparisons with a NaN operand are not constantly false")
    out.analysed = {"functions": 4, "conversions": sum(1 for f in out.findings if ":convert(" in f.key)}
    out.floor("conversions", out.analysed["conversions"], 3)
    return out
