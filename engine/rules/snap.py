"""R1 SNAP — snapshot/restore pairing on every failing exit.

Abstract interpretation of one function over its HIR (path-sensitive in the
status of `Result` locals, so that the idiom
    let r = self.c.dirty(..); if r.is_err() { restores } let v = r?;
is followed exactly and the infeasible path "is_err() false, then `?` fails"
is never explored).
"""
from core import RuleOut
from hirlib import (
    AnchorMissing,
    callee,
    children,
    ctor_variant,
    is_try,
    local_of,
    peel,
    peel_refs,
    place_path,
    strip_generics,
    try_inner,
    walk,
)

RESULT_WRAPPERS = ("map_err", "map", "or_else", "and_then")


class State:
    __slots__ = ("dirty", "ever", "snaps", "rstat", "alias", "trail", "rec_pending")

    def __init__(self):
        self.dirty = set()  # tuples: ('resolver','imported_modules') / ('typechecker',)
        self.ever = set()
        self.snaps = {}  # var id -> (path tuple, valid, name)
        self.rstat = {}  # var id -> 'ok' | 'err'
        self.alias = {}  # var id -> var id (result wrappers)
        self.trail = ()  # dirtying call lines, for diagnostics
        self.rec_pending = None  # line of a nested interpret call whose SUCCESS effects apply from the next statement on

    def copy(self):
        s = State()
        s.dirty = set(self.dirty)
        s.ever = set(self.ever)
        s.snaps = dict(self.snaps)
        s.rstat = dict(self.rstat)
        s.alias = dict(self.alias)
        s.trail = self.trail
        s.rec_pending = self.rec_pending
        return s

    def key(self):
        return (
            frozenset(self.dirty),
            frozenset(self.ever),
            frozenset((k, v[0], v[1]) for k, v in self.snaps.items()),
            frozenset(self.rstat.items()),
            frozenset(self.alias.items()),
            self.rec_pending,
        )

    def root(self, v):
        seen = set()
        while v in self.alias and v not in seen:
            seen.add(v)
            v = self.alias[v]
        return v


def dedupe(states):
    out = {}
    for s in states:
        out.setdefault(s.key(), s)
    return list(out.values())


def overlaps(a, b):
    n = min(len(a), len(b))
    return a[:n] == b[:n]


class ModSets:
    """Which fields of `self` a method may modify (transitively, same-type callees)."""

    def __init__(self, crate):
        self.crate = crate
        self.memo = {}

    def of(self, def_path):
        if def_path in self.memo:
            return self.memo[def_path]
        self.memo[def_path] = set()  # recursion guard: optimistic, fixed below
        res = self._compute(def_path)
        self.memo[def_path] = res
        return res

    def _compute(self, def_path):
        body = self.crate.hir.get(def_path)
        if body is None:
            return None
        params = body["params"]
        if not params or params[0].get("k") != "Binding" or params[0].get("name") != "self":
            return set()
        self_id = params[0]["id"]
        self_ty = self.crate.types[params[0]["t"]]
        if not self_ty.startswith("&mut"):
            return set()
        out = set()
        for n in walk(body["body"]):
            k = n.get("k")
            if k in ("Assign", "AssignOp"):
                p = place_path(n["l"])
                if p and p[0] == self_id:
                    if not p[2]:
                        return None
                    out.add(p[2][0])
            elif k == "MethodCall":
                p = place_path(n["recv"])
                if p and p[0] == self_id:
                    if p[2]:
                        at = self.crate.ty(peel(n["recv"]), adjusted=True)
                        if at.startswith("&mut"):
                            out.add(p[2][0])
                    else:
                        c = callee(n)
                        cb = self.crate.hir.get(c) if c else None
                        if cb is None:
                            # foreign method on &mut Self (e.g. clone_from): unknown
                            ptys = []
                        else:
                            ptys = cb.get("param_tys", [])
                        if cb is None:
                            if n["name"] not in ("clone",):
                                return None
                        elif ptys and ptys[0].startswith("&mut"):
                            sub = self.of(c)
                            if sub is None:
                                return None
                            out |= sub
                # `&mut self.f` passed as an argument
                for a in n["args"]:
                    r = self._mut_arg(a, self_id)
                    if r is None:
                        return None
                    out |= r
            elif k == "Call":
                for a in n["args"]:
                    r = self._mut_arg(a, self_id)
                    if r is None:
                        return None
                    out |= r
        return out

    def _mut_arg(self, a, self_id):
        a = peel(a)
        if a.get("k") == "AddrOf" and a.get("mut"):
            p = place_path(a["e"])
            if p and p[0] == self_id:
                if not p[2]:
                    return None
                return {p[2][0]}
        if a.get("k") == "Path" and a["res"].get("r") == "local" and a["res"]["id"] == self_id:
            return None  # self passed on as a whole
        return set()


class Snap:
    def __init__(self, crate, fn, exempt, modsets):
        self.crate = crate
        self.fn = fn
        self.exempt = exempt  # {path tuple: reason}
        self.ms = modsets
        self.exits = []  # (kind, state, node)
        self.unrecognised = []
        self.self_id = None
        self.stats = {"dirtying_calls": 0, "snapshots": 0, "restores": 0, "try_exits": 0}
        p0 = fn["params"][0]
        if p0.get("k") != "Binding" or p0.get("name") != "self":
            raise AnchorMissing("%s has no self parameter" % fn["def"])
        self.self_id = p0["id"]
        self.self_adt = strip_generics(crate.types[p0["t"]])

    # ---- type helpers
    def field_type(self, path):
        """ADT path of self.<path> (None if unknown)."""
        adt = self.crate.adts.get(self.self_adt)
        cur = adt
        for f in path:
            if cur is None or not cur.get("variants"):
                return None
            flds = {x["name"]: x for x in cur["variants"][0]["fields"]}
            if f not in flds:
                return None
            ty = flds[f]["ty"]
            if ty.get("k") != "adt":
                return None
            cur = self.crate.adts.get(ty["path"])
        return cur

    # ---- effects
    def dirty(self, st, path, fields, line):
        """Mark self.<path> modified; `fields` = set of sub-fields or None (whole)."""
        path = tuple(path)
        if fields is None:
            adt = self.field_type(path)
            if adt is not None and adt.get("local") and adt.get("variants"):
                fields = {x["name"] for x in adt["variants"][0]["fields"]}
        if fields is None:
            st.dirty.add(path)
            st.ever.add(path)
        else:
            for f in fields:
                st.dirty.add(path + (f,))
                st.ever.add(path + (f,))
        st.trail = st.trail + (line,)

    def restore(self, st, path):
        path = tuple(path)
        for d in list(st.dirty):
            if d[: len(path)] == path:
                st.dirty.discard(d)
        # a whole-component dirt is not cleaned by a sub-field restore
        # (it stays in `dirty` and is reported)

    # ---- value classification
    def result_var(self, e, st):
        """Local id whose Ok/Err-ness `e` has (through map_err & co)."""
        e = peel_refs(e)
        while e.get("k") == "MethodCall" and e["name"] in RESULT_WRAPPERS and "result::Result" in (callee(e) or ""):
            e = peel_refs(e["recv"])
        v = local_of(e)
        if v is not None:
            return st.root(v)
        return None

    def snapshot_src(self, e):
        """path if e is `self.<path>.clone()` (possibly through refs)."""
        e = peel(e)
        if e.get("k") == "MethodCall" and e["name"] == "clone":
            p = place_path(e["recv"])
            if p and p[0] == self.self_id and p[2]:
                return tuple(p[2])
        return None

    def snap_var(self, e):
        """var id if e is `v` or `v.clone()` for a local v."""
        e = peel(e)
        while e.get("k") == "MethodCall" and e["name"] == "clone":
            e = peel(e["recv"])
        return local_of(e)

    def is_recursive(self, n):
        return n.get("k") == "MethodCall" and callee(n) == self.fn["def"]

    # ---- interpreter
    def ev(self, e, states):
        if not states or e is None:
            return states
        if isinstance(e, list):
            for x in e:
                states = self.ev(x, states)
            return states
        k = e.get("k")
        m = getattr(self, "ev_" + str(k), None)
        if m is not None:
            return dedupe(m(e, states))
        for c in children(e):
            states = self.ev(c, states)
        return states

    def ev_Block(self, e, states):
        for st in e.get("stmts", []):
            states = self.ev_stmt(st, states)
        if e.get("tail") is not None:
            states = self.ev(e["tail"], states)
        return states

    def ev_stmt(self, st, states):
        for s_ in states:
            if s_.rec_pending is not None:
                # what a nested input may modify = what this very function may modify (computed by a first pass)
                for pth in sorted(getattr(self, "nested_mods", set())):
                    s_.dirty.add(pth)
                    s_.ever.add(pth)
                s_.trail = s_.trail + (s_.rec_pending,)
                s_.rec_pending = None
        k = st.get("k")
        if k == "Let":
            init = st.get("init")
            if init is not None:
                pi = peel(init)
                if isinstance(pi, dict) and pi.get("k") == "MethodCall" and self.is_recursive(pi):
                    self._bound_rec = id(pi)
                states = self.ev(init, states)
                binds = [b for b in walk(st["pat"]) if b.get("k") == "Binding"]
                pat = st["pat"]
                if pat.get("k") == "Binding":
                    vid = pat["id"]
                    src = self.snapshot_src(init)
                    for s in states:
                        s.rstat.pop(vid, None)
                        s.alias.pop(vid, None)
                        if src is not None:
                            valid = not any(overlaps(d, src) for d in s.dirty)
                            s.snaps[vid] = (src, valid, pat["name"])
                        else:
                            s.snaps.pop(vid, None)
                            rv = self.result_var(init, s)
                            if rv is not None and rv != vid:
                                s.alias[vid] = rv
                    if src is not None:
                        self.stats["snapshots"] += 1
                else:
                    for b in binds:
                        for s in states:
                            s.snaps.pop(b["id"], None)
            if st.get("els") is not None:
                # `let .. else { diverge }`
                self.ev(st["els"], [s.copy() for s in states])
            return states
        if k in ("Expr", "Semi"):
            return self.ev(st["e"], states)
        return states

    def cond_refinements(self, c, st):
        """[(var, status_if_true, status_if_false)] for a condition."""
        c = peel(c)
        k = c.get("k")
        if k == "MethodCall" and c["name"] in ("is_err", "is_ok") and "result::Result" in (callee(c) or ""):
            v = self.result_var(c["recv"], st)
            if v is not None:
                return [(v, "err", "ok")] if c["name"] == "is_err" else [(v, "ok", "err")]
        if k == "Unary" and c.get("op") == "Not":
            return [(v, f, t) for (v, t, f) in self.cond_refinements(c["e"], st)]
        if k == "Binary" and c.get("op") == "&&":
            out = []
            for side in (c["l"], c["r"]):
                for (v, t, f) in self.cond_refinements(side, st):
                    out.append((v, t, None))  # the false branch of a conjunction tells nothing
            return out
        if k == "Let":
            p = c["pat"]
            while p.get("k") in ("Ref",):
                p = p["pat"]
            if p.get("k") == "TupleStruct" and p.get("adt") == "std::result::Result":
                v = self.result_var(c["init"], st)
                if v is not None:
                    t = "err" if p.get("variant") == "Err" else "ok"
                    # irrefutable sub-pattern? only then the else branch is informative
                    return [(v, t, None)]
        return []

    def ev_If(self, e, states):
        states = self.ev(e["cond"], states)
        out = []
        for st in states:
            refs = self.cond_refinements(e["cond"], st)
            # then-branch
            feasible = True
            s_then = st.copy()
            for (v, t, f) in refs:
                if t is not None:
                    if s_then.rstat.get(v, t) != t:
                        feasible = False
                    s_then.rstat[v] = t
            if feasible:
                out.extend(self.ev(e["then"], [s_then]))
            feasible = True
            s_else = st.copy()
            for (v, t, f) in refs:
                if f is not None:
                    if s_else.rstat.get(v, f) != f:
                        feasible = False
                    s_else.rstat[v] = f
            if feasible:
                if e.get("else") is not None:
                    out.extend(self.ev(e["else"], [s_else]))
                else:
                    out.append(s_else)
        return out

    def ev_Match(self, e, states):
        if is_try(e):
            inner = try_inner(e)
            states = self.ev(inner, states)
            self.stats["try_exits"] += 1
            out = []
            for st in states:
                v = self.result_var(inner, st)
                known = st.rstat.get(v) if v is not None else None
                if known == "ok":
                    out.append(st)
                elif known == "err":
                    self.exits.append(("err", st, e))
                else:
                    self.exits.append(("err", st.copy(), e))
                    if v is not None:
                        st.rstat[v] = "ok"
                    out.append(st)
            return out
        states = self.ev(e["scrut"], states)
        out = []
        for arm in e["arms"]:
            ss = [s.copy() for s in states]
            # refine on `Err(..)`/`Ok(..)` arms of a tracked Result
            p = arm["pat"]
            while p.get("k") == "Ref":
                p = p["pat"]
            if p.get("k") == "TupleStruct" and p.get("adt") == "std::result::Result":
                keep = []
                for s in ss:
                    v = self.result_var(e["scrut"], s)
                    t = "err" if p.get("variant") == "Err" else "ok"
                    if v is not None:
                        if s.rstat.get(v, t) != t:
                            continue
                        s.rstat[v] = t
                    keep.append(s)
                ss = keep
            if "guard" in arm:
                ss = self.ev(arm["guard"], ss)
            out.extend(self.ev(arm["body"], ss))
        return out

    def classify_return(self, e, st):
        e = peel(e)
        cv = ctor_variant(e)
        if cv and cv[0] == "std::result::Result":
            return "err" if cv[1] == "Err" else "ok"
        if self.is_recursive(e):
            return "passthrough"
        v = self.result_var(e, st)
        if v is not None and st.rstat.get(v) in ("ok", "err"):
            return st.rstat[v]
        return "unknown"

    def do_return(self, e, states, node):
        if e is not None:
            states = self.ev(e, states)
        for st in states:
            kind = self.classify_return(e, st) if e is not None else "ok"
            if kind in ("err", "unknown"):
                self.exits.append((kind, st, node))
            elif kind == "ok":
                self.exits.append(("ok", st, node))
            # passthrough: the recursive call site already recorded the inductive obligation
        return []

    def ev_Ret(self, e, states):
        return self.do_return(e.get("e"), states, e)

    def ev_Assign(self, e, states):
        states = self.ev(e["r"], states)
        p = place_path(e["l"])
        if not p or p[0] != self.self_id:
            return self.ev(e["l"], states)
        path = tuple(p[2])
        sv = self.snap_var(e["r"])
        line = e["s"][0]
        for st in states:
            snap = st.snaps.get(sv) if sv is not None else None
            if snap and snap[0] == path and snap[1]:
                self.restore(st, path)
            elif snap and snap[0] == path and not snap[1]:
                # restored from a snapshot taken after the component was modified
                self.dirty(st, path, None, line)
                self.unrecognised.append(
                    (e, "restores self.%s from `%s`, a snapshot taken after the component was already modified"
                     % (".".join(path), snap[2]))
                )
            else:
                if len(path) == 0:
                    self.dirty(st, (), None, line)
                elif len(path) == 1:
                    self.dirty(st, path, None, line)
                else:
                    self.dirty(st, path[:-1], {path[-1]}, line)
        if any(True for _ in states):
            self.stats["restores"] += 1
        return states

    def ev_AssignOp(self, e, states):
        states = self.ev(e["r"], states)
        p = place_path(e["l"])
        if p and p[0] == self.self_id and p[2]:
            path = tuple(p[2])
            for st in states:
                if len(path) == 1:
                    self.dirty(st, path, None, e["s"][0])
                else:
                    self.dirty(st, path[:-1], {path[-1]}, e["s"][0])
        return states

    def mut_args(self, args, states, line):
        for a in args:
            a2 = peel(a)
            if a2.get("k") == "AddrOf" and a2.get("mut"):
                p = place_path(a2["e"])
                if p and p[0] == self.self_id:
                    for st in states:
                        self.dirty(st, tuple(p[2]), None, line)
        return states

    def ev_MethodCall(self, e, states):
        states = self.ev(e["recv"], states)
        states = self.ev(e["args"], states)
        line = e["s"][0]
        p = place_path(e["recv"])
        c = callee(e)
        if p and p[0] == self.self_id:
            if p[2]:
                at = self.crate.ty(peel(e["recv"]), adjusted=True)
                if at.startswith("&mut"):
                    ms = self.ms.of(c) if c else None
                    self.stats["dirtying_calls"] += 1
                    for st in states:
                        self.dirty(st, tuple(p[2]), ms, line)
            else:
                if self.is_recursive(e):
                    for st in states:
                        # `let r = self.f(..)`: the nested failure is examined later (`if r.is_err() { restore }`), the
                        # obligation is checked where `r` is returned; otherwise (`?`, `return self.f(..)`) the nested
                        # failure leaves this function at once with the state as it is here
                        if id(e) != getattr(self, "_bound_rec", None):
                            self.exits.append(("inductive", st.copy(), e))
                        # seen from the OUTER input (snapshots taken before the nested call stay the right baseline), everything the nested input may define has been
                        # modified: if the outer input fails later on, that has to be undone as well.  (Applied from
                        # the next statement on: the `?` of this very call is the nested input's own failure.)
                        st.rec_pending = line
                else:
                    cb = self.crate.hir.get(c) if c else None
                    if cb is not None and cb.get("param_tys") and cb["param_tys"][0].startswith("&mut"):
                        ms = self.ms.of(c)
                        self.stats["dirtying_calls"] += 1
                        for st in states:
                            if ms is None:
                                self.dirty(st, (), None, line)
                            else:
                                for f in ms:
                                    self.dirty(st, (f,), None, line)
                    elif cb is None and e["name"] != "clone":
                        at = self.crate.ty(peel(e["recv"]))
                        if at.startswith("&mut"):
                            # unknown callee receiving &mut Self
                            for st in states:
                                self.dirty(st, (), None, line)
        return self.mut_args(e["args"], states, line)

    def ev_Call(self, e, states):
        states = self.ev(e["f"], states)
        states = self.ev(e["args"], states)
        return self.mut_args(e["args"], states, e["s"][0])

    def ev_AddrOf(self, e, states):
        states = self.ev(e["e"], states)
        if e.get("mut"):
            p = place_path(e["e"])
            if p and p[0] == self.self_id and p[2]:
                # a `&mut self.f` that is not a call argument (handled there): conservative
                for st in states:
                    self.dirty(st, tuple(p[2]), None, e["s"][0])
        return states

    def ev_Closure(self, e, states):
        with_body = self.ev(e["body"], [s.copy() for s in states])
        return states + with_body

    def ev_Loop(self, e, states):
        s1 = self.ev(e["body"], [s.copy() for s in states])
        s2 = self.ev(e["body"], [s.copy() for s in s1])
        return states + s1 + s2

    def run(self):
        st0 = State()
        body = self.fn["body"]
        # evaluate the body; its value is the function's return value
        b = peel(body)
        if b.get("k") == "Block":
            states = [st0]
            for s in b.get("stmts", []):
                states = dedupe(self.ev_stmt(s, states))
            if b.get("tail") is not None:
                self.do_return(b["tail"], states, b["tail"])
        else:
            self.do_return(b, [st0], b)


def is_exempt(path, exempt):
    for n in range(1, len(path) + 1):
        if path[:n] in exempt:
            return exempt[path[:n]]
    return None


def field_assigned_outside_ctor(crate, adt_path, field):
    """Sites that assign `<expr of type adt>.field = ..` anywhere in the crate."""
    sites = []
    for d, b in crate.hir.items():
        for n in walk(b["body"]):
            if n.get("k") in ("Assign", "AssignOp"):
                l = peel_refs(n["l"])
                if l.get("k") == "Field" and l["name"] == field:
                    if strip_generics(crate.ty(peel_refs(l["e"]))) == adt_path:
                        sites.append((d, n["s"][0]))
    return sites


def rule_snap(crate, fn_suffix, exempt, exempt_never_assigned=(), floors=None):
    """exempt: {('resolver','files'): reason, ...}"""
    out = RuleOut("SNAP", "every failing exit restores every component it modified")
    fn = crate.find_fn(fn_suffix)
    file = crate.file_of(fn)
    short = fn_suffix
    ms = ModSets(crate)
    # pass 1: which components can one interpretation modify at all?
    sn1 = Snap(crate, fn, exempt, ms)
    sn1.nested_mods = set()
    sn1.run()
    mods = set()
    for _kind, st_, _node in sn1.exits:
        mods |= set(st_.ever)
    # pass 2: a successful nested interpretation modifies those components of the outer one
    sn = Snap(crate, fn, exempt, ms)
    sn.nested_mods = mods
    sn.run()
    # exempt rows that rely on "never assigned after construction" are re-checked
    for (adt, field, path) in exempt_never_assigned:
        sites = field_assigned_outside_ctor(crate, adt, field)
        if sites:
            out.violation(
                "%s:%s" % (short, ".".join(path)),
                file,
                fn["line"],
                "exempt row for self.%s assumes the field is never assigned after construction, but it is assigned in %s"
                % (".".join(path), sites),
            )
    for (node, msg) in sn.unrecognised:
        f, l = crate.loc(fn, node)
        out.violation("%s:stale-snapshot" % short, f, l, msg)
    seen = {}
    n_err_exits = 0
    for kind, st, node in sn.exits:
        f, l = crate.loc(fn, node)
        if kind == "ok":
            continue
        n_err_exits += 1
        kinds = {"err": "error exit", "unknown": "return of an unclassified Result", "inductive": "recursive call (callee's failure restores only to this state)"}
        for path in sorted(st.ever):
            comp = ".".join(path)
            key = "%s:%s" % (short, comp)
            residual = any(d[: len(path)] == path or path[: len(d)] == d for d in st.dirty)
            ex = is_exempt(path, exempt)
            if residual and ex is None:
                prev = seen.get(key)
                detail = "self.%s is modified (line(s) %s) and not restored from a snapshot taken before the modification at the %s on line %d" % (
                    comp, ",".join(str(x) for x in st.trail), kinds[kind], l)
                if prev is None or prev[0] != "violation":
                    seen[key] = ("violation", f, l, [detail])
                else:
                    prev[3].append(detail)
            elif residual and ex is not None:
                seen.setdefault(key, ("exempt", f, l, [ex]))
            else:
                if key not in seen:
                    seen[key] = ("ok", f, l, ["restored before the %s on line %d" % (kinds[kind], l)])
                elif seen[key][0] == "ok":
                    seen[key][3].append("restored before the %s on line %d" % (kinds[kind], l))
    for key, (verdict, f, l, details) in sorted(seen.items()):
        out.add(key, f, l, verdict, "; ".join(details[:6]) + (" …(+%d)" % (len(details) - 6) if len(details) > 6 else ""))
    out.analysed = dict(sn.stats)
    out.analysed["error_exits"] = n_err_exits
    out.analysed["components"] = len(seen)
    out.analysed["modsets"] = {k.split("::")[-1]: (sorted(v) if v is not None else "*") for k, v in ms.memo.items() if v}
    for name, minimum in (floors or {}).items():
        out.floor(name, out.analysed.get(name, 0), minimum)
    return out
