"""INSPECT — the inspection commands (`help`, `info`, `list`) do not change the live session.

Commands are not part of the saved history and are not inputs: what `ans`, the defined names and their types are must
not depend on whether the user looked something up in between (C07: replaying the saved lines gives the same results).
For every Context method that the Help / Info / List arms of CommandRunner::try_run_command call:

  * it takes `&self`  — the type system then rules out any change of the session (Context is `Freeze` — no UnsafeCell in any field by
    value, rustc's own query), or
  * if it takes `&mut self`, no call of Context::interpret / interpret_with_settings in it (or in the Context methods it
    calls on `self`, depth 4) has a receiver rooted at `self`; evaluating on `self.clone()` is fine."""
from core import RuleOut
from hirlib import callee, pat_variants, peel, peel_refs, place_path, strip_generics, walk

PARSED = "crate::command::ParsedCommand"
INSPECTING = {"Help", "Info", "List"}


def _self_rooted(e, fn, inits, depth=0):
    e = peel_refs(e)
    p = place_path(e)
    if p is not None:
        if p[1] == "self":
            return True
        if e.get("k") == "Path" and e["res"].get("r") == "local" and e["res"]["id"] in inits and depth < 4:
            return _self_rooted(inits[e["res"]["id"]], fn, inits, depth + 1)
        return False
    return False


def rule_inspect(crate):
    out = RuleOut("INSPECT", "help / info / list do not modify the live session (they take &self, or evaluate on a copy)")
    run = crate.find_fn("command::CommandRunner::try_run_command")
    f0 = crate.file_of(run)
    entry = {}  # def path -> (command, line)
    for m in walk(run["body"]):
        if m.get("k") != "Match" or str(m.get("src")) != "Normal":
            continue
        for a in m["arms"]:
            vs = pat_variants(a["pat"], PARSED)
            if not vs or not (vs & INSPECTING):
                continue
            cmd = sorted(vs & INSPECTING)[0]
            for c in walk(a["body"]):
                if c.get("k") == "MethodCall":
                    cal = callee(c) or ""
                    if cal.startswith("crate::Context::") and cal in crate.hir:
                        entry.setdefault(cal, (cmd, crate.loc(run, c)[1]))
    if len(entry) < 3:
        out.error("anchor missing: Context methods called from the Help/Info/List arms of try_run_command (%d found)" % len(entry))
        return out
    # interior mutability in Context would void the `&self` argument
    ctx_adt = crate.adt("crate::Context")
    cells = []
    if ctx_adt:
        for v in ctx_adt.get("variants", []):
            for fld in v.get("fields", []):
                if fld.get("freeze") is False:  # rustc's own Freeze query: UnsafeCell somewhere inside (by value)
                    cells.append(fld.get("name"))
    n = 0
    for path, (cmd, line) in sorted(entry.items()):
        fn = crate.hir[path]
        n += 1
        short = path.split("::")[-1]
        key = "%s:%s" % (cmd.lower(), short)
        ff = crate.file_of(fn)
        tys = fn.get("param_tys") or []
        self_ty = tys[0] if tys else ""
        if self_ty.startswith("&") and not self_ty.startswith("&mut") and not cells:
            out.ok(key, ff, fn["line"], "takes `&self` (%s): cannot change the session" % self_ty[:40])
            continue
        # &mut self: look for evaluation on the live session
        bad = None
        seen, work = set(), [(fn, 0)]
        while work and bad is None:
            cur, d = work.pop()
            if cur["def"] in seen:
                continue
            seen.add(cur["def"])
            inits = {}
            for s_ in walk(cur["body"]):
                if s_.get("k") == "Let" and s_.get("init") is not None and s_["pat"].get("k") == "Binding":
                    inits[s_["pat"]["id"]] = s_["init"]
            for c in walk(cur["body"]):
                if c.get("k") != "MethodCall":
                    continue
                cal = callee(c) or ""
                if cal in ("crate::Context::interpret", "crate::Context::interpret_with_settings"):
                    if _self_rooted(c["recv"], cur, inits):
                        bad = (cur, c)
                        break
                elif cal.startswith("crate::Context::") and cal in crate.hir and d < 4 and _self_rooted(c["recv"], cur, inits):
                    work.append((crate.hir[cal], d + 1))
        if bad is None:
            out.ok(key, ff, fn["line"], "takes `&mut self` but never evaluates code on the live session")
        else:
            bf, bl = crate.loc(bad[0], bad[1])
            out.violation(key, bf, bl, "`%s` (command `%s`) runs code through Context::interpret on the LIVE session: the looked-up expression becomes the last result, so `2 + 3`, `info c`, `ans + 1` fails (ans is now a Velocity) — and the saved history (`2 + 3`, `ans + 1`) replays to a different result" % (short, cmd.lower()))
    out.analysed = {"inspection_entry_points": n, "interior_mutability_fields": len(cells)}
    out.floor("inspection_entry_points", n, 3)
    return out
