"""STRIDX — in the native-function layer strings are sliced with the fallible `str::get(range)`, never with
panicking `&s[a..b]` (offsets there are run-time values; a byte offset inside a multi-byte character panics)."""
from core import RuleOut
from hirlib import walk

STR_TYPES = ("str", "std::string::String", "compact_str::CompactString", "std::borrow::Cow<'_, str>")


def rule_stridx(crate, dirs=("numbat/src/ffi/",), min_bodies=40):
    out = RuleOut("STRIDX", "no panicking range-indexing of strings in the FFI layer")
    bodies = 0
    sites = 0
    gets = 0
    for d, b in crate.hir.items():
        f = crate.file_of(b)
        if not any(x in f for x in dirs):
            continue
        bodies += 1
        for n in walk(b["body"]):
            if n.get("k") == "Index":
                t = crate.ty(n["e"]).lstrip("&").replace("mut ", "").strip()
                ti = crate.ty(n["idx"])
                if t in STR_TYPES and "std::ops::Range" in ti:
                    sites += 1
                    out.violation("%s:str[%s]" % (d.split("::")[-1], ti.split("::")[-1].split("<")[0]), f, n["s"][0],
                                  "`&s[range]` on a string in native function `%s`: a run-time offset that is out of bounds or inside a multi-byte character panics (use str::get)" % d.split("::")[-1])
            if n.get("k") == "MethodCall" and n["name"] == "get" and (n.get("inst") or "").startswith("core::str::"):
                gets += 1
    if sites == 0:
        out.ok("ffi:no-str-range-index", dirs[0], 1, "%d native-function bodies contain no `&str[range]`; %d fallible str::get(range) sites" % (bodies, gets))
    out.analysed = {"bodies": bodies, "panicking_sites": sites, "fallible_get_sites": gets}
    out.floor("bodies", bodies, min_bodies)
    return out


def rule_stridx_inclusive(crates, min_sites=10, skip_tests=True):
    """Crate-wide: a `str` indexed with an INCLUSIVE range (`..=i`, `a..=i`) whose end is a run-time value.  Offsets
    obtained from char_indices / find / rfind / spans are START offsets of characters; `..=i` then ends one byte into
    the character, which panics as soon as that character is multi-byte.  (Exclusive ranges at such offsets are fine
    and are only counted.)"""
    from hirlib import peel_refs

    out = RuleOut("STRIDX.inclusive", "no inclusive byte range with a run-time end on a string anywhere in the library or the CLI")
    n_all = 0
    n_incl = 0
    for crate in crates:
        for d, b in crate.hir.items():
            if skip_tests and ("::tests::" in d or "::test::" in d):
                continue
            f = crate.file_of(b)
            for n in walk(b["body"]):
                if n.get("k") != "Index":
                    continue
                t = crate.ty(n["e"]).lstrip("&").replace("mut ", "").strip()
                ti = crate.ty(n["idx"])
                if t not in STR_TYPES or "std::ops::Range" not in ti:
                    continue
                n_all += 1
                if "Inclusive" not in ti:
                    continue
                n_incl += 1
                # end operand: a literal end is a fixed ASCII assumption of the author, not decided here
                lits = [x for x in walk(n["idx"]) if x.get("k") == "Lit"]
                paths = [x for x in walk(n["idx"]) if x.get("k") == "Path" and (x.get("res") or {}).get("r") == "local"]
                key = "%s:str[..=]" % d.split("::")[-1]
                if paths:
                    out.violation(key, f, n["s"][0], "`&s[..=i]` on a string in `%s` with a run-time end offset: if `i` is the start offset of a multi-byte character (char_indices, find, span offsets) the slice ends inside that character and panics" % d.split("::")[-1])
                else:
                    out.advisory(key, f, n["s"][0], "inclusive string range with a constant end; not decided")
    if n_incl == 0:
        out.ok("no-inclusive-str-range", "numbat/src", 1, "%d string range-index sites in non-test code, none inclusive" % n_all)
    out.analysed = {"str_range_index_sites": n_all, "inclusive": n_incl}
    out.floor("str_range_index_sites", n_all, min_sites)
    return out
