"""STRIDX — in the native-function layer strings are sliced with the fallible `str::get(range)`, never with
panicking `&s[a..b]` (offsets there are run-time values; a byte offset inside a multi-byte character panics)."""
from core import RuleOut
from hirlib import walk

STR_TYPES = ("str", "std::string::String", "compact_str::CompactString", "std::borrow::Cow<'_, str>")


def rule_stridx(crate, dirs=("numbat/src/ffi/",), min_bodies=40):
    out = RuleOut("STRIDX", "no panicking range-indexing of strings in the FFI layer")
    bodies = 0
    sites = 0
    gets = 0
    for d, b in crate.hir.items():
        f = crate.file_of(b)
        if not any(x in f for x in dirs):
            continue
        bodies += 1
        for n in walk(b["body"]):
            if n.get("k") == "Index":
                t = crate.ty(n["e"]).lstrip("&").replace("mut ", "").strip()
                ti = crate.ty(n["idx"])
                if t in STR_TYPES and "std::ops::Range" in ti:
                    sites += 1
                    out.violation("%s:str[%s]" % (d.split("::")[-1], ti.split("::")[-1].split("<")[0]), f, n["s"][0],
                                  "`&s[range]` on a string in native function `%s`: a run-time offset that is out of bounds or inside a multi-byte character panics (use str::get)" % d.split("::")[-1])
            if n.get("k") == "MethodCall" and n["name"] == "get" and (n.get("inst") or "").startswith("core::str::"):
                gets += 1
    if sites == 0:
        out.ok("ffi:no-str-range-index", dirs[0], 1, "%d native-function bodies contain no `&str[range]`; %d fallible str::get(range) sites" % (bodies, gets))
    out.analysed = {"bodies": bodies, "panicking_sites": sites, "fallible_get_sites": gets}
    out.floor("bodies", bodies, min_bodies)
    return out
