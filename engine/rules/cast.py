"""R7 CAST — narrowing integer casts that feed bytecode operands / table indices must be bounded by a
check whose failing edge is an error return.  `assert!`-guarded casts prevent the wrong value but are
themselves input-reachable panics; unguarded ones truncate silently."""
from core import RuleOut
from mirlib import Mir

INTW = {"u8": 8, "u16": 16, "u32": 32, "u64": 64, "usize": 64, "i8": 8, "i16": 16, "i32": 32, "i64": 64, "isize": 64, "u128": 128, "i128": 128}
PANICS = ("core::panicking::panic", "core::panicking::panic_fmt", "core::panicking::assert_failed", "std::rt::begin_panic")


def quantity(m, tr):
    calls = {c.split("::")[-1] for c in tr["calls"]}
    fields = sorted(f for f in tr["fields"] if not f.isdigit())
    names = sorted(n for n in tr["names"] if n not in ("self",))
    if "len" in calls:
        base = fields[-1] if fields else (names[0] if names else "?")
        return "len(%s)" % base
    if fields and ("position" in calls or "rposition" in calls or "get_index_of" in calls):
        return "index_in(%s)" % fields[-1]
    if "get" in calls and names:
        return names[0]
    if names:
        return names[0]
    if fields:
        return fields[-1]
    return "?"


def following_opcode(m, bi):
    """Op variant of the next `Vm::add_op*` call reached from block bi along straight-line successors."""
    seen = set()
    cur = bi
    for _ in range(12):
        if cur in seen:
            return None
        seen.add(cur)
        t = m.blocks[cur]["term"]
        if t.get("k") == "call" and (t["f"].get("fn") or "").startswith("crate::vm::Vm::add_op"):
            a = t["args"][1] if len(t["args"]) > 1 else None
            if a and a.get("o") in ("move", "copy"):
                for (_b, kind, payload, _st) in m.defs.get(a["pl"]["l"], []):
                    if kind == "rv" and payload.get("rv") == "aggr" and payload.get("variant"):
                        return payload["variant"]
            if a and a.get("o") == "const":
                return a.get("c", "").split("::")[-1]
            return "?"
        nxt = [s_ for s_ in m.succ[cur] if not m.blocks[s_].get("cleanup")]
        if len(nxt) != 1:
            return None
        cur = nxt[0]
    return None


def rule_cast(crate, files, dispositions=None, min_sites=24):
    out = RuleOut("CAST", "narrowing casts into bytecode operands are bounded by an error-returning check")
    dispositions = dispositions or {}
    n_sites = 0
    counts = {}
    for d, b in crate.mir.items():
        f = crate.files[b["file"]]
        if not any(f.endswith(x) for x in files):
            continue
        m = None
        for bi, blk in enumerate(b["body"]["blocks"]):
            for st in blk["stmts"]:
                rv = st.get("rv", {})
                if rv.get("rv") != "cast" or not rv.get("ck", "").startswith("IntToInt"):
                    continue
                fr, to = rv["from"], rv["to"]
                if not (fr in INTW and to in INTW and INTW[to] < INTW[fr]):
                    continue
                if len(st["s"]) >= 2 and st["s"][1] == 1:
                    continue  # macro-generated
                n_sites += 1
                m = m or Mir(crate, b)
                tr = m.trace(rv["op"])
                fn = d.split("::")[-1].replace("{closure#0}", "closure")
                q = quantity(m, tr)
                opn = following_opcode(m, bi)
                base = "%s:%s:%s->%s" % (fn, opn, q, to) if opn else "%s:%s->%s" % (fn, q, to)
                idx = counts.get(base, 0)
                counts[base] = idx + 1
                key = base if idx == 0 else "%s#%d" % (base, idx)
                line = st["s"][0]
                # exact: masked
                if "BitAnd" in tr["ops"] and any(c.startswith("255") or c.startswith("0xff") for c in tr["consts"]):
                    out.exempt(key, f, line, "exact: the operand is masked with 0xff before the cast")
                    continue
                # dominating assert on the same quantity?
                kind = "truncate"
                guard_fields = None
                for pi, pblk in enumerate(m.blocks):
                    t = pblk["term"]
                    if t.get("k") == "call" and t["f"].get("o") == "const" and (t["f"].get("fn") or "") in PANICS:
                        # find the switch that leads here
                        for s in m.pred[pi]:
                            stt = m.blocks[s]["term"]
                            if stt.get("k") == "switch" and m.dominates(s, bi) and not m.dominates(pi, bi):
                                g = m.trace(stt["discr"])
                                if any("65535" in c or "u16::MAX" in c for c in g["consts"]) or "Le" in g["ops"] or "Lt" in g["ops"]:
                                    guard_fields = g["fields"] | g["names"]
                                    if (guard_fields & (tr["fields"] | tr["names"])) - {"self"}:
                                        kind = "assert"
                disp = dispositions.get(key)
                detail_q = "%s (%s → %s)" % (q, fr, to)
                if disp and disp[0] == "bounded":
                    out.exempt(key, f, line, "bounded: " + disp[1])
                    continue
                if kind == "assert":
                    msg = "kind=assert: `%s` is cast after an `assert!` on the same length; the value cannot wrap, but the assertion is an input-reachable internal panic" % detail_q
                else:
                    extra = ""
                    if guard_fields is not None:
                        extra = " (a dominating assert! tests %s, not this quantity)" % sorted(guard_fields - {"self"})
                    msg = "kind=truncate: `%s` is cast without any bound check: values above %d wrap silently%s" % (detail_q, 2 ** INTW[to] - 1, extra)
                if disp and disp[0] == "witness":
                    out.violation(key, f, line, msg, witness=disp[1])
                else:
                    out.advisory(key, f, line, msg + " — unresolved: neither a failing input nor a bound argument is recorded for this site")
    out.analysed = {"narrowing_casts": n_sites}
    out.floor("narrowing_casts", n_sites, min_sites)
    return out
