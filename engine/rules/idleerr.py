"""IDLEERR — only executing code may build a run-time error from the VM's call frames.

Vm::runtime_error / Vm::backtrace turn the current frames into source locations by indexing the span table of each
frame's chunk at `ip - 1`.  That is meaningful (and in bounds) only while an instruction is being executed.  Between
inputs the <main> frame is still there: in a session whose main chunk is empty (fresh or `reset`, no prelude) the index
is out of bounds — the process panics on `save /unwritable/path` — and otherwise the error is pinned on whatever
instruction ran last (a prelude constant, the previous input).  So: who may call them?  Exactly the functions of the vm
module that are reachable from Vm::run_without_cleanup (closures folded into their function)."""
from callgraph import CallGraph
from core import RuleOut


def rule_idleerr(crate):
    out = RuleOut("IDLEERR", "run-time errors are built from the VM's frames only by code that runs inside Vm::run_without_cleanup")
    g = CallGraph(crate)
    roots = g.find("vm::Vm::run_without_cleanup")
    targets = []
    for t in ("vm::Vm::runtime_error", "vm::Vm::backtrace"):
        targets += [x for x in g.find(t) if x.endswith(t)]
    if not roots or len(targets) < 2:
        out.error("anchor missing: Vm::run_without_cleanup / Vm::runtime_error / Vm::backtrace")
        return out
    reach, stack = set(), list(roots)
    while stack:
        x = stack.pop()
        if x in reach:
            continue
        reach.add(x)
        stack.extend(g.edges.get(x, ()))
    n = 0
    for t in sorted(targets):
        short_t = t.split("::")[-1]
        for caller in sorted(g.rev.get(t, ())):
            if caller in targets:  # runtime_error -> backtrace
                continue
            n += 1
            b = crate.hir.get(caller)
            f, l = (crate.file_of(b), (g.sites.get((caller, t)) or [b["line"]])[0]) if b else ("numbat/src", 1)
            key = "%s<-%s" % (short_t, caller.replace("crate::", ""))
            if caller in reach and caller.startswith("crate::vm::"):
                out.ok(key, f, l, "called while executing (reachable from Vm::run_without_cleanup)")
            else:
                users = sorted(x.replace("crate::", "") for x in g.rev.get(caller, ()))[:6]
                out.violation(key, f, l, "Vm::%s is called from %s, which does not run inside Vm::run_without_cleanup%s: the frames it reads belong to the previous input — with an empty main chunk (`numbat --no-prelude`, first input `save /nonexistent/x`) the span index is out of bounds and the process panics, otherwise the diagnostic blames the instruction that happened to run last" % (short_t, caller.replace("crate::", ""), (" (used by " + ", ".join(users) + ")") if users else ""))
    out.analysed = {"call_sites": n, "executing_functions": len([x for x in reach if x.startswith("crate::vm::")])}
    out.floor("call_sites", n, 1)
    return out
