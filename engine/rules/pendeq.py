"""PENDEQ — the second half of a split `>=` token is a virtual NEXT token.

`let v: List<Scalar>= [1]`: the tokenizer delivers `>=`; Parser::match_closing_angle_bracket consumes the `>` and sets
`pending_equals`.  From then on the next token of the stream IS `=`.  Parser::match_exact is the one place where tokens
are matched, so its decision table over
      P = pending_equals.is_some()    E = (token_kind == Equal)    K = (peek().kind == token_kind)
must be
      P ∧ E   -> Some, pending cleared, no advance          P ∧ ¬E  -> None, no advance (whatever K is)
      ¬P ∧ K  -> Some, advance                              ¬P ∧ ¬K -> None, no advance
Otherwise a pending `=` survives other tokens and satisfies a missing `=` later — `fn f<T>=(x: T) x`,
`struct S<T>= {a: T}` + `let y 5` are accepted.  The table is computed by abstract interpretation of match_exact's HIR
(conditions with side effects such as `.take().is_some()` included).  Second clause: a statement that fails must not
leave the flag set for the next one (cleared in recover_from_error or in the loop of Parser::parse)."""
import itertools

from core import RuleOut
from hirlib import callee, local_of, peel, peel_refs, place_path, walk


class Unknown(Exception):
    pass


class Ret(Exception):
    def __init__(self, v):
        self.v = v


def _is_pending(e):
    e = peel_refs(e)
    return e.get("k") == "Field" and e.get("name") == "pending_equals"


class ME:
    def __init__(self, fn, P, E, K):
        self.P, self.E, self.K = P, E, K
        self.advanced = False
        ps = [p for p in fn["params"] if p.get("k") == "Binding"]
        self.kind_id = ps[-1]["id"]
        self.peeks = set()  # locals bound to self.peek(..)
        self.lets = {}

    def classify(self, e):
        e = peel(e)
        k = e.get("k")
        if k == "Path" and e["res"].get("variant") == "None":
            return "None"
        if k == "Call" and peel(e["f"]).get("res", {}).get("variant") == "Some":
            return "Some"
        if k == "MethodCall" and e["name"] == "last":
            return "Some"
        if k == "If" and e.get("else") is not None:
            return self.classify_branch(e)
        if k == "Block":
            self.block(e)
            if e.get("tail") is not None:
                return self.classify(e["tail"])
        if k == "Path" and e["res"].get("r") == "local" and e["res"]["id"] in self.lets:
            return self.classify(self.lets[e["res"]["id"]])
        if k == "MethodCall" and e["name"] in ("then", "then_some", "filter"):
            raise Unknown("combinator " + e["name"])
        raise Unknown("result expression " + str(k))

    def classify_branch(self, e):
        if self.cond(e["cond"]):
            return self.classify(e["then"])
        return self.classify(e["else"])

    def is_kind_param(self, e):
        return local_of(peel_refs(e)) == self.kind_id

    def is_equal_variant(self, e):
        e = peel_refs(e)
        return e.get("k") == "Path" and e["res"].get("variant") == "Equal"

    def is_peek_kind(self, e):
        e = peel_refs(e)
        if e.get("k") == "Field" and e.get("name") == "kind":
            b = peel_refs(e["e"])
            if b.get("k") == "MethodCall" and b["name"] == "peek":
                return True
            if local_of(b) in self.peeks:
                return True
        return False

    def cond(self, e):
        e = peel_refs(e)
        k = e.get("k")
        if k == "Unary" and e.get("op") == "Not":
            return not self.cond(e["e"])
        if k == "Binary" and e["op"] == "&&":
            return self.cond(e["l"]) and self.cond(e["r"])
        if k == "Binary" and e["op"] == "||":
            return self.cond(e["l"]) or self.cond(e["r"])
        if k == "Binary" and e["op"] in ("==", "!="):
            l, r = e["l"], e["r"]
            v = None
            if (self.is_kind_param(l) and self.is_equal_variant(r)) or (self.is_kind_param(r) and self.is_equal_variant(l)):
                v = self.E
            elif (self.is_peek_kind(l) and self.is_kind_param(r)) or (self.is_peek_kind(r) and self.is_kind_param(l)):
                v = self.K
            if v is None:
                raise Unknown("comparison")
            return v if e["op"] == "==" else not v
        if k == "MethodCall" and e["name"] in ("is_some", "is_none") and not e["args"]:
            r = peel_refs(e["recv"])
            if _is_pending(r):
                v = self.P
            elif r.get("k") == "MethodCall" and r["name"] == "take" and _is_pending(r["recv"]):
                v = self.P
                self.P = False
            else:
                raise Unknown("option test")
            return v if e["name"] == "is_some" else not v
        if k == "Let":  # `if let Some(..) = self.pending_equals[.take()]`
            init = peel_refs(e["init"])
            some = any(p.get("variant") == "Some" for p in walk(e["pat"]))
            none = any(p.get("variant") == "None" for p in walk(e["pat"]))
            if init.get("k") == "MethodCall" and init["name"] == "take" and _is_pending(init["recv"]):
                v = self.P
                self.P = False
            elif _is_pending(init):
                v = self.P
            else:
                raise Unknown("if-let")
            if some:
                return v
            if none:
                return not v
            raise Unknown("if-let pattern")
        if k == "Match" and len(e.get("arms", [])) == 2:  # matches!(…)
            raise Unknown("match condition")
        if k == "Lit" and e["lit"].get("lk") == "bool":
            return e["lit"]["v"] in (True, "true")
        raise Unknown("condition " + str(k))

    def stmt_expr(self, x):
        x = peel(x)
        k = x.get("k")
        if k == "Ret":
            raise Ret(self.classify(x["e"]) if x.get("e") is not None else "None")
        if k == "If":
            if self.cond(x["cond"]):
                self.run(x["then"])
            elif x.get("else") is not None:
                self.run(x["else"])
            return
        if k == "Assign" and _is_pending(x["l"]):
            r = peel(x["r"])
            if r.get("k") == "Path" and r["res"].get("variant") == "None":
                self.P = False
            else:
                self.P = True
            return
        if k == "MethodCall" and x["name"] == "advance":
            self.advanced = True
            return
        if k == "MethodCall" and x["name"] == "take" and _is_pending(x["recv"]):
            self.P = False
            return
        if k == "Block":
            self.run(x)
            return
        raise Unknown("statement " + str(k))

    def block(self, b):
        for st in b.get("stmts", []) or []:
            if st.get("k") == "Let":
                if st.get("init") is not None and st["pat"].get("k") == "Binding":
                    init = peel_refs(st["init"])
                    if init.get("k") == "MethodCall" and init["name"] == "peek":
                        self.peeks.add(st["pat"]["id"])
                    self.lets[st["pat"]["id"]] = st["init"]
                continue
            if st.get("k") in ("Semi", "Expr"):
                self.stmt_expr(st["e"])

    def run(self, b):
        """a block in statement position (its value is not the function's result)"""
        b = peel(b) if b.get("k") != "Block" else b
        if b.get("k") != "Block":
            self.stmt_expr(b)
            return
        self.block(b)
        if b.get("tail") is not None:
            self.stmt_expr(b["tail"])

    def function(self, body):
        try:
            self.block(body)
            if body.get("tail") is None:
                raise Unknown("no tail")
            return self.classify(body["tail"])
        except Ret as r:
            return r.v


def rule_pendeq(crate):
    out = RuleOut("PENDEQ", "a pending `=` from a split `>=` is the next token: nothing else matches before it, and it does not outlive a failed statement")
    fn = crate.find_fn("parser::Parser::match_exact")
    f = crate.file_of(fn)
    setters = [d for d, b in crate.hir.items() if d.startswith("crate::parser::Parser::") and any(x.get("k") == "Assign" and _is_pending(x["l"]) and "Some" in str(peel(x["r"]).get("f", {}).get("res", {}).get("variant", "")) for x in walk(b["body"]))]
    if not setters:
        out.error("anchor missing: no Parser method sets pending_equals = Some(..)")
        return out
    want = {(True, True): ("Some", False, False), (True, False): ("None", None, False), (False, True): None, (False, False): None}
    n = 0
    for P, E in sorted(want, reverse=True):
        for K in (True, False):
            n += 1
            key = "match_exact:%s:%s:%s" % ("pending" if P else "idle", "want=" if E else "want-other", "next-matches" if K else "next-differs")
            m = ME(fn, P, E, K)
            try:
                res = m.function(fn["body"])
            except Unknown as u:
                out.error("anchor missing: Parser::match_exact cannot be evaluated (%s)" % u)
                return out
            if P and E:
                good = res == "Some" and not m.advanced and not m.P
                exp = "Some, flag cleared, no advance"
            elif P:
                good = res == "None" and not m.advanced
                exp = "None, no advance"
            elif K:
                good = res == "Some" and m.advanced
                exp = "Some, advance"
            else:
                good = res == "None" and not m.advanced
                exp = "None, no advance"
            got = "%s, %s, flag %s" % (res, "advance" if m.advanced else "no advance", "set" if m.P else "clear")
            if good:
                out.ok(key, f, fn["line"], "%s (%s)" % (exp, got))
            else:
                out.violation(key, f, fn["line"], "match_exact with a pending `=` = %s, asked for %s, next real token %s: expected %s, the code does: %s.  A pending `=` that survives other tokens satisfies a missing `=` later (`fn f<T>=(x: T) x`; `struct S<T>= {a: T}` then `let y 5` are accepted)" % (P, "`=`" if E else "another token", "matches" if K else "differs", exp, got))
    # clause 2
    cleared = []
    for nm in ("parser::Parser::recover_from_error", "parser::Parser::parse"):
        b = crate.find_fn(nm)
        for x in walk(b["body"]):
            if (x.get("k") == "Assign" and _is_pending(x["l"]) and peel(x["r"]).get("res", {}).get("variant") == "None") or (x.get("k") == "MethodCall" and x["name"] == "take" and _is_pending(x["recv"])):
                cleared.append(nm.split("::")[-1])
    pf = crate.find_fn("parser::Parser::parse")
    n += 1
    if cleared:
        out.ok("parse:error-recovery-clears-pending", f, pf["line"], "pending_equals is cleared in %s" % ", ".join(sorted(set(cleared))))
    else:
        out.violation("parse:error-recovery-clears-pending", f, pf["line"], "pending_equals is never cleared when a statement fails (neither in recover_from_error nor in the loop of Parser::parse): the `=` of `fn f<T>=(x)` is still pending when the next, valid statement is parsed")
    out.analysed = {"table_rows": n - 1, "setters": len(setters)}
    out.floor("table_rows", n - 1, 8)
    return out
