"""Abstract evaluation of typed_ast::with_parens(expr): for every variant of typed_ast::Expression, can the operand be
printed WITHOUT parentheses?  Whatever the shape of the function — a match with guarded arms, a boolean computed first
and an if/else, early returns — its body is evaluated for each variant and each truth assignment of the tests that are
not decided by the variant alone (calls of predicates such as is_printed_in_sugar_form, comparisons of names)."""
from hirlib import callee, local_of, pat_variants, peel, peel_refs, walk

TYPED_E = "crate::typed_ast::Expression"


class Unknown(Exception):
    pass


def _flatten_add(e):
    e = peel(e)
    if e.get("k") == "Binary" and e.get("op") in ("+", "Add"):
        return _flatten_add(e["l"]) + _flatten_add(e["r"])
    return [e]


def is_paren_wrapper(crate, path):
    """a crate-local helper `fn parenthesized(inner) = "(" + inner + ")"`: its single parameter is printed between a
    literal "(" and a literal ")" """
    fn = crate.hir.get(path or "")
    if fn is None:
        return False
    ps = [p for p in fn["params"] if p.get("k") == "Binding"]
    if len(ps) != 1:
        return False
    pid = ps[0]["id"]
    chain = _flatten_add(fn["body"])

    def mentions(n):
        return any(x.get("k") == "Path" and x["res"].get("r") == "local" and x["res"].get("id") == pid for x in walk(n))

    def lit(n, ch):
        return (not mentions(n)) and any(y.get("k") == "Lit" and isinstance(y.get("lit"), dict) and y["lit"].get("v") == ch for y in walk(n))

    idx = [i for i, c in enumerate(chain) if mentions(c)]
    return len(idx) == 1 and 0 < idx[0] < len(chain) - 1 and lit(chain[idx[0] - 1], "(") and lit(chain[idx[0] + 1], ")")


class WPEval:
    def __init__(self, crate, fn, adt=TYPED_E, body=None, pid=None, depth=0):
        self.crate = crate
        self.fn = fn
        self.adt = adt
        self.depth = depth
        if pid is None:
            ps = [p for p in fn["params"] if p.get("k") == "Binding"]
            pid = ps[0]["id"] if ps else None
        self.pid = pid
        self.body = body if body is not None else fn["body"]
        self.atoms = {}  # name -> node
        self.alias = set()  # bindings of the whole operand (`expr @ (A | B) => …`, `e => …`)

    # ---- helpers
    def _is_param(self, e):
        e = peel_refs(e)
        while e.get("k") == "MethodCall" and e["name"] in ("as_ref", "deref", "borrow", "as_deref") and not e["args"]:
            e = peel_refs(e["recv"])
        return local_of(e) == self.pid or (local_of(e) is not None and local_of(e) in self.alias)

    def _mentions_param(self, e):
        return any(x.get("k") == "Path" and x["res"].get("r") == "local" and (x["res"].get("id") == self.pid or x["res"].get("id") in self.alias) for x in walk(e))

    def _atom(self, node, env):
        c = callee(node) if node.get("k") in ("Call", "MethodCall") else None
        if node.get("k") == "Call" and c and len(node.get("args", [])) == 1 and self._is_param(node["args"][0]):
            name = "%s(operand)" % c  # a predicate of the operand: the same atom wherever it is asked
        else:
            name = "%s@%s" % ((c or node.get("name") or node.get("k")), node["s"][0])
        self.atoms[name] = node
        if name not in env["atoms"]:
            raise Unknown(name)
        return env["atoms"][name]

    def _arm_hit(self, a, env):
        p = a["pat"]
        while p.get("k") in ("Ref", "Deref"):
            p = p["pat"]
        if p.get("k") == "Binding":
            self.alias.add(p["id"])
        vs = pat_variants(a["pat"], self.adt)
        base, _, sub = str(env["V"]).partition(":")
        if vs is not None and base not in vs:
            return False
        if sub and vs is not None:
            ops = self._sub_ops(a["pat"], base)
            if ops is not None and sub not in ops:
                return False
        return "guard" not in a or self.cond(a["guard"], env)

    def _sub_ops(self, pat, base):
        """for a kind written `BinaryOperator:Add`: the operators an arm pattern restricts variant `base` to (None =
        unrestricted)"""
        found = None
        for p in walk(pat):
            if p.get("k") in ("Struct", "TupleStruct") and p.get("variant") == base and (p.get("adt") or "") == self.adt:
                ops = {q.get("variant") for q in walk(p) if q is not p and q.get("variant") and str(q.get("adt") or "").endswith("BinaryOperator")}
                if not ops:
                    return None
                found = (found or set()) | ops
        return found

    # ---- booleans
    def cond(self, e, env):
        e = peel_refs(e)
        k = e.get("k")
        if k == "Unary" and e.get("op") == "Not":
            return not self.cond(e["e"], env)
        if k == "Binary" and e.get("op") == "&&":
            return self.cond(e["l"], env) and self.cond(e["r"], env)
        if k == "Binary" and e.get("op") == "||":
            return self.cond(e["l"], env) or self.cond(e["r"], env)
        if k == "Lit" and isinstance(e.get("lit"), dict) and e["lit"].get("lk") == "bool":
            return e["lit"]["v"] in (True, "true")
        if k == "Path" and e["res"].get("r") == "local" and e["res"]["id"] in env["lets"]:
            return self.cond(env["lets"][e["res"]["id"]], env)
        if k == "Match" and self._is_param(e["scrut"]):
            for a in e["arms"]:
                if self._arm_hit(a, env):
                    return self.cond(a["body"], env)
            raise Unknown("no arm")
        if k == "If" and e.get("else") is not None:
            return self.cond(e["then"], env) if self.cond(e["cond"], env) else self.cond(e["else"], env)
        if k == "Block":
            env = self._stmts(e, env)
            if isinstance(env, tuple):
                raise Unknown("return inside a condition")
            if e.get("tail") is not None:
                return self.cond(e["tail"], env)
        return self._atom(e, env)

    # ---- the printed form
    def _stmts(self, blk, env):
        """process the statements of a block; returns the environment, or (result, node) when a statement returns"""
        for st in blk.get("stmts", []) or []:
            if st.get("k") == "Let" and st.get("init") is not None and st["pat"].get("k") == "Binding":
                env = dict(env)
                env["lets"] = dict(env["lets"])
                env["lets"][st["pat"]["id"]] = st["init"]
                continue
            inner = st.get("e") if st.get("k") in ("Semi", "Expr") else None
            if not isinstance(inner, dict):
                continue
            inner = peel(inner)
            if inner.get("k") == "Ret" and inner.get("e") is not None:
                return self.value(inner["e"], env)
            if inner.get("k") == "If" and any(x.get("k") == "Ret" for x in walk(inner)):
                if self.cond(inner["cond"], env):
                    return self.value(inner["then"], env)
                if inner.get("else") is not None:
                    return self.value(inner["else"], env)
        return env

    def value(self, e, env):
        e = peel(e)
        k = e.get("k")
        if k == "Block":
            r = self._stmts(e, env)
            if isinstance(r, tuple):
                return r
            if e.get("tail") is None:
                raise Unknown("block without value")
            return self.value(e["tail"], r)
        if k == "If" and e.get("else") is not None:
            return self.value(e["then"], env) if self.cond(e["cond"], env) else self.value(e["else"], env)
        if k == "Match" and self._is_param(e["scrut"]):
            for a in e["arms"]:
                if self._arm_hit(a, env):
                    return self.value(a["body"], env)
            raise Unknown("no arm")
        if k == "Ret" and e.get("e") is not None:
            return self.value(e["e"], env)
        if k == "Path" and e["res"].get("r") == "local" and e["res"]["id"] in env["lets"]:
            return self.value(env["lets"][e["res"]["id"]], env)
        if k in ("If", "Match"):
            raise Unknown(k)
        # a concatenation  a + b + c : find the summand that prints the operand and look at its neighbours
        chain = _flatten_add(e)
        for _ in range(3):  # `let base = …; base + m::operator("^") + …`
            chain = [env["lets"][c["res"]["id"]] if c.get("k") == "Path" and c["res"].get("r") == "local" and c["res"].get("id") in env["lets"] else c for c in chain]
            chain = [y for c in chain for y in _flatten_add(c)]
        idxs = [i for i, s_ in enumerate(chain) if self._mentions_param(s_)]
        if not idxs:
            raise Unknown("leaf that does not print the operand")
        i = idxs[0]
        s_ = peel(chain[i])

        def is_lit(n, ch):
            return (not self._mentions_param(n)) and any(y.get("k") == "Lit" and isinstance(y.get("lit"), dict) and y["lit"].get("v") == ch for y in walk(n))

        if 0 < i < len(chain) - 1 and is_lit(chain[i - 1], "(") and is_lit(chain[i + 1], ")"):
            return ("paren", e)
        if len(chain) > 1 and s_.get("k") in ("If", "Match", "Block"):
            return self.value(s_, env)
        if s_.get("k") == "Call" and len(s_.get("args", [])) == 1 and not self._is_param(s_["args"][0]) and self._mentions_param(s_["args"][0]):
            # a helper applied to the printed operand: `parenthesized(expr.pretty_print())`
            if is_paren_wrapper(self.crate, callee(s_)):
                return ("paren", e)
            if (callee(s_) or "") in self.crate.hir:
                raise Unknown("operand printed through the helper " + str(callee(s_)))
            return self.value(s_["args"][0], env)
        if s_.get("k") == "Call" and len(s_.get("args", [])) == 1 and self._is_param(s_["args"][0]):
            c = callee(s_) or ""
            sub = self.crate.hir.get(c)
            if sub is not None and self.depth < 3:
                inner = WPEval(self.crate, sub, self.adt, depth=self.depth + 1)
                inner.atoms = self.atoms  # shared: the caller enumerates them
                res, _node = inner.value(sub["body"], {"V": env["V"], "atoms": env["atoms"], "lets": {}})
                return (res, s_)
            raise Unknown("operand passed to " + c)
        if s_.get("k") == "MethodCall" and s_["name"] == "pretty_print" and self._is_param(s_["recv"]):
            return ("bare", e)
        if len(chain) == 1:
            # legacy shape: one expression that contains both the literal parentheses and the printing call
            paren = any(y.get("k") == "Lit" and isinstance(y.get("lit"), dict) and y["lit"].get("v") == "(" for y in walk(e))
            prints = any(y.get("k") == "MethodCall" and y["name"] == "pretty_print" and self._is_param(y["recv"]) for y in walk(e))
            if prints:
                return ("paren" if paren else "bare", e)
        raise Unknown("leaf that does not print the operand")


def evaluate(crate, fn, variants, adt=TYPED_E, body=None, pid=None):
    """-> ({variant: [(assignment, result, leaf node)]}, evaluator, reason)   (None, ev, reason) when undecidable"""
    ev = WPEval(crate, fn, adt, body, pid)
    table = {}
    for v in variants:
        rows = []
        pending = [{}]
        steps = 0
        while pending:
            steps += 1
            if steps > 512:
                return None, ev, "more than 512 cases for Expression::%s" % v
            atoms = pending.pop()
            env = {"V": v, "atoms": atoms, "lets": {}}
            try:
                res, node = ev.value(ev.body, env)
                rows.append((dict(atoms), res, node))
            except Unknown as u:
                name = str(u)
                if name not in ev.atoms or name in atoms:
                    return None, ev, "with_parens could not be evaluated for Expression::%s (%s)" % (v, name)
                for val in (True, False):
                    a2 = dict(atoms)
                    a2[name] = val
                    pending.append(a2)
        table[v] = rows
    return table, ev, None
