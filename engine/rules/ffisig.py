"""R16 FFISIG — the argument extractions of every native function agree in number and kind with its
body-less declaration in the Numbat standard library (so the `unsafe_as_*` panics are unreachable for
type-checked calls).  Cross-language join of Rust facts (engine/nbfacts) and Numbat facts (nbtlint)."""
from fractions import Fraction

from core import RuleOut
from errd import parent_map
from hirlib import callee, ctor_variant, peel, peel_refs, place_path, walk


def registry(crate):
    """{name: (rust fn def path, lo, hi, line)} from ffi::functions::functions()."""
    fn = crate.find_fn("ffi::functions::functions")
    out = {}
    for n in walk(fn["body"]):
        if n.get("k") == "MethodCall" and n["name"] == "insert" and len(n["args"]) == 2:
            key = peel_refs(n["args"][0])
            val = peel(n["args"][1])
            if key.get("k") != "Lit" or val.get("k") != "Struct" or not (val.get("adt") or "").endswith("ffi::ForeignFunction"):
                continue
            name = key["lit"]["v"]
            lo = hi = None
            target = None
            for fname, e in val["fields"]:
                if fname == "arity":
                    ints = [int(x["lit"]["v"]) for x in walk(e) if x.get("k") == "Lit" and x["lit"].get("lk") == "int"]
                    if len(ints) == 2:
                        lo, hi = ints
                elif fname == "callable":
                    for x in walk(e):
                        if x.get("k") == "Path" and x["res"].get("dk") == "Fn":
                            target = x["res"].get("path")
            out[name] = (target, lo, hi, n["s"][0])
    return out, fn


KIND_OF = {
    "unsafe_as_quantity": "quantity",
    "unsafe_as_string": "string",
    "unsafe_as_list": "list",
    "unsafe_as_datetime": "datetime",
    "unsafe_as_bool": "bool",
    "unsafe_as_function_reference": "fnref",
    "unsafe_as_struct_fields": "struct",
}


def extractions(crate, fn):
    """[(kind, line)] in evaluation order, or None if the body does not extract arguments by a plain
    sequence of `args.pop_front()` (loops, iterators: not classified)."""
    args_id = None
    ps = [p for p in fn["params"] if p.get("k") == "Binding"]
    for p in ps:
        if crate.ty(p).startswith("std::collections::VecDeque<crate::ffi::Arg>"):
            args_id = p["id"]
    if args_id is None:
        return [], True
    pm = parent_map(fn["body"])
    res = []
    plain = True
    for n in walk(fn["body"]):
        if n.get("k") == "Path" and n["res"].get("r") == "local" and n["res"]["id"] == args_id:
            # how is `args` used here?
            p = pm.get(id(n))
            while p is not None and p.get("k") in ("AddrOf", "DropTemps", "Use"):
                n2 = p
                p = pm.get(id(p))
            if p is not None and p.get("k") == "MethodCall" and p["name"] == "pop_front":
                # climb: unwrap -> .value -> unsafe_as_X -> (as_scalar -> unwrap)
                cur = p
                kind = "any"
                in_loop = False
                q = pm.get(id(cur))
                hops = 0
                while q is not None and hops < 8:
                    if q.get("k") == "MethodCall" and q.get("recv") is cur:
                        nm = q["name"]
                        if nm in KIND_OF:
                            kind = KIND_OF[nm]
                        elif nm == "as_scalar" and kind == "quantity":
                            kind = "scalar"
                        elif nm in ("unwrap", "expect", "to_f64", "clone"):
                            pass
                        else:
                            break
                    elif q.get("k") == "Field" and q["name"] == "value":
                        pass
                    elif q.get("k") in ("DropTemps", "Use", "AddrOf"):
                        pass
                    else:
                        break
                    cur = q
                    q = pm.get(id(cur))
                    hops += 1
                # inside a loop / closure?
                a = pm.get(id(p))
                while a is not None:
                    if a.get("k") in ("Loop", "Closure"):
                        in_loop = True
                    a = pm.get(id(a))
                if in_loop:
                    plain = False
                res.append((kind, p["s"][0]))
            elif p is not None and p.get("k") == "MethodCall" and p["name"] in ("len", "is_empty"):
                pass
            else:
                plain = False
    return res, plain


class Dims:
    """Base representation of dimension names from the `dimension` statements (tiny evaluator)."""

    def __init__(self, lib):
        self.defs = {}
        for m in lib.modules.values():
            for st_toks in _dimension_statements(m):
                name, exprs = st_toks
                self.defs[name] = exprs
        self.memo = {}

    def base(self, name, depth=0):
        if name in self.memo:
            return self.memo[name]
        if name not in self.defs or depth > 30:
            return None
        exprs = self.defs[name]
        if not exprs:
            r = {name: Fraction(1)}
        else:
            r = self.eval(exprs[0], depth + 1)
        self.memo[name] = r
        return r

    def eval(self, toks, depth=0):
        try:
            v, i = self._prod(toks, 0, depth)
            return v if i == len(toks) else None
        except (IndexError, ValueError, TypeError):
            return None

    def _prod(self, t, i, depth):
        v, i = self._pow(t, i, depth)
        while i < len(t) and t[i].text in ("*", "/", "×", "·", "⋅", "÷"):
            op = t[i].text
            w, i = self._pow(t, i + 1, depth)
            if v is None or w is None:
                return None, i
            sign = 1 if op in ("*", "×", "·", "⋅") else -1
            v = dict(v)
            for k, e in w.items():
                v[k] = v.get(k, 0) + sign * e
        return v, i

    def _pow(self, t, i, depth):
        v, i = self._prim(t, i, depth)
        if i < len(t) and t[i].text in ("^", "**"):
            i += 1
            neg = False
            if t[i].text in ("-", "−"):
                neg = True
                i += 1
            if t[i].kind == "(":
                j = i
                while t[j].kind != ")":
                    j += 1
                inner = [x.text for x in t[i + 1 : j]]
                e = Fraction("".join(inner).replace("−", "-"))
                i = j + 1
            else:
                e = Fraction(t[i].text)
                i += 1
            if neg:
                e = -e
            v = {k: x * e for k, x in v.items()} if v is not None else None
        elif i < len(t) and t[i].kind == "uexp":
            s = t[i].text
            e = Fraction("¹²³⁴⁵⁶⁷⁸⁹".index(s[-1]) + 1)
            if s.startswith("⁻"):
                e = -e
            v = {k: x * e for k, x in v.items()} if v is not None else None
            i += 1
        return v, i

    def _prim(self, t, i, depth):
        x = t[i]
        if x.kind == "(":
            v, j = self._prod(t, i + 1, depth)
            return v, j + 1
        if x.kind == "num" and x.text == "1":
            return {}, i + 1
        if x.kind == "ident":
            return self.base(x.text, depth), i + 1
        raise ValueError


def _dimension_statements(m):
    from nbtlint.front import split_statements

    out = []
    for st in split_statements(m.toks):
        if st and st[0].kind == "kw" and st[0].text == "dimension":
            name = st[1].text
            exprs = []
            cur = []
            for t in st[2:]:
                if t.text == "=" and t.kind == "op":
                    if cur:
                        exprs.append(cur)
                    cur = []
                else:
                    cur.append(t)
            if cur:
                exprs.append(cur)
            out.append((name, exprs))
    return out


def nbt_param_kind(ptype, d, dims):
    """kind required of the value passed for a parameter typed `ptype` (token list)."""
    if not ptype:
        return "any"
    head = ptype[0].text
    if head == "String":
        return "string"
    if head == "List":
        return "list"
    if head == "DateTime":
        return "datetime"
    if head == "Bool":
        return "bool"
    if head == "Fn":
        return "fnref"
    if len(ptype) == 1 and head in d.type_params:
        # generic parameter: `D: Dim` means a quantity, an unbounded one can be any value
        return "quantity" if head in d.dim_bounded else "any"
    base = dims.eval(ptype)
    if base is None:
        # mentions a type parameter or an unknown name inside a dimension expression: a quantity
        return "quantity"
    base = {k: v for k, v in base.items() if v != 0}
    return "scalar" if not base else "quantity"


COMPATIBLE = {
    # rust extraction kind -> acceptable declared kinds
    "any": {"any", "string", "list", "datetime", "bool", "fnref", "quantity", "scalar", "struct"},
    "string": {"string"},
    "list": {"list"},
    "datetime": {"datetime"},
    "bool": {"bool"},
    "fnref": {"fnref"},
    "struct": {"struct"},
    "quantity": {"quantity", "scalar"},
    "scalar": {"scalar"},
}


def rule_ffisig(crate, lib, dispositions=None):
    out = RuleOut("FFISIG", "native functions extract their arguments with the kinds their Numbat declarations promise")
    reg, regfn = registry(crate)
    rf = crate.file_of(regfn)
    dims = Dims(lib)
    decls = {}
    for mn, m in lib.modules.items():
        # bounds of type parameters: `<D: Dim>`
        for d in m.defs:
            if d.kind == "fn" and d.foreign:
                decls[d.name] = (mn, m, d)
    n_checked = n_unclassified = 0
    import os

    for name in sorted(set(reg) | set(decls)):
        if name not in decls:
            target, lo, hi, line = reg[name]
            out.advisory("fn:%s:undeclared" % name, rf, line, "registered native function `%s` has no declaration in the standard library" % name)
            continue
        mn, m, d = decls[name]
        mf = os.path.join("numbat/modules", os.path.relpath(m.path, lib.root))
        if name not in reg:
            out.violation("fn:%s:unregistered" % name, mf, d.line, "`fn %s` is declared without a body but no native function of that name is registered (Vm::add_foreign_function unwraps the lookup)" % name)
            continue
        target, lo, hi, line = reg[name]
        key = "fn:%s" % name
        nparams = len(d.params)
        if lo is None or not (lo <= nparams <= hi):
            out.violation(key + ":arity", mf, d.line, "`fn %s` declares %d parameter(s) but the registry arity is %s..=%s (add_foreign_function asserts equality)" % (name, nparams, lo, hi))
            continue
        body = crate.hir.get(target) if target else None
        if body is None:
            out.error("native function body for `%s` (%s) not found in the facts" % (name, target))
            continue
        ex, plain = extractions(crate, body)
        bf = crate.file_of(body)
        if not plain:
            # the body hands `args` on to helper functions of the crate (dispatch): classify the helpers
            helper_bad = []
            helpers_ok = []
            args_ids = {p["id"] for p in body["params"] if p.get("k") == "Binding" and crate.ty(p).startswith("std::collections::VecDeque<crate::ffi::Arg>")}
            for c in walk(body["body"]):
                if c.get("k") != "Call":
                    continue
                hb = crate.hir.get(callee(c) or "")
                if hb is None or not any(x.get("k") == "Path" and x["res"].get("r") == "local" and x["res"].get("id") in args_ids for a in c.get("args", []) for x in walk(a)):
                    continue
                hex_, hplain = extractions(crate, hb)
                if hplain and hex_ and len(hex_) <= nparams:
                    helpers_ok.append(hb["name"])
                for i, (kind, xl) in enumerate(hex_):
                    if i < nparams:
                        pname, ptype = d.params[i]
                        want = nbt_param_kind(ptype, d, dims)
                        if want not in COMPATIBLE.get(kind, set()) or (want == "any" and kind != "any"):
                            helper_bad.append((hb, xl, "helper `%s` takes argument %d (`%s: %s`, declared as %s — an unbounded type parameter accepts every value) apart as %s" % (hb["name"], i + 1, pname, " ".join(t.text for t in ptype), want, kind)))
            if helper_bad:
                hb, xl, msg = helper_bad[0]
                disp = (dispositions or {}).get(key + ":dispatch")
                out.violation(key + ":dispatch", crate.file_of(hb), hb["line"], "native `%s` dispatches on the run-time value and %s: a value of another shape makes the positional `pop().unwrap()` / `unsafe_as_*` extractions panic%s" % (name, "; ".join(m_ for (_h, _l, m_) in helper_bad), (". Witness: " + disp) if disp else ""))
                n_checked += 1
                continue
            if helpers_ok:
                n_checked += 1
                out.ok(key, bf, body["line"], "arguments are extracted by the helper(s) %s in agreement with the declaration in %s" % (", ".join(sorted(set(helpers_ok))), mn))
                continue
            n_unclassified += 1
            out.advisory(key, bf, body["line"], "argument extraction is not a plain sequence (loop/closure/other use of `args`): not classified")
            continue
        n_checked += 1
        if len(ex) > nparams:
            out.violation(key, bf, body["line"], "the native body extracts %d arguments but `fn %s` declares only %d (pop_front().unwrap() would panic)" % (len(ex), name, nparams))
            continue
        bad = []
        for i, (kind, xl) in enumerate(ex):
            pname, ptype = d.params[i]
            want = nbt_param_kind(ptype, d, dims)
            if want not in COMPATIBLE.get(kind, set()):
                bad.append("argument %d (`%s: %s`) is declared as %s but extracted as %s (line %d)" % (i + 1, pname, " ".join(t.text for t in ptype), want, kind, xl))
        if bad:
            out.violation(key, bf, body["line"], "native `%s` vs `%s` line %d: %s" % (name, mf, d.line, "; ".join(bad)))
        else:
            out.ok(key, bf, body["line"], "%d extraction(s) %s agree with the declaration in %s" % (len(ex), [k for k, _ in ex], mn))
    out.analysed = {"registered": len(reg), "declared_foreign": len(decls), "checked": n_checked, "unclassified": n_unclassified}
    out.floor("registered", len(reg), 62)
    out.floor("declared_foreign", len(decls), 62)
    out.floor("checked", n_checked, 55)
    return out
