"""Structural rules written after the defect-hunting round: each names a design-level disagreement between two
components that the hunt demonstrated with concrete inputs.  They are registered with witnesses (known findings): none
of them has a small, safe repair.

LASTRES      the checker gives `ans` / `_` the type of the last result AT DEFINITION TIME of a function, the compiler
             emits a dynamic GetLastResult whatever the scope depth: a function body that mentions `ans` is typed once
             and evaluated with whatever value `ans` has later.
FNREF        direct calls are bound to a function index at compile time, function VALUES carry the name and are looked
             up when called: after a redefinition a stored function value calls the new function (of possibly another
             type); batched and incremental evaluation disagree.
UNITENV      a prefixed unit (`km`) is typed by looking up its base name (`m`) in the environment that also holds locals
             and parameters: `fn f(m: Scalar) -> Scalar = 3 km` is accepted.
POLYLIT      the checker makes the literals 0, inf and NaN dimension-polymorphic, the run-time conversion is
             unit-agnostic only for zero values.
FMTSPEC      the width/precision of a user format specifier reaches strfmt unchecked.
FOREIGNDECL  a bodiless (foreign) function declaration is trusted: the arity is asserted, the types are not compared.
BATCHSTATE   native functions that read the type checker (inspect, parse) see the state at the END of the input.
TYPENAMES    readable types join alternative dimension names with " or " and invent type-parameter names A, B, … without
             looking at the names in use; neither reads back.
STRUCTSUBST  type arguments of a generic struct are substituted one after the other (composing), so a type-parameter
             name of the struct can capture a type parameter of the enclosing function."""
from core import RuleOut
from hirlib import callee, ctor_variant, local_of, pat_variants, peel, peel_refs, place_path, strip_generics, walk


def _find_arm(crate, fn, enum_suffix, variant):
    for m in walk(fn["body"]):
        if m.get("k") == "Match" and str(m.get("src")) == "Normal":
            for a in m["arms"]:
                for p in walk(a["pat"]):
                    if p.get("variant") == variant and (p.get("adt") or "").endswith(enum_suffix):
                        return a
    return None


def rule_semrules(crate, dispositions):
    out = RuleOut("SEM", "components that have to agree on a piece of semantics do agree (design-level sibling rules)")
    n = 0

    def report(key, f, l, good, ok_msg, bad_msg):
        nonlocal n
        n += 1
        if good:
            out.ok(key, f, l, ok_msg)
        else:
            disp = dispositions.get(key)
            out.violation(key, f, l, bad_msg + ((" Witness: " + disp) if disp else ""))

    # ---- LASTRES
    ce = crate.find_fn("bytecode_interpreter::BytecodeInterpreter::compile_expression")
    f = crate.file_of(ce)
    sites = []
    for c in walk(ce["body"]):
        if c.get("k") == "MethodCall" and (callee(c) or "").endswith("vm::Vm::add_op") and c["args"]:
            a0 = peel(c["args"][0])
            if a0.get("k") == "Path" and a0["res"].get("variant") == "GetLastResult":
                sites.append(c)
    if not sites:
        out.error("anchor missing: emission of Op::GetLastResult in compile_expression")
    else:
        from errd import parent_map

        pm = parent_map(ce["body"])
        depth_guard = False
        cur = sites[0]
        while id(cur) in pm:
            p = pm[id(cur)]
            if p.get("k") == "If":
                for x in walk(p["cond"]):
                    if x.get("k") == "Binary" and str(x.get("op")) in ("==", "!=", "<", ">", "<=", ">=") and any(y.get("k") == "Path" and "depth" in str(y["res"].get("name", "")) for y in walk(x)):
                        depth_guard = True
            cur = p
        sf, sl = crate.loc(ce, sites[0])
        report("LASTRES:compile_expression:GetLastResult:any-depth", sf, sl, depth_guard,
               "GetLastResult is emitted at the top level only",
               "`ans` / `_` compile to a dynamic GetLastResult at any scope depth, while the type checker fixes their type when the enclosing function is defined: the body is evaluated later with a value of another type.")
    # ---- FNREF
    run = crate.find_fn("vm::Vm::run_without_cleanup")
    rf = crate.file_of(run)
    arm = _find_arm(crate, run, "vm::Op", "CallCallable")
    if arm is None:
        out.error("anchor missing: CallCallable arm of the VM")
    else:
        late = [c for c in walk(arm["body"]) if c.get("k") == "MethodCall" and (callee(c) or "").endswith("Vm::get_function_idx")]
        af, al = crate.loc(run, late[0]) if late else crate.loc(run, arm["pat"])
        report("FNREF:vm:CallCallable:late-binding", af, al, not late,
               "function values carry a resolved function index",
               "a function value carries the NAME of the function and CallCallable resolves it with get_function_idx at call time (direct calls are bound to an index at compile time): after `fn inc…; let saved = inc; fn inc…` the stored value calls the new definition.")
    # ---- UNITENV
    ee = crate.find_fn("typechecker::TypeChecker::elaborate_expression")
    ef = crate.file_of(ee)
    uarm = _find_arm(crate, ee, "ast::Expression", "UnitIdentifier")
    if uarm is None:
        out.error("anchor missing: UnitIdentifier arm of elaborate_expression")
    else:
        lookups = [c for c in walk(uarm["body"]) if c.get("k") == "MethodCall" and (callee(c) or "").endswith("TypeChecker::identifier_type")]
        uf, ul = crate.loc(ee, lookups[0]) if lookups else crate.loc(ee, uarm["pat"])
        report("UNITENV:elaborate_expression:UnitIdentifier:shadowable-lookup", uf, ul, not lookups,
               "the type of a unit is looked up among units only",
               "the type of a (prefixed) unit is looked up by its base name in the environment that also holds parameters and locals (identifier_type): a parameter or where-local named like the base unit determines the type of `km`, `cm`, ….")
    # ---- POLYLIT
    poly = set()
    for m in walk(ee["body"]):
        if m.get("k") == "Match" and str(m.get("src")) == "Normal":
            for a in m["arms"]:
                if not any(p.get("variant") == "Scalar" for p in walk(a["pat"])):
                    continue
                if "guard" in a and any(x.get("k") == "MethodCall" and x["name"] == "fresh_type_variable" for x in walk(a["body"])):
                    poly |= {x["name"] for x in walk(a["guard"]) if x.get("k") == "MethodCall" and x["name"].startswith("is_")}
                for i_ in walk(a["body"]):
                    if i_.get("k") == "If" and any(x.get("k") == "MethodCall" and x["name"] == "fresh_type_variable" for x in walk(i_["then"])):
                        poly |= {x["name"] for x in walk(i_["cond"]) if x.get("k") == "MethodCall" and x["name"].startswith("is_")}
    cv = crate.find_fn("quantity::Quantity::convert_to")
    agn = set()
    body = peel(cv["body"])
    first_if = None
    for x in walk(body):
        if x.get("k") == "If":
            first_if = x
            break
    if first_if is not None:
        agn = {x["name"] for x in walk(first_if["cond"]) if x.get("k") == "MethodCall" and x["name"].startswith("is_")}
    if not poly:
        out.error("anchor missing: polymorphic-literal arm of elaborate_expression")
    else:
        extra = sorted(poly - agn)
        report("POLYLIT:literals:checker-vs-conversion", ef, ee["line"], not extra,
               "every literal the checker treats as dimension-polymorphic (%s) converts to any unit at run time" % sorted(poly),
               "the checker makes literals with %s dimension-polymorphic, but Quantity::convert_to is unit-agnostic only for %s: an accepted program fails at run time with an incompatible-units error." % (sorted(poly), sorted(agn)))
    # ---- FMTSPEC
    jarm = _find_arm(crate, run, "vm::Op", "JoinString")
    if jarm is None:
        out.error("anchor missing: JoinString arm of the VM")
    else:
        fmt_calls = [c for c in walk(jarm["body"]) if c.get("k") in ("Call", "MethodCall") and "strfmt" in (callee(c) or "")]
        checks = [c for c in walk(jarm["body"]) if c.get("k") == "MethodCall" and c["name"] in ("parse", "checked_mul", "min", "clamp")]
        jf, jl = crate.loc(run, fmt_calls[0]) if fmt_calls else crate.loc(run, jarm["pat"])
        report("FMTSPEC:vm:JoinString:unbounded", jf, jl, (not fmt_calls) or bool(checks),
               "width and precision of a format specifier are validated before formatting",
               "the text of a user format specifier is handed to strfmt as it is: width and precision are unbounded.")
    # ---- FOREIGNDECL
    aff = crate.find_fn("vm::Vm::add_foreign_function")
    asserts = [c for c in walk(aff["body"]) if c.get("k") == "Call" and (callee(c) or "").endswith(("panicking::panic", "panic_fmt", "assert_failed"))]
    unwraps = [c for c in walk(aff["body"]) if c.get("k") == "MethodCall" and c["name"] in ("unwrap", "expect")]
    report("FOREIGNDECL:add_foreign_function:trusted", crate.file_of(aff), aff["line"], not (asserts or unwraps),
           "a foreign declaration is validated with an error, not an assertion",
           "a bodiless function declaration in user code is trusted: the arity is only assert!ed against the native function (panic) and parameter / return types are never compared with what the native function extracts.")
    # ---- BATCHSTATE
    users = []
    for d, b in crate.hir.items():
        if crate.file_of(b).endswith("numbat/src/ffi/functions.rs"):
            for x in walk(b["body"]):
                if x.get("k") == "Field" and x.get("name") == "typechecker":
                    users.append((b, x))
                    break
    if users:
        b0, x0 = users[0]
        report("BATCHSTATE:ffi:typechecker-at-end-of-input", *crate.loc(b0, x0), good=False, ok_msg="",
               bad_msg="native functions (%s) read the type checker handed to the VM, which is the checker AFTER the whole input was checked: a statement in the middle of an input sees definitions that come later in the same input, so batched and line-by-line evaluation differ." % ", ".join(sorted({u[0]["name"] for u in users})))
    else:
        report("BATCHSTATE:ffi:typechecker-at-end-of-input", "numbat/src/ffi/functions.rs", 1, True, "no native function reads the end-of-input type checker", "")
    # ---- TYPENAMES
    trt = [b for d, b in crate.hir.items() if d.endswith("::to_readable_type") and "DType" in (b.get("impl_self") or "")]
    if trt:
        b = trt[0]
        ors = [x for x in walk(b["body"]) if x.get("k") == "Lit" and isinstance(x.get("lit"), dict) and x["lit"].get("v") == " or "]
        report("TYPENAMES:to_readable_type:or", crate.file_of(b), ors[0]["s"][0] if ors else b["line"], not ors,
               "one name per dimension type",
               "a dimension with several registered names is rendered as `X or Y` (inferred signature `fn f(x: Energy or Torque)`), which is not a type expression.")
    ifp = crate.find_fn("type_scheme::TypeScheme::instantiate_for_printing", required=False)
    if ifp is not None:
        gen = [x for x in walk(ifp["body"]) if x.get("k") == "Lit" and isinstance(x.get("lit"), dict) and x["lit"].get("lk") == "byte" or (x.get("k") == "Lit" and isinstance(x.get("lit"), dict) and x["lit"].get("v") in (65, "65", "A"))]
        uses_ns = any(x.get("k") == "MethodCall" and x["name"] in ("has_identifier", "contains", "contains_key") for x in walk(ifp["body"]))
        report("TYPENAMES:instantiate_for_printing:fresh-names", crate.file_of(ifp), ifp["line"], uses_ns,
               "generated type-parameter names avoid the names in use",
               "type-parameter names A, B, … are generated without consulting the dimensions, structs and user type parameters already in use: the printed signature can name the wrong type and is rejected when fed back.")
    if ifp is not None:
        # the user's names are handed out POSITIONALLY (`tp.map(TypeVariable::new)`) to $gen_0, $gen_1, …, whose order
        # is the (sorted) order in which generalisation numbered the variables, not the declaration order
        positional = any(x.get("k") == "MethodCall" and x["name"] == "map" and any(y.get("k") == "Path" and str(y["res"].get("path", "")).endswith("TypeVariable::new") for y in walk(x)) for x in walk(ifp["body"]))
        ordered = any(x.get("k") == "MethodCall" and x["name"] in ("sort", "sort_by", "sort_by_key", "sorted", "position", "find") for x in walk(ifp["body"]))
        report("TYPENAMES:instantiate_for_printing:positional-names", crate.file_of(ifp), ifp["line"], not (positional and not ordered),
               "declared type-parameter names are matched with the variables they belong to",
               "the declared type-parameter names are assigned to the quantified variables by POSITION, but the variables are numbered in sorted order by generalisation: with `<T: Dim, D: Dim>` the names are swapped and the printed signature states a wrong type.")
    urt = crate.find_fn("typed_ast::Statement::update_readable_types", required=False)
    if urt is not None:
        darm = _find_arm(crate, urt, "typed_ast::Statement", "DefineVariable")
        if darm is not None:
            quant = False
            for c in walk(darm["body"]):
                if c.get("k") in ("Call", "MethodCall") and (callee(c) or "").endswith("create_readable_type") and c.get("args"):
                    last = peel(c["args"][-1])
                    if last.get("k") == "Lit" and last["lit"].get("lk") == "bool" and last["lit"]["v"] in (True, "true"):
                        quant = True
            uf, ul = crate.loc(urt, darm["pat"])
            report("TYPENAMES:let:forall-in-echo", uf, ul, not quant,
                   "the readable type of a variable is a type expression",
                   "the readable type of a `let` is rendered WITH quantifiers (`forall A. List<A>`), and the statement printer writes it as the annotation of the echoed definition; there is no such syntax.")
    # ---- DTSHAPE: the date-time special case of `+`/`-` is selected by comparing operand types BEFORE constraint solving
    barm_ = _find_arm(crate, ee, "ast::Expression", "BinaryOperator")
    if barm_ is not None:
        pre = []
        for x in walk(barm_["body"]):
            if x.get("k") == "Binary" and str(x.get("op")) in ("==", "!="):
                for side in (x["l"], x["r"]):
                    v = ctor_variant(peel_refs(side)) if peel_refs(side).get("k") in ("Path", "Call") else None
                    if v and v[0].endswith("typed_ast::Type") and v[1] == "DateTime":
                        pre.append(x)
        df, dl = crate.loc(ee, pre[0]) if pre else crate.loc(ee, barm_["pat"])
        report("DTSHAPE:elaborate_expression:datetime-branch-before-solving", df, dl, not pre,
               "date-time arithmetic is typed by constraints",
               "whether `+`/`-`/`==` take the date-time branch is decided by `operand_type == Type::DateTime` on the types as they are BEFORE constraint solving: an operand that is the result of a generic function is still a type variable there, so `t + abs(-1 h)`, `head([t]) + 1 h` or `t == t` are rejected although `let d = abs(-1 h)` / `t + d` is accepted.")
    # ---- STRUCTSUBST
    tfa = crate.find_fn("typechecker::TypeChecker::type_from_annotation")
    app = [c for c in walk(tfa["body"]) if c.get("k") == "MethodCall" and c["name"] == "append" and "Substitution" in crate.ty(peel_refs(c["recv"]))]
    report("STRUCTSUBST:type_from_annotation:sequential", *(crate.loc(tfa, app[0]) if app else (crate.file_of(tfa), tfa["line"])), good=not app,
           ok_msg="struct type arguments are substituted simultaneously",
           bad_msg="the type arguments of a generic struct are collected with Substitution::append, which composes the bindings one after the other: `struct P<A, B>` used as `P<B, Length>` inside `fn g<B>` turns A := B and then B := Length into A := Length (capture).")
    # ---- RESULTLAST: the value an input "results in" is recorded by every top-level Return and never reset, while the
    # front end pairs it with the LAST statement of the input
    assigns = []
    for x in walk(run["body"]):
        if x.get("k") == "Assign":
            p = place_path(x["l"])
            if p and p[1] == "result_last_statement":
                assigns.append(x)
    if not assigns:
        out.error("anchor missing: assignments to result_last_statement in Vm::run_without_cleanup")
    else:
        resets = [x for x in assigns if peel(x["r"]).get("k") == "Path" and peel(x["r"])["res"].get("variant") == "None"]
        rf_, rl_ = crate.loc(run, assigns[0])
        report("RESULTLAST:vm:result-of-an-earlier-statement", rf_, rl_, bool(resets),
               "the recorded result is reset by statements that produce none",
               "`result_last_statement` is set by every top-level Return and never cleared: the result of a multi-statement input is the value of the last EXPRESSION statement anywhere in it, although later statements (definitions, print) follow — the front end prints it after all other output and pairs it with the type of the input's last statement.")
    # ---- CMDWORDS: the REPL decides by the first word of a line whether it is a command, before and independently of
    # the session's names; the words are ordinary identifiers everywhere else
    fs = [b for d, b in crate.hir.items() if d.endswith("::from_str") and "CommandKind" in (b.get("impl_self") or "")]
    pp_new = crate.find_fn("prefix_parser::PrefixParser::new", required=False)
    if not fs or pp_new is None:
        out.error("anchor missing: <CommandKind as FromStr>::from_str / PrefixParser::new")
    else:
        words = set()
        for m_ in walk(fs[0]["body"]):
            if m_.get("k") == "Match":
                for a_ in m_["arms"]:
                    for p_ in walk(a_["pat"]):
                        if p_.get("k") == "Lit" and isinstance(p_.get("lit"), dict) and p_["lit"].get("lk") == "str":
                            words.add(p_["lit"]["v"])
        ident_words = sorted(w for w in words if w.isidentifier())
        reserved = {y["lit"]["v"] for y in walk(pp_new["body"]) if y.get("k") == "Lit" and isinstance(y.get("lit"), dict) and y["lit"].get("lk") == "str"}
        from prec import tokenizer_map

        kw = set(tokenizer_map(crate))
        free = [w for w in ident_words if w not in reserved and w not in kw]
        if len(ident_words) < 5:
            out.error("anchor missing: fewer than 5 command words found in CommandKind::from_str")
        report("CMDWORDS:command-words-are-free-identifiers", crate.file_of(fs[0]), fs[0]["line"], not free,
               "every command word is a reserved identifier or a keyword",
               "the command words %s are neither keywords nor reserved identifiers: `let reset = 5` is accepted, and in the REPL the line `reset` then wipes the session while the same lines in a file evaluate to 5 (`help * 3`, `list` behave likewise)." % ", ".join(free))
    # ---- SUGARNAME: the echo chooses the temperature sugar (`3 °C`, `x -> °C`) by the NAME of the callee alone; the
    # names are ordinary identifiers, so a user function (or parameter) of that name is echoed in a form that denotes
    # the standard library's function
    sug = [b for d, b in crate.hir.items() if d.endswith("typed_ast::is_printed_in_sugar_form") or "is_printed_in_sugar_form::" in d]
    pp_new2 = crate.find_fn("prefix_parser::PrefixParser::new", required=False)
    if not sug or pp_new2 is None:
        out.error("anchor missing: typed_ast::is_printed_in_sugar_form / PrefixParser::new")
    else:
        names = set()
        for b_ in sug:
            for y in walk(b_["body"]):
                if y.get("k") == "Lit" and isinstance(y.get("lit"), dict) and y["lit"].get("lk") == "str":
                    names.add(y["lit"]["v"])
        reserved2 = {y["lit"]["v"] for y in walk(pp_new2["body"]) if y.get("k") == "Lit" and isinstance(y.get("lit"), dict) and y["lit"].get("lk") == "str"}
        from prec import tokenizer_map as _tm

        free2 = sorted(n_ for n_ in names if n_.isidentifier() and n_ not in reserved2 and n_ not in set(_tm(crate)))
        if len(names) < 2:
            out.error("anchor missing: fewer than 2 sugar names found in is_printed_in_sugar_form")
        report("SUGARNAME:echo:sugar-chosen-by-free-name", crate.file_of(sug[0]), sug[0]["line"], not free2,
               "every name that selects the sugar form is reserved",
               "the echo prints a call in the temperature sugar form whenever the callee is CALLED %s — ordinary, user-definable identifiers: after `fn celsius(x) = x + 1`, `celsius(3)` (= 4) is echoed as `3 -> °C`, which denotes the standard library's conversion and is rejected (expected Temperature, got Scalar); a user-defined `from_celsius(3)` is echoed as `3 °C`." % ", ".join(free2))
    # ---- HARDNAME: a name the language does not reserve is looked up in a session table and the result unwrapped
    hard = []
    for nm in ("bytecode_interpreter::BytecodeInterpreter::compile_expression", "bytecode_interpreter::BytecodeInterpreter::compile_statement"):
        cf_ = crate.find_fn(nm)
        inits_ = {}
        for s_ in walk(cf_["body"]):
            if s_.get("k") == "Let" and s_.get("init") is not None and s_["pat"].get("k") == "Binding":
                inits_[s_["pat"]["id"]] = s_["init"]
        for x in walk(cf_["body"]):
            if x.get("k") == "MethodCall" and x["name"] in ("unwrap", "expect"):
                r = peel_refs(x["recv"])
                if r.get("k") == "Path" and r["res"].get("r") == "local" and r["res"]["id"] in inits_:
                    r = peel_refs(inits_[r["res"]["id"]])
                if r.get("k") == "MethodCall" and r["name"] in ("get", "get_index_of") and r.get("args"):
                    a0 = peel_refs(r["args"][0])
                    if a0.get("k") == "Lit" and isinstance(a0.get("lit"), dict) and a0["lit"].get("lk") == "str":
                        hard.append((cf_, x, a0["lit"]["v"]))
    if hard:
        hf, hl = crate.loc(hard[0][0], hard[0][1])
        report("HARDNAME:compile:hard-coded-unit-lookup-unwrapped", hf, hl, False, "",
               "the compiler looks up the hard-coded name `%s` in a session table and unwraps the result: the name is an ordinary, user-definable identifier that only the prelude provides." % hard[0][2])
    else:
        report("HARDNAME:compile:hard-coded-unit-lookup-unwrapped", crate.file_of(ce), ce["line"], True, "no hard-coded name is looked up and unwrapped in the compiler", "")
    # ---- BASEUNITS: a second base unit for a dimension that already has one is accepted
    es = crate.find_fn("typechecker::TypeChecker::elaborate_statement")
    barm = _find_arm(crate, es, "ast::Statement", "DefineBaseUnit")
    if barm is None:
        out.error("anchor missing: DefineBaseUnit arm of elaborate_statement")
    else:
        errs = set()
        for x in walk(barm["body"]):
            v = ctor_variant(x) if x.get("k") in ("Call", "Struct", "Path") else None
            if v and v[0].endswith("TypeCheckError"):
                errs.add(v[1])
        bf, bl = crate.loc(es, barm["pat"])
        existing_check = any(e_ for e_ in errs if "Base" in e_ and e_ != "NoDimensionlessBaseUnit")
        report("BASEUNITS:elaborate_statement:second-base-unit-accepted", bf, bl, existing_check,
               "a base unit for a dimension that already has one is rejected",
               "the only check on `unit x: D` is that D is not dimensionless (errors raised: %s): a second, unrelated base unit for an existing dimension is accepted, and two quantities of the same static type cannot be converted, added or compared at run time." % sorted(errs))
    # ---- ZEROCONV: the polymorphic zero is stored without unit; `+`, `-` and comparisons special-case it, `->` does not
    carm = _find_arm(crate, run, "vm::Op", "ConvertTo")
    if carm is None:
        out.error("anchor missing: ConvertTo arm of the VM")
    else:
        zero_aware = any(x.get("k") == "MethodCall" and x["name"] in ("is_zero", "comparison_unit") for x in walk(carm["body"]))
        zf, zl = crate.loc(run, carm["pat"])
        report("ZEROCONV:vm:ConvertTo:unit-less-zero-target", zf, zl, zero_aware,
               "the conversion handles a unit-less zero operand",
               "the literal 0 is dimension-polymorphic for the checker but is stored as a scalar; Add/Sub/comparisons special-case a zero operand, Op::ConvertTo does not: a value of static type Length that originates from `0` is not a valid conversion target.")
    out.analysed = {"sibling_rules": n}
    out.floor("sibling_rules", n, 8)
    return out
