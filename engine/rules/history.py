"""HISTORY — the session history records every evaluated input, and `save` writes every successful one:
`SessionHistory::push` appends unconditionally; in `save_inner` the only way an item is skipped is the
`result.is_err() && !include_err_lines` test, and every other item reaches the write."""
from core import RuleOut
from hirlib import callee, local_of, peel, peel_refs, place_path, walk
from optab import unconditional_calls


def rule_history(crate):
    out = RuleOut("HISTORY", "every evaluated input is recorded and every successful one is written by `save`")
    push = crate.find_fn("session_history::SessionHistory::push")
    f = crate.file_of(push)
    calls = []
    unconditional_calls(push["body"], lambda c: c.get("k") == "MethodCall" and c["name"] in ("push", "push_back", "insert", "extend"), calls, False)
    appends = [(c, cond) for (c, cond) in calls if (place_path(c["recv"]) or (0, 0, []))[1] == "self"]
    rets = [x for x in walk(push["body"]) if x.get("k") == "Ret"]
    others = [x for x in walk(push["body"]) if x.get("k") in ("Assign", "AssignOp") and (place_path(x["l"]) or (0, "", []))[1] == "self"]
    if len(appends) == 1 and not appends[0][1] and not rets and not others:
        out.ok("push:unconditional-append", f, push["line"], "one unconditional append, no early return, no overwrite of earlier entries")
    else:
        out.violation("push:unconditional-append", f, push["line"], "SessionHistory::push does not append every input unconditionally (conditional append, early return or overwrite): the saved history replays fewer steps than the session ran")
    # the appended item carries the input and the result parameters unchanged
    ids = {p["name"]: p["id"] for p in push["params"] if p.get("k") == "Binding"}
    ok_item = False
    for (c, _cond) in appends:
        a = peel(c["args"][0])
        if a.get("k") == "Struct":
            flds = {nm: e for nm, e in a["fields"]}
            if local_of(flds.get("input", {})) == ids.get("input") and local_of(flds.get("result", {})) == ids.get("result"):
                ok_item = True
    if ok_item:
        out.ok("push:item", f, push["line"], "the stored item is {input, result} as given")
    else:
        out.violation("push:item", f, push["line"], "the stored history item is not built from the `input` and `result` arguments unchanged")
    # save_inner
    sv = crate.find_fn("session_history::SessionHistory::save_inner")
    sf = crate.file_of(sv)
    loops = [x for x in walk(sv["body"]) if x.get("k") == "Loop"]
    good = False
    why = "no loop over the items found"
    for lp in loops:
        skips = []
        for n in walk(lp["body"]):
            if n.get("k") == "If" and any(x.get("k") == "Continue" for x in walk(n["then"])):
                skips.append(n)
        writes = []
        unconditional_calls(lp["body"], lambda c: c.get("k") in ("MethodCall", "Call") and ((callee(c) or "").endswith("io::Write::write_fmt") or (c.get("name") in ("write_fmt", "write_all"))), writes, False)
        if not writes:
            continue
        # (the for-loop desugaring puts the body under a match arm; treat that as unconditional)
        if len(skips) == 1:
            c = peel(skips[0]["cond"])
            names = {x["name"] for x in walk(c) if x.get("k") == "MethodCall"}
            reads_flag = any(x.get("k") == "Path" and x["res"].get("name") == "include_err_lines" for x in walk(c))
            conj = c.get("k") == "Binary" and c.get("op") == "&&"
            if "is_err" in names and reads_flag and conj:
                good = True
            else:
                why = "the skip condition is not `item.result.is_err() && !include_err_lines`"
        elif not skips:
            why = "no skip of failed lines at all"
        else:
            why = "more than one way to skip an item"
        breaks = [x for x in walk(lp["body"]) if x.get("k") == "Break" and not (len(x.get("s", [])) >= 3 and x["s"][2] == 1)]
        if breaks:
            good = False
            why = "the loop over the items can stop early"
    if good:
        out.ok("save_inner:writes-successful-lines", sf, sv["line"], "an item is skipped only if it failed and error lines are excluded; every other item is written")
    else:
        out.violation("save_inner:writes-successful-lines", sf, sv["line"], "save does not write exactly the successful lines: " + why)
    out.analysed = {"append_sites": len(appends), "loops": len(loops)}
    out.floor("append_sites", len(appends), 1)
    return out
