"""HISTORY — the session history records every evaluated input, and `save` writes every successful one:
`SessionHistory::push` appends unconditionally; in `save_inner` the only way an item is skipped is the
`result.is_err() && !include_err_lines` test, and every other item reaches the write."""
from core import RuleOut
from hirlib import callee, local_of, peel, peel_refs, place_path, walk
from optab import unconditional_calls


def rule_history(crate):
    out = RuleOut("HISTORY", "every evaluated input is recorded and every successful one is written by `save`")
    push = crate.find_fn("session_history::SessionHistory::push")
    f = crate.file_of(push)
    calls = []
    unconditional_calls(push["body"], lambda c: c.get("k") == "MethodCall" and c["name"] in ("push", "push_back", "insert", "extend"), calls, False)
    appends = [(c, cond) for (c, cond) in calls if (place_path(c["recv"]) or (0, 0, []))[1] == "self"]
    rets = [x for x in walk(push["body"]) if x.get("k") == "Ret"]
    others = [x for x in walk(push["body"]) if x.get("k") in ("Assign", "AssignOp") and (place_path(x["l"]) or (0, "", []))[1] == "self"]
    if len(appends) == 1 and not appends[0][1] and not rets and not others:
        out.ok("push:unconditional-append", f, push["line"], "one unconditional append, no early return, no overwrite of earlier entries")
    else:
        out.violation("push:unconditional-append", f, push["line"], "SessionHistory::push does not append every input unconditionally (conditional append, early return or overwrite): the saved history replays fewer steps than the session ran")
    # the appended item carries the input and the result parameters unchanged
    ids = {p["name"]: p["id"] for p in push["params"] if p.get("k") == "Binding"}
    ok_item = False
    for (c, _cond) in appends:
        a = peel(c["args"][0])
        if a.get("k") == "Struct":
            flds = {nm: e for nm, e in a["fields"]}
            if local_of(flds.get("input", {})) == ids.get("input") and local_of(flds.get("result", {})) == ids.get("result"):
                ok_item = True
    if ok_item:
        out.ok("push:item", f, push["line"], "the stored item is {input, result} as given")
    else:
        out.violation("push:item", f, push["line"], "the stored history item is not built from the `input` and `result` arguments unchanged")
    # save_inner: the condition under which an item is written, as a boolean function of
    #   E = item.result.is_err()   and   I = include_err_lines
    # collected from every idiom that can drop an item: `if C { continue }`, `if C { write }`, `.filter(|item| P)`;
    # it must be equivalent to  !E || I  (truth table), and nothing else may drop items (take/skip/break).
    sv = crate.find_fn("session_history::SessionHistory::save_inner")
    sf = crate.file_of(sv)
    flag_ids = set()
    for n in walk(sv["body"]):
        if n.get("k") == "Binding" and n.get("name") == "include_err_lines":
            flag_ids.add(n["id"])
    for p in sv["params"]:
        for n in walk(p):
            if n.get("k") == "Binding" and n.get("name") == "include_err_lines":
                flag_ids.add(n["id"])

    class Unknown(Exception):
        pass

    def ev(e, E, I):
        e = peel_refs(e)
        k = e.get("k")
        if k == "Unary" and e.get("op") == "Not":
            return not ev(e["e"], E, I)
        if k == "Binary" and e.get("op") == "&&":
            return ev(e["l"], E, I) and ev(e["r"], E, I)
        if k == "Binary" and e.get("op") == "||":
            return ev(e["l"], E, I) or ev(e["r"], E, I)
        if k == "MethodCall" and e["name"] in ("is_err", "is_ok") and not e["args"]:
            p = place_path(e["recv"])
            if p and p[2][-1:] == ["result"]:
                return E if e["name"] == "is_err" else (not E)
        if k == "Path" and e["res"].get("r") == "local" and e["res"]["id"] in flag_ids:
            return I
        if k == "Field" and e.get("name") == "include_err_lines":
            return I
        if k == "Lit" and isinstance(e.get("lit"), dict) and e["lit"].get("lk") == "bool":
            return bool(e["lit"]["v"])
        if k == "Block" and not e.get("stmts") and e.get("tail") is not None:
            return ev(e["tail"], E, I)
        raise Unknown()

    conds = []  # (expression, polarity: True = item is written when the expression is true)
    droppers = []
    writes_total = 0
    for n in walk(sv["body"]):
        k = n.get("k")
        if k == "MethodCall" and n["name"] == "filter" and n["args"]:
            cl = peel(n["args"][0])
            if cl.get("k") == "Closure":
                conds.append((cl["body"], True))
            else:
                droppers.append("filter with a non-closure predicate")
        elif k == "MethodCall" and n["name"] in ("take", "skip", "step_by", "take_while", "skip_while", "filter_map", "nth", "last", "rev_take"):
            droppers.append(n["name"])
        elif k == "If":
            then_cont = any(x.get("k") == "Continue" for x in walk(n["then"]))
            then_writes = any(x.get("k") in ("MethodCall", "Call") and ((callee(x) or "").endswith("io::Write::write_fmt") or x.get("name") in ("write_fmt", "write_all")) for x in walk(n["then"]))
            else_writes = n.get("else") is not None and any(x.get("k") in ("MethodCall", "Call") and ((callee(x) or "").endswith("io::Write::write_fmt") or x.get("name") in ("write_fmt", "write_all")) for x in walk(n["else"]))
            c = peel(n["cond"])
            if c.get("k") == "Let":
                continue
            if then_cont and not then_writes:
                conds.append((c, False))
            elif then_writes and not else_writes:
                conds.append((c, True))
            elif else_writes and not then_writes:
                conds.append((c, False))
        if k in ("MethodCall", "Call") and ((callee(n) or "").endswith("io::Write::write_fmt") or n.get("name") in ("write_fmt", "write_all")):
            writes_total += 1
    breaks = [x for x in walk(sv["body"]) if x.get("k") == "Break" and not (len(x.get("s", [])) >= 3 and x["s"][2] == 1)]
    loops = [x for x in walk(sv["body"]) if x.get("k") == "Loop"]
    key = "save_inner:writes-successful-lines"
    if not writes_total:
        out.error("anchor missing: save_inner contains no write")
    elif breaks or droppers:
        out.violation(key, sf, sv["line"], "save does not write exactly the successful lines: the loop over the items can stop early or drops items (%s)" % ", ".join(droppers or ["break"]))
    else:
        table = {}
        unknown = False
        for E in (False, True):
            for I in (False, True):
                try:
                    table[(E, I)] = all((ev(c, E, I) if pol else not ev(c, E, I)) for (c, pol) in conds)
                except Unknown:
                    unknown = True
        want = {(E, I): ((not E) or I) for E in (False, True) for I in (False, True)}
        if unknown:
            out.advisory(key, sf, sv["line"], "the write condition of save_inner contains a test other than result.is_err()/is_ok() and include_err_lines; not decided")
        elif table == want:
            out.ok(key, sf, sv["line"], "an item is written iff !result.is_err() || include_err_lines (truth table over %d condition(s)): failed lines are skipped only when error lines are excluded, successful lines are always written" % len(conds))
        else:
            bad = [k2 for k2 in want if table[k2] != want[k2]]
            out.violation(key, sf, sv["line"], "save does not write exactly the successful lines: with (is_err, include_err_lines) = %s the item is %s" % (bad[0], "written" if table[bad[0]] else "dropped"))
    # `reset` starts a new session: the command runner must also start a new history, otherwise `save` writes the inputs
    # of the discarded session as well and the file does not replay to the current session
    runner = crate.find_fn("command::CommandRunner::try_run_command", required=False)
    if runner is None:
        out.error("anchor missing: CommandRunner::try_run_command")
    else:
        rf = crate.file_of(runner)
        arm = None
        for m in walk(runner["body"]):
            if m.get("k") == "Match" and str(m.get("src")) == "Normal":
                for a in m["arms"]:
                    if any(p.get("variant") == "Reset" for p in walk(a["pat"])):
                        arm = a
        if arm is None:
            out.error("anchor missing: ParsedCommand::Reset arm of try_run_command")
        else:
            resets = [x for x in walk(arm["body"]) if x.get("k") in ("Assign",) and "SessionHistory" in crate.ty(x["l"])]
            clears = [x for x in walk(arm["body"]) if x.get("k") == "MethodCall" and x["name"] in ("clear", "reset", "truncate") and "session_history" in str((place_path(x["recv"]) or (0, "", []))[1:])]
            af, al = crate.loc(runner, arm["pat"])
            if resets or clears:
                out.ok("reset:new-history", af, al, "`reset` replaces / clears the session history")
            else:
                out.violation("reset:new-history", af, al, "`reset` discards the session but keeps its history: `unit foo; reset; unit foo; save f.nbt` writes both definitions and `numbat f.nbt` fails — the saved file does not replay to the session")
    out.analysed = {"append_sites": len(appends), "loops": len(loops)}
    out.floor("append_sites", len(appends), 1)
    return out
