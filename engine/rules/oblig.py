"""R11 OBLIG — constraint coverage of the type checker, and NODROP.

For every construct listed in the property the checker must emit the equality / kind constraint between
the right sub-terms (soundness side: everything the VM can fail on), and it must NOT demand equality
between the operands of `*`, `/`, `^` (completeness side)."""
from core import RuleOut
from hirlib import callee, ctor_variant, local_of, pat_variants, peel, peel_refs, strip_generics, walk
from sym import let_inits

AST_E = "crate::ast::Expression"
AST_S = "crate::ast::Statement"
BINOP = "crate::ast::BinaryOperator"
UNOP = "crate::ast::UnaryOperator"
PK = "crate::ast::ProcedureKind"


def pattern_bindings(pat):
    """{field name: binding id} of a struct-like pattern; positional fields as '0','1',.."""
    out = {}
    p = pat
    while p.get("k") in ("Ref",):
        p = p["pat"]
    if p.get("k") == "Struct":
        for name, sp in p["fields"]:
            for b in walk(sp):
                if b.get("k") == "Binding":
                    out[name] = b["id"]
                    out["=" + b["name"]] = b["id"]
    elif p.get("k") == "TupleStruct":
        for i, sp in enumerate(p["pats"]):
            for b in walk(sp):
                if b.get("k") == "Binding":
                    out[str(i)] = b["id"]
                    out["=" + b["name"]] = b["id"]
    return out


def tags_of(expr, inits, tagmap, depth=0, seen=None):
    """Set of tags an expression derives from: sub-term tags (via bindings) and the constants Bool / Scalar."""
    out = set()
    seen = seen if seen is not None else set()
    for n in walk(expr):
        k = n.get("k")
        if k == "Path":
            r = n["res"]
            if r.get("r") == "local":
                i = r["id"]
                if i in tagmap:
                    out.add(tagmap[i])
                elif i in inits and depth < 10 and i not in seen:
                    seen.add(i)
                    out |= tags_of(inits[i], inits, tagmap, depth + 1, seen)
            elif r.get("variant") == "Boolean" and (r.get("adt") or "").endswith("typed_ast::Type"):
                out.add("Bool")
        elif k == "Call":
            c = callee(n) or ""
            if c.endswith("typed_ast::Type::scalar"):
                out.add("Scalar")
    return out


class Calls:
    def __init__(self, crate, fn, body, tagmap):
        self.inits = let_inits(fn)
        self.items = []  # (kind, [tagset, ...], node)
        for n in walk(body):
            k = n.get("k")
            if k == "MethodCall":
                c = callee(n) or ""
                nm = n["name"]
                if nm in ("add_equal_constraint",) and len(n["args"]) == 2:
                    self.items.append(("equal", [tags_of(a, self.inits, tagmap) for a in n["args"]], n))
                elif nm in ("enforce_dtype", "add_dtype_constraint") and n["args"]:
                    self.items.append(("dtype", [tags_of(n["args"][0], self.inits, tagmap)], n))
                elif nm == "add" and c.endswith("ConstraintSet::add") and n["args"]:
                    cv = ctor_variant(n["args"][0])
                    if cv and cv[1] == "Equal":
                        inner = peel(n["args"][0])
                        self.items.append(("equal", [tags_of(a, self.inits, tagmap) for a in inner["args"]], n))
                    elif cv and cv[1] == "IsDType":
                        inner = peel(n["args"][0])
                        self.items.append(("dtype", [tags_of(a, self.inits, tagmap) for a in inner["args"]], n))
            elif k == "Call":
                f = peel(n["f"])
                c = callee(n) or ""
                if c.endswith("const_evaluation::evaluate_const_expr"):
                    self.items.append(("const", [tags_of(n["args"][0], self.inits, tagmap)], n))
                elif f.get("k") == "Path" and f["res"].get("r") == "local":
                    self.items.append(("closure", [f["res"]["id"]], n))

    def has_equal(self, a, b):
        for kind, args, _n in self.items:
            if kind == "equal" and len(args) == 2:
                x, y = args
                if (a <= x and b <= y and not (b & x) and not (a & y)) or (a <= y and b <= x and not (b & y) and not (a & x)):
                    return True
        return False

    def any_equal_between(self, a, b):
        for kind, args, n in self.items:
            if kind == "equal" and len(args) == 2:
                x, y = args
                if (a & x and b & y and not (b & x) and not (a & y)) or (a & y and b & x and not (b & y) and not (a & x)):
                    return n
        return None

    def has_dtype(self, a):
        return any(kind == "dtype" and a <= args[0] for kind, args, _n in self.items)

    def has_const(self, a):
        return any(kind == "const" and a <= args[0] for kind, args, _n in self.items)

    def closure_called(self, cid):
        return any(kind == "closure" and args[0] == cid for kind, args, _n in self.items)


def main_match(crate, fn, enum):
    for n in walk(fn["body"]):
        if n.get("k") == "Match" and str(n.get("src")) == "Normal" and strip_generics(crate.ty(peel_refs(n["scrut"]))) == enum:
            return n
    return None


def arms_for(m, enum, variant):
    return [a for a in m["arms"] if (pat_variants(a["pat"], enum) or set()) == {variant} or variant in (pat_variants(a["pat"], enum) or set())]


def inner_match(crate, body, enum):
    """The dispatching `match` over `enum` inside body: among the candidates with >= 3 explicit variants, the
    one whose arms contain the most calls (string tables such as `op => "addition"` are not dispatchers)."""
    best = None
    best_calls = -1
    for n in walk(body):
        if n.get("k") == "Match" and str(n.get("src")) == "Normal" and strip_generics(crate.ty(peel_refs(n["scrut"]))) == enum:
            explicit = set()
            for a in n["arms"]:
                explicit |= pat_variants(a["pat"], enum) or set()
            if len(explicit) >= 3:
                ncalls = sum(1 for a in n["arms"] for x in walk(a["body"]) if x.get("k") in ("Call", "MethodCall"))
                if ncalls > best_calls:
                    best, best_calls = n, ncalls
    return best



def _if_paths(e, acc=None):
    """every path through the if / else-if chains of a statement list: ([(cond, polarity)], leaf or None); a missing
    `else` is a path of its own (the value falls through)"""
    acc = acc or []
    e = peel(e)
    if e.get("k") == "Block":
        ifs = [st for st in e.get("stmts", []) if peel(st.get("e") or st).get("k") == "If"] if e.get("stmts") else []
        tail = e.get("tail")
        cands = [peel(st.get("e") or st) for st in ifs] + ([peel(tail)] if tail is not None and peel(tail).get("k") in ("If", "Block") else [])
        if not cands:
            yield acc, e
            return
        for c_ in cands:
            yield from _if_paths(c_, acc)
        return
    if e.get("k") == "If":
        yield from _if_paths(e["then"], acc + [(e["cond"], True)])
        if e.get("else") is not None:
            yield from _if_paths(e["else"], acc + [(e["cond"], False)])
        else:
            yield acc + [(e["cond"], False)], None
        return
    yield acc, e


def _full_type_comparison(crate, cond, inits=None, neg=False, depth=0):
    """`a != b` / `a == b` / a.ne(&b) over two values of the checker's Type, possibly bound to a boolean local
    (`let same_type = lhs_type == rhs_type; … if !same_type`): returns 'ne' / 'eq' / None (what holds when cond is true)"""
    inits = inits or {}

    def flip(k):
        return {"ne": "eq", "eq": "ne"}[k] if neg else k

    def is_type(e_):
        return strip_generics(crate.ty(peel_refs(e_)).replace("&", "").strip()).endswith("typed_ast::Type")

    x = peel(cond)
    k = x.get("k")
    if k == "Unary" and str(x.get("op")) in ("Not", "!"):
        return _full_type_comparison(crate, x["e"], inits, not neg, depth)
    if k == "Binary" and str(x.get("op")) in ("Ne", "Eq", "!=", "=="):
        if is_type(x["l"]) and is_type(x["r"]):
            return flip("ne" if str(x.get("op")) in ("Ne", "!=") else "eq")
        return None
    if k == "MethodCall" and x["name"] in ("ne", "eq") and (callee(x) or "").endswith(("PartialEq>::ne", "PartialEq>::eq")):
        return flip(x["name"]) if is_type(x["recv"]) else None
    if k == "Path" and x.get("res", {}).get("r") == "local" and x["res"].get("id") in inits and depth < 4:
        return _full_type_comparison(crate, inits[x["res"]["id"]], inits, neg, depth + 1)
    if k == "Binary" and str(x.get("op")) in ("&&", "||", "And", "Or"):
        return _full_type_comparison(crate, x["l"], inits, neg, depth) or _full_type_comparison(crate, x["r"], inits, neg, depth)
    if k in ("Block", "DropTemps", "Use") :
        inner = x.get("tail") or x.get("e")
        return _full_type_comparison(crate, inner, inits, neg, depth) if inner is not None else None
    return None


def _branch_tails(body):
    """(value expression, enclosing branch block) for every branch of an if / else-if chain (or a plain block) that is
    the value of `body`"""
    b = peel(body)
    res = []

    def rec(e, scope):
        e = peel(e)
        if e.get("k") == "Block":
            if e.get("tail") is not None:
                rec(e["tail"], e)
            return
        if e.get("k") == "If" and e.get("else") is not None:
            rec(e["then"], e["then"])
            rec(e["else"], e["else"])
            return
        if e.get("k") == "Match" and str(e.get("src")) == "Normal":
            for a in e["arms"]:
                rec(a["body"], a["body"])
            return
        res.append((e, scope))

    rec(b, b)
    return res


def _path_conditions(body, target):
    """[(condition, polarity)] of the `if`s on the way from `body` down to the node `target`"""
    res = []

    def rec(e, acc):
        if e is target:
            res.extend(acc)
            return True
        if isinstance(e, dict):
            if e.get("k") == "If":
                if rec(e["cond"], acc):
                    return True
                if rec(e["then"], acc + [(e["cond"], True)]):
                    return True
                if e.get("else") is not None and rec(e["else"], acc + [(e["cond"], False)]):
                    return True
                return False
            for v_ in e.values():
                if isinstance(v_, (dict, list)) and rec(v_, acc):
                    return True
        elif isinstance(e, list):
            for x in e:
                if rec(x, acc):
                    return True
        return False

    rec(body, [])
    return res


def rule_oblig(crate, select=None, min_rows=30):
    out = RuleOut("OBLIG", "the type checker emits a constraint for exactly the relations the run-time operations rely on")
    fe = crate.find_fn("typechecker::TypeChecker::elaborate_expression")
    f = crate.file_of(fe)
    mm = main_match(crate, fe, AST_E)
    if mm is None:
        out.error("anchor missing: match over ast::Expression in elaborate_expression")
        return out
    n_rows = 0

    def row(key, ok, node, why_ok, why_bad):
        nonlocal n_rows
        n_rows += 1
        ff, ll = crate.loc(fe, node) if node is not None else (f, fe["line"])
        if ok:
            out.ok(key, ff, ll, why_ok)
        else:
            out.violation(key, ff, ll, why_bad)

    # ---------------- binary operators
    barms = arms_for(mm, AST_E, "BinaryOperator")
    if len(barms) != 1:
        out.error("anchor missing: BinaryOperator arm of elaborate_expression")
        return out
    barm = barms[0]
    pb = pattern_bindings(barm["pat"])
    tagmap = {pb.get("lhs"): "lhs", pb.get("rhs"): "rhs"}
    inits = let_inits(fe)
    # the shared closure `get_type_and_assert_equal_dtypes`
    closure_id = None
    closure_node = None
    for n in walk(barm["body"]):
        if n.get("k") == "Let" and "src" in n and n.get("init") is not None and peel(n["init"]).get("k") == "Closure" and n["pat"].get("k") == "Binding":
            cl = peel(n["init"])
            cc = Calls(crate, fe, cl["body"], tagmap)
            if cc.has_equal({"lhs"}, {"rhs"}):
                closure_id = n["pat"]["id"]
                closure_node = cl
    om = inner_match(crate, barm["body"], "crate::typed_ast::BinaryOperator") or inner_match(crate, barm["body"], BINOP)
    if om is None:
        out.error("anchor missing: `match op` over BinaryOperator inside the BinaryOperator arm")
        return out
    OPADT = strip_generics(crate.ty(peel_refs(om["scrut"])))
    need_equal = ["Add", "Sub", "ConvertTo", "LessThan", "GreaterThan", "LessOrEqual", "GreaterOrEqual", "Equal", "NotEqual"]
    no_equal = ["Mul", "Div", "Power"]
    seen_ops = set()
    for a in om["arms"]:
        vs = pat_variants(a["pat"], OPADT)
        if vs is None:
            row("binop:catch-all", False, a["pat"], "", "the operator dispatch of the type checker has a catch-all arm: operators falling into it get no constraint")
            continue
        c = Calls(crate, fe, a["body"], tagmap)
        eq = c.has_equal({"lhs"}, {"rhs"}) or (closure_id is not None and c.closure_called(closure_id))
        for v in sorted(vs):
            seen_ops.add(v)
            if v in need_equal:
                row("binop:%s:lhs~rhs" % v, eq, a["pat"], "operands are constrained to the same type (lhs ~ rhs)", "`%s` does not constrain its operands to have the same type; the VM operation fails with IncompatibleUnits at run time" % v)
            elif v in no_equal:
                bad = c.any_equal_between({"lhs"}, {"rhs"}) or (closure_id is not None and c.closure_called(closure_id))
                row("binop:%s:no-lhs~rhs" % v, not bad, a["pat"], "no equality is demanded between the operands", "`%s` demands equal operand types: dimensionally consistent programs such as `2 m * 3 s` would be rejected" % v)
                if v in ("Mul", "Div"):
                    row("binop:%s:dtype" % v, c.has_dtype({"lhs"}) and c.has_dtype({"rhs"}), a["pat"], "both operands are constrained to be dimension types", "an operand of `%s` is not constrained to be a dimension type" % v)
                    # the RESULT type on every branch of the arm: computed from both operand types (closed path), or a
                    # fresh variable tied to both by an EqualScalar constraint in the same branch (open path) — never
                    # just one operand's type (`k / x` has the type 1/x, not the type of x)
                    bad_branch = None
                    n_br = 0
                    for (tail, scope) in _branch_tails(a["body"]):
                        n_br += 1
                        tg = tags_of(tail, c.inits, tagmap) & {"lhs", "rhs"}
                        if tg == {"lhs", "rhs"}:
                            continue
                        if not tg and any((ctor_variant(y) or ("", ""))[1] == "EqualScalar" for y in walk(scope) if y.get("k") in ("Call", "Struct")):
                            continue
                        # scaling by a plain number: `x * k`, `x / k` keep the type of x, and so does `k * x` — but not
                        # `k / x`.  Accepted only with direct evidence on the path: the OTHER operand tested is_scalar()
                        # positively, and for a result that is the RIGHT operand's type, the operator tested to be Mul
                        if len(tg) == 1:
                            pcs = _path_conditions(a["body"], tail)
                            other = "rhs" if tg == {"lhs"} else "lhs"
                            other_scalar = any(pol and x.get("k") == "MethodCall" and x["name"] == "is_scalar" and other in tags_of(x["recv"], c.inits, tagmap) and not ({"lhs", "rhs"} - {other}) & tags_of(x["recv"], c.inits, tagmap) for (cnd, pol) in pcs for x in [peel(cnd)])
                            is_mul = vs == {"Mul"} or any(pol and any(p_.get("variant") == "Mul" for p_ in walk(cnd)) for (cnd, pol) in pcs)
                            if other_scalar and (tg == {"lhs"} or (is_mul and v == "Mul")):
                                continue
                        bad_branch = (tail, tg)
                    if n_br == 0:
                        out.error("anchor missing: result type branches of the %s arm" % v)
                    row("binop:%s:result-type" % v, bad_branch is None, bad_branch[0] if bad_branch else a["pat"],
                        "on each of the %d branches the result type is computed from both operand types or tied to them by an EqualScalar constraint" % n_br,
                        "a branch of the `%s` arm yields the type of %s as the type of the result without relating it to the other operand: `fn inv(x) = 1 / x` gets the type (A) -> A, `inv(2 s) + 1 s` is accepted and fails at run time" % (v, ("the %s operand alone" % "/".join(sorted(bad_branch[1]))) if bad_branch and bad_branch[1] else "neither operand"))
                if v == "Power":
                    row("binop:Power:exponent", c.has_dtype({"rhs"}) and (c.has_const({"rhs"}) and c.has_equal({"rhs"}, {"Scalar"})), a["pat"],
                        "exponent is a dimension type; scalar base: exponent ~ Scalar; otherwise the exponent must be a compile-time constant (evaluate_const_expr)",
                        "the exponent of `^` is neither constrained to Scalar (scalar base) nor evaluated as a constant (dimensionful base)")
            elif v in ("LogicalAnd", "LogicalOr"):
                row("binop:%s:bool" % v, c.has_equal({"lhs"}, {"Bool"}) and c.has_equal({"rhs"}, {"Bool"}), a["pat"], "both operands ~ Bool", "an operand of `%s` is not constrained to Bool (pop_bool panics otherwise)" % v)
    # per path: in the arm of == / != EVERY path through the if-chain relates the two operand types — by a constraint /
    # the dtype assertion, by rejecting, or because a FULL comparison of the two types (`lhs_type != rhs_type`) has
    # failed on the way.  A shallow test (same outermost constructor) lets `[1 m] == [1 s]` through unchecked.
    for a in om["arms"]:
        vs = pat_variants(a["pat"], OPADT) or set()
        if not vs or not vs <= {"Equal", "NotEqual"}:
            continue
        n_paths = 0
        bad = None
        over = None
        # enforce_dtype matters for CLOSED operand types only because it records the type parameters of a closed
        # dimension type as "used as a dimension" (the missing-`Dim`-bound check)
        ed = crate.hir.get("crate::typechecker::TypeChecker::enforce_dtype")
        records_tpar = ed is not None and any((ctor_variant(y) or ("", ""))[1] == "TPar" for y in walk(ed["body"]) if y.get("k") in ("Call", "Struct", "Path"))
        demands_dtype = records_tpar and closure_node is not None and any(y.get("k") == "MethodCall" and y["name"] in ("enforce_dtype", "add_dtype_constraint") for y in walk(closure_node["body"]))
        for conds, leaf in _if_paths(a["body"]):
            n_paths += 1
            if leaf is not None and demands_dtype and closure_id is not None and Calls(crate, fe, leaf, tagmap).closure_called(closure_id):
                differ = False
                for cnd, pol in conds:
                    fc = _full_type_comparison(crate, cnd, inits)
                    if (fc == "ne" and pol is True) or (fc == "eq" and pol is False):
                        differ = True
                if not differ:
                    over = leaf
            if leaf is not None:
                lc = Calls(crate, fe, leaf, tagmap)
                if lc.has_equal({"lhs"}, {"rhs"}) or (closure_id is not None and lc.closure_called(closure_id)):
                    continue
                if any(y.get("k") == "Ret" for y in walk(leaf)):
                    continue
            ok_ = False
            for cnd, pol in conds:
                fc = _full_type_comparison(crate, cnd, inits)
                if (fc == "ne" and pol is False) or (fc == "eq" and pol is True):
                    ok_ = True
            if not ok_:
                bad = (conds, leaf)
        for v in sorted(vs):
            if n_paths < 2:
                continue
            if demands_dtype:
                row("binop:%s:dtype-demand-only-on-different-types" % v, over is None, a["pat"], "the dimension-type demand (enforce_dtype) is reached only after a full comparison found the operand types different",
                    "`%s` is defined for values of every type, but a path of its arm runs the shared helper that DEMANDS dimension types (enforce_dtype) for operands whose types are already identical: `fn eq<A>(x: A, y: A) -> Bool = x == y` — the signature the checker itself infers for `fn eq(x, y) = x == y` — is rejected with 'Missing dimension bound for type parameter'" % v)
            row("binop:%s:every-path-relates-operands" % v, bad is None, a["pat"], "each of the %d paths of the arm constrains the operand types, rejects, or has passed a full comparison of the two types" % n_paths,
                "a path through the `%s` arm accepts the comparison although the operand types were neither constrained to be equal nor compared completely (only a shallow test such as `has_incompatible_constructor` guards it): `[1 m, 2 m] == [1 s, 2 s]` and `Pair<Length> == Pair<Time>` are accepted" % v)
    adt = crate.adts.get(OPADT)
    if adt:
        for v in adt["variants"]:
            if v["name"] not in seen_ops:
                row("binop:%s:unhandled" % v["name"], False, om, "", "operator %s has no arm in the type checker's operator dispatch" % v["name"])
    # ---------------- unary operators
    uarms = arms_for(mm, AST_E, "UnaryOperator")
    if uarms:
        ua = uarms[0]
        pbu = pattern_bindings(ua["pat"])
        tm = {pbu.get("expr"): "x"}
        um = None
        for n in walk(ua["body"]):
            if n.get("k") == "Match" and str(n.get("src")) == "Normal" and strip_generics(crate.ty(peel_refs(n["scrut"]))).endswith("UnaryOperator"):
                um = n
        if um is None:
            out.error("anchor missing: `match op` over UnaryOperator")
        else:
            UA = strip_generics(crate.ty(peel_refs(um["scrut"])))
            for a in um["arms"]:
                vs = pat_variants(a["pat"], UA) or set()
                c = Calls(crate, fe, a["body"], tm)
                for v in vs:
                    if v == "Factorial":
                        row("unop:Factorial:x~Scalar", c.has_equal({"x"}, {"Scalar"}), a["pat"], "operand ~ Scalar", "the factorial operand is not constrained to Scalar (the VM `expect`s a scalar)")
                    elif v == "Negate":
                        row("unop:Negate:dtype", c.has_dtype({"x"}), a["pat"], "operand is a dimension type", "the operand of unary minus is not constrained to be a dimension type")
                    elif v == "LogicalNeg":
                        row("unop:LogicalNeg:x~Bool", c.has_equal({"x"}, {"Bool"}), a["pat"], "operand ~ Bool", "the operand of `!` is not constrained to Bool")
    # ---------------- conditions
    carms = arms_for(mm, AST_E, "Condition")
    if carms:
        ca = carms[0]
        pbc = pattern_bindings(ca["pat"])
        tm = {pbc.get("condition"): "cond", pbc.get("then_expr"): "then", pbc.get("else_expr"): "else"}
        c = Calls(crate, fe, ca["body"], tm)
        row("if:cond~Bool", c.has_equal({"cond"}, {"Bool"}), ca["pat"], "condition ~ Bool", "the condition of if/then/else is not constrained to Bool")
        row("if:then~else", c.has_equal({"then"}, {"else"}), ca["pat"], "then ~ else", "the branches of a conditional are not constrained to the same type")
    # ---------------- lists
    larms = arms_for(mm, AST_E, "List")
    if larms:
        la = larms[0]
        pbl = pattern_bindings(la["pat"])
        tm = {pbl.get("1"): "elems"}
        c = Calls(crate, fe, la["body"], tm)
        eqs = [it for it in c.items if it[0] == "equal" and all("elems" in t for t in it[1])]
        in_loop = False
        for n in walk(la["body"]):
            if n.get("k") == "Loop":
                for it in eqs:
                    if any(x is it[2] for x in walk(n["body"])):
                        in_loop = True
        row("list:elements", bool(eqs) and in_loop, la["pat"], "every further element ~ element type (in a loop over the elements)", "list elements are not constrained to a common type for every element")
    # ---------------- calls
    farms = arms_for(mm, AST_E, "FunctionCall")
    if farms:
        fa = farms[0]
        pbf = pattern_bindings(fa["pat"])
        tm = {pbf.get("args"): "args", pbf.get("callable"): "callable"}
        c = Calls(crate, fe, fa["body"], tm)
        row("call:callable~Fn", any(it[0] == "equal" and any("callable" in t for t in it[1]) for it in c.items), fa["pat"], "callable ~ Fn[(params) -> ret]", "a call through a function value does not constrain the callee to a function type")
        row("call:callable-args", any(it[0] == "equal" and any("args" in t for t in it[1]) and not any("callable" in t for t in it[1]) for it in c.items), fa["pat"], "argument types ~ parameter types", "arguments of a call through a function value are not constrained to the parameter types")
        delegates = any(x.get("k") == "Call" and (callee(x) or "").endswith("typechecker::proper_function_call") for x in walk(fa["body"]))
        pf = crate.find_fn("typechecker::proper_function_call", required=False)
        ok_pf = False
        if pf is not None and delegates:
            ids = {}
            for p in pf["params"]:
                for b in walk(p):
                    if b.get("k") == "Binding":
                        ids[b["name"]] = b["id"]
            tmp = {}
            for nm in ("signature", "arguments", "argument_types"):
                if nm in ids:
                    tmp[ids[nm]] = "sig" if nm == "signature" else "args"
            cp = Calls(crate, pf, pf["body"], tmp)
            cp.inits = let_inits(pf)
            cp2 = Calls(crate, pf, pf["body"], tmp)
            ok_pf = any(it[0] == "equal" and any("args" in t for t in it[1]) and any("sig" in t for t in it[1]) for it in cp2.items)
        row("call:proper:param~arg", ok_pf, fa["pat"], "proper_function_call: parameter type ~ argument type for every argument", "a direct function call does not constrain argument types to the declared parameter types")
    # ---------------- annotations (let / unit): _elaborate_inner
    ei = crate.find_fn("typechecker::TypeChecker::_elaborate_inner")
    ids = {}
    for n in walk(ei["body"]):
        if n.get("k") == "Let" and n.get("pat") is not None:
            for b in walk(n["pat"]):
                if b.get("k") == "Binding":
                    ids.setdefault(b["name"], b["id"])
    tm = {}
    if "type_deduced" in ids:
        tm[ids["type_deduced"]] = "deduced"
    if "type_annotated" in ids:
        tm[ids["type_annotated"]] = "annotated"
    c = Calls(crate, ei, ei["body"], tm)
    ne = [n for n in walk(ei["body"]) if n.get("k") == "Binary" and n.get("op") == "!="]
    n_rows += 1
    if c.has_equal({"deduced"}, {"annotated"}) and ne:
        out.ok("annotation:deduced~annotated", crate.file_of(ei), ei["line"], "closed dimension types are compared directly, everything else gets deduced ~ annotated")
    else:
        out.violation("annotation:deduced~annotated", crate.file_of(ei), ei["line"], "a type annotation is not constrained to equal the deduced type")
    # ---------------- statements: return type, assert, assert_eq
    fs = crate.find_fn("typechecker::TypeChecker::elaborate_statement")
    sm = main_match(crate, fs, AST_S)
    if sm is None:
        out.error("anchor missing: match over ast::Statement in elaborate_statement")
        return out
    darms = arms_for(sm, AST_S, "DefineFunction")
    if darms:
        da = darms[0]
        ids = {}
        for n in walk(da["body"]):
            if n.get("k") == "Let" and n.get("pat") is not None:
                for b in walk(n["pat"]):
                    if b.get("k") == "Binding":
                        ids.setdefault(b["name"], b["id"])
        tm = {}
        if "return_type_inferred" in ids:
            tm[ids["return_type_inferred"]] = "inferred"
        if "return_type" in ids:
            tm[ids["return_type"]] = "declared"
        c = Calls(crate, fs, da["body"], tm)
        n_rows += 1
        ff, ll = crate.loc(fs, da["pat"])
        if c.has_equal({"inferred"}, {"declared"}):
            out.ok("fn:body~return", ff, ll, "type of the body ~ declared/fresh return type")
        else:
            out.violation("fn:body~return", ff, ll, "the type of a function body is not constrained to the annotated return type")
    for a in sm["arms"]:
        vs = pat_variants(a["pat"], AST_S) or set()
        if "ProcedureCall" not in vs:
            continue
        pm_ = None
        for n in walk(a["body"]):
            if n.get("k") == "Match" and str(n.get("src")) == "Normal" and strip_generics(crate.ty(peel_refs(n["scrut"]))) == PK:
                pm_ = n
        if pm_ is None:
            continue
        ids = {}
        for n in walk(a["body"]):
            if n.get("k") == "Let" and n.get("pat") is not None:
                for b in walk(n["pat"]):
                    if b.get("k") == "Binding":
                        ids.setdefault(b["name"], b["id"])
        tm = {}
        if "checked_args" in ids:
            tm[ids["checked_args"]] = "args"
        for pa in pm_["arms"]:
            pv = pat_variants(pa["pat"], PK) or set()
            c = Calls(crate, fs, pa["body"], tm)
            ff, ll = crate.loc(fs, pa["pat"])
            if "Assert" in pv:
                n_rows += 1
                if c.has_equal({"args"}, {"Bool"}):
                    out.ok("assert:arg~Bool", ff, ll, "assert argument ~ Bool")
                else:
                    out.violation("assert:arg~Bool", ff, ll, "the argument of assert is not constrained to Bool (unsafe_as_bool panics otherwise)")
            if "AssertEq" in pv:
                n_rows += 1
                eqs = [it for it in c.items if it[0] == "equal" and all("args" in t for t in it[1])]
                in_loop = any(n.get("k") == "Loop" and any(x is it[2] for it in eqs for x in walk(n["body"])) for n in walk(pa["body"]))
                if eqs and in_loop and c.has_dtype({"args"}):
                    out.ok("assert_eq:args-equal", ff, ll, "every further argument ~ first argument; the 3-argument form requires dimension types")
                else:
                    out.violation("assert_eq:args-equal", ff, ll, "assert_eq does not constrain all of its arguments to one type (and to dimension types in the 3-argument form)")
    if select is not None:
        out.findings = [x for x in out.findings if select(x.key.split(":", 1)[1])]
        n_rows = len(out.findings)
    out.analysed = {"relation_rows": n_rows, "operator_arms": len(om["arms"])}
    out.floor("relation_rows", n_rows, min_rows)
    return out


def rule_nodrop(crate):
    out = RuleOut("NODROP", "no emitted constraint can be dropped: ConstraintSet::add keeps every constraint that is not trivially satisfied, solve() succeeds only with no constraint left")
    add = crate.find_fn("typechecker::constraints::ConstraintSet::add")
    f = crate.file_of(add)
    TR = "crate::typechecker::constraints::TrivialResolution"
    m = None
    for n in walk(add["body"]):
        if n.get("k") == "Match" and str(n.get("src")) == "Normal" and strip_generics(crate.ty(peel_refs(n["scrut"]))) == TR:
            m = n
    if m is None:
        out.error("anchor missing: match over TrivialResolution in ConstraintSet::add")
        return out
    covered = {}
    for a in m["arms"]:
        vs = pat_variants(a["pat"], TR)
        pushes = any(x.get("k") == "MethodCall" and x["name"] == "push" for x in walk(a["body"]))
        for v in (vs if vs is not None else ["Satisfied", "Violated", "Unknown"]):
            covered.setdefault(v, pushes)
    for v in ("Violated", "Unknown"):
        if covered.get(v):
            out.ok("add:%s" % v, f, add["line"], "a %s constraint is kept" % v.lower())
        else:
            out.violation("add:%s" % v, f, add["line"], "ConstraintSet::add drops constraints whose trivial resolution is %s; callers that ignore the result with .ok() would accept ill-typed programs" % v)
    sv = crate.find_fn("typechecker::constraints::ConstraintSet::solve")
    sf = crate.file_of(sv)
    guard = False
    for n in walk(sv["body"]):
        if n.get("k") == "If":
            c = peel(n["cond"])
            if c.get("k") == "Unary" and c.get("op") == "Not":
                inner = peel(c["e"])
                if inner.get("k") == "MethodCall" and inner["name"] == "is_empty":
                    rets = [x for x in walk(n["then"]) if x.get("k") == "Ret" and x.get("e") is not None and (ctor_variant(x["e"]) or ("", ""))[1] == "Err"]
                    if rets:
                        guard = True
    if guard:
        out.ok("solve:remaining->Err", sf, sv["line"], "solve() returns Err when a non-dtype constraint remains")
    else:
        out.violation("solve:remaining->Err", sf, sv["line"], "solve() can return Ok while constraints remain unsolved")
    # remaining constraints collect every non-dtype constraint
    kept = False
    for n in walk(sv["body"]):
        if n.get("k") == "Match" and str(n.get("src")) == "Normal":
            for a in n["arms"]:
                if a["pat"].get("k") == "Path" and a["pat"].get("variant") == "None" or (pat_variants(a["pat"], "std::option::Option") == {"None"}):
                    if any(x.get("k") == "MethodCall" and x["name"] == "push" for x in walk(a["body"])):
                        kept = True
    if kept:
        out.ok("solve:remaining-collects", sf, sv["line"], "every constraint that is not a `T: Dim` bound is kept as remaining")
    else:
        out.violation("solve:remaining-collects", sf, sv["line"], "unsolved constraints are not collected")
    out.analysed = {"arms": len(m["arms"])}
    return out
