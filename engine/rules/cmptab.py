"""CMPTAB — a comparator written as a table over pairs of enum variants must be a strict total order on the
variants: cmp(X, Y) is the reverse of cmp(Y, X) for every pair of different variants, and the variant order is
transitive.  (Sort comparators that violate this leave factors un-merged: canonical forms stop being unique.)

SLOT — name lookup for compiled variable slots searches the innermost binding first."""
from core import RuleOut
from hirlib import callee, local_of, pat_variants, peel, peel_refs, strip_generics, walk
from sym import let_inits

ORD = "std::cmp::Ordering"


def side_matches(p, variant, enum):
    """does sub-pattern p match a value of `variant`?  (True / False)"""
    vs = pat_variants(p, enum)
    return vs is None or variant in vs


def arm_result(body):
    b = peel(body)
    while b.get("k") == "Block" and b.get("tail") is not None and not b.get("stmts"):
        b = peel(b["tail"])
    if b.get("k") == "Path" and b["res"].get("adt") == ORD:
        return b["res"]["variant"]
    if b.get("k") == "MethodCall" and b["name"] in ("cmp", "partial_cmp", "then", "then_with", "total_cmp"):
        return "delegate"
    return "other"


def rule_cmptab(crate, min_tables=1):
    out = RuleOut("CMPTAB", "variant-pair comparators are antisymmetric and transitive")
    n_tables = 0
    for d, b in crate.hir.items():
        if b.get("expn"):
            continue  # derived impls
        for m in walk(b["body"]):
            if m.get("k") != "Match" or str(m.get("src")) != "Normal":
                continue
            sc = peel(m["scrut"])
            if sc.get("k") != "Tup" or len(sc["elems"]) != 2:
                continue
            t0 = strip_generics(crate.ty(peel_refs(sc["elems"][0])))
            t1 = strip_generics(crate.ty(peel_refs(sc["elems"][1])))
            if t0 != t1:
                continue
            adt = crate.adts.get(t0)
            if not adt or adt.get("kind") != "enum":
                continue
            if strip_generics(crate.ty(m)) != ORD:
                continue
            if len(m.get("s", [])) >= 3 and m["s"][2] == 1:
                continue
            n_tables += 1
            variants = [v["name"] for v in adt["variants"]]
            f, l = crate.loc(b, m)
            short = d.split("::")[-1]
            table = {}
            for x in variants:
                for y in variants:
                    res = None
                    for a in m["arms"]:
                        p = a["pat"]
                        if p.get("k") != "Tuple" or len(p["pats"]) != 2:
                            if p.get("k") in ("Wild", "Binding"):
                                res = arm_result(a["body"])
                                break
                            continue
                        if "guard" in a:
                            continue
                        if side_matches(p["pats"][0], x, t0) and side_matches(p["pats"][1], y, t0):
                            res = arm_result(a["body"])
                            break
                    table[(x, y)] = res
            less = set()
            bad = False
            for i, x in enumerate(variants):
                r = table[(x, x)]
                if r not in ("delegate", "Equal"):
                    out.violation("%s:%s:%s=%s" % (short, t0.split("::")[-1], x, x), f, l, "comparing two `%s` values yields the constant %s instead of comparing their payloads" % (x, r))
                    bad = True
                for y in variants[i + 1:]:
                    a1, a2 = table[(x, y)], table[(y, x)]
                    key = "%s:%s:%s<>%s" % (short, t0.split("::")[-1], x, y)
                    if {a1, a2} == {"Less", "Greater"}:
                        out.ok(key, f, l, "cmp(%s,%s)=%s and cmp(%s,%s)=%s are mirror images" % (x, y, a1, y, x, a2))
                        less.add((x, y) if a1 == "Less" else (y, x))
                    else:
                        bad = True
                        out.violation(key, f, l, "the comparator is not antisymmetric: cmp(%s, %s) = %s but cmp(%s, %s) = %s; a sort with it does not bring equal factors together, so canonical forms are no longer unique" % (x, y, a1, y, x, a2))
            if not bad:
                # transitivity: the relation must be a linear order
                order = sorted(variants, key=lambda v: sum(1 for (a_, b_) in less if b_ == v))
                lin = all((order[i], order[j]) in less for i in range(len(order)) for j in range(i + 1, len(order)))
                key = "%s:%s:transitive" % (short, t0.split("::")[-1])
                if lin:
                    out.ok(key, f, l, "variant order %s is a strict total order" % " < ".join(order))
                else:
                    out.violation(key, f, l, "the variant order defined by the comparator is cyclic")
    out.analysed = {"comparator_tables": n_tables}
    out.floor("comparator_tables", n_tables, min_tables)
    return out


REVERSE_OK = {"rposition", "rfind", "next_back", "rev", "last"}
FORWARD = {"position", "find", "find_map", "first"}


def search_direction(crate, expr, depth=0):
    """'reverse' | 'forward' | None for an expression that searches a scope vector."""
    names = []
    for n in walk(expr):
        if n.get("k") == "MethodCall":
            names.append(n["name"])
            c = callee(n) or ""
            if depth < 2 and c.startswith("crate::") and c in crate.hir and n["name"] not in REVERSE_OK | FORWARD:
                sub = search_direction(crate, crate.hir[c]["body"], depth + 1)
                if sub:
                    names.append("__" + sub)
    if any(x in ("rposition", "rfind") for x in names) or "__reverse" in names:
        return "reverse"
    if "rev" in names and any(x in FORWARD for x in names):
        return "reverse"
    if any(x in FORWARD for x in names) or "__forward" in names:
        return "forward"
    return None


def rule_slot(crate):
    out = RuleOut("SLOT", "variable slots are resolved innermost-binding-first (shadowing)")
    fn = crate.find_fn("bytecode_interpreter::BytecodeInterpreter::compile_expression")
    f = crate.file_of(fn)
    inits = let_inits(fn)
    n = 0
    for call in walk(fn["body"]):
        if call.get("k") != "MethodCall" or not (callee(call) or "").endswith("vm::Vm::add_op1"):
            continue
        a0 = peel(call["args"][0])
        if a0.get("k") != "Path" or a0["res"].get("variant") not in ("GetLocal", "GetUpvalue"):
            continue
        n += 1
        op = a0["res"]["variant"]
        cf, cl = crate.loc(fn, call)
        # provenance of the slot operand: the `if let Some(position) = <search>` binding
        arg = call["args"][1]
        src = None
        for x in walk(arg):
            if x.get("k") == "Path" and x["res"].get("r") == "local" and x["res"]["id"] in inits:
                src = inits[x["res"]["id"]]
        if src is None:
            out.violation("compile_expression:%s:search" % op, cf, cl, "cannot find the search that produces the slot index of %s" % op)
            continue
        direction = search_direction(crate, src)
        if direction == "reverse":
            out.ok("compile_expression:%s:search" % op, cf, cl, "the slot is found by a reverse search (rposition / rev): the innermost binding of a name wins")
        else:
            out.violation("compile_expression:%s:search" % op, cf, cl, "the slot index of %s comes from a %s search over the scope: a re-bound name resolves to its FIRST binding instead of the innermost one" % (op, direction or "non-reverse"))
    out.analysed = {"slot_sites": n}
    out.floor("slot_sites", n, 2)
    return out
