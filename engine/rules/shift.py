"""SHIFT — an integer shift by a run-time amount panics in checked builds (and is masked to the low bits otherwise)
when the amount reaches the bit width.  Every `<<` / `>>` whose amount is not a constant must be bounded: the amount
is the result of `% c` / `& c`, or a comparison on the amount dominates the shift.  (Expected count on numbat: zero
run-time shifts; the rule has a positive control.)"""
from core import RuleOut
from mirlib import Mir


def rule_shift(crates, min_bodies=100, skip_tests=True):
    out = RuleOut("SHIFT", "no integer shift by an unbounded run-time amount")
    n_bodies = 0
    n_shift = 0
    n_rt = 0
    for crate in crates:
        for d, b in crate.mir.items():
            if skip_tests and ("::tests::" in d or "::test::" in d):
                continue
            n_bodies += 1
            m = None
            for bi, blk in enumerate(b["body"]["blocks"]):
                for st in blk["stmts"]:
                    rv = st.get("rv") or {}
                    if rv.get("rv") != "binop" or rv.get("op") not in ("Shl", "Shr", "ShlUnchecked", "ShrUnchecked"):
                        continue
                    n_shift += 1
                    amt = rv["b"]
                    if amt.get("o") == "const":
                        continue
                    n_rt += 1
                    if m is None:
                        m = Mir(crate, b)
                    f = crate.files[b["file"]]
                    key = "%s:%s" % (d.replace("crate::", "").split("::{closure")[0].split("::")[-1], rv["op"].lower())
                    tr = m.trace(amt)
                    bounded = bool(tr["ops"] & {"Rem", "BitAnd"}) and bool(tr["consts"])
                    guarded = False
                    if not bounded and amt.get("o") in ("copy", "move") and "p" not in amt["pl"]:
                        # a switch on a comparison that involves (a copy of) the amount dominates this block
                        names = tr["names"]
                        for si, sblk in enumerate(m.blocks):
                            t = sblk["term"]
                            if t.get("k") != "switch" or not m.dominates(si, bi) or si == bi:
                                continue
                            dtr = m.trace(t["discr"])
                            if dtr["ops"] & {"Lt", "Le", "Gt", "Ge"} and (dtr["names"] & names):
                                guarded = True
                    if bounded:
                        out.ok(key, f, st["s"][0], "shift amount is reduced modulo / masked by a constant")
                    elif guarded:
                        out.ok(key, f, st["s"][0], "a comparison on the shift amount dominates the shift")
                    else:
                        out.violation(key, f, st["s"][0], "`%s` by a run-time amount with no bound in sight: when the amount reaches the bit width the checked build panics (`attempt to shift … with overflow`) and the unchecked build silently uses only the low bits of the amount" % ("<<" if "Shl" in rv["op"] else ">>"))
    if n_rt == 0:
        out.ok("no-run-time-shift", "numbat/src", 1, "%d shift operation(s) in %d MIR bodies, all by constants" % (n_shift, n_bodies))
    out.analysed = {"mir_bodies": n_bodies, "shifts": n_shift, "run_time_amount": n_rt}
    out.floor("mir_bodies", n_bodies, min_bodies)
    return out
