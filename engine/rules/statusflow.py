"""Forward dataflow of Result status (Ok / Err / unknown) over a MIR body, and location of the edges on which a
`ControlFlow` value is known to be `Break`.  Used by EXIT for Cli::run: "once an input yields Break, every path to
the function's return yields Err" — independent of the source idiom (match + bail!, if is_break(), accumulated
`.and(..)`, …)."""
from mirlib import bool_source

RESULT = "std::result::Result"
# core::ops::ControlFlow { Continue = 0, Break = 1 }
CF_BREAK_INDEX = "1"


def _whole(pl):
    return "p" not in pl or not pl["p"]


def transfer_block(m, bi, state):
    st = dict(state)
    blk = m.blocks[bi]
    for s in blk["stmts"]:
        if s.get("k") != "assign":
            continue
        l = s["pl"]["l"]
        if not _whole(s["pl"]):
            st.pop(l, None)
            continue
        rv = s["rv"]
        if rv.get("rv") == "aggr" and rv.get("adt") == RESULT and rv.get("variant") in ("Ok", "Err"):
            st[l] = rv["variant"]
        elif rv.get("rv") == "use" and rv["op"].get("o") in ("copy", "move") and _whole(rv["op"]["pl"]) and rv["op"]["pl"]["l"] in st:
            st[l] = st[rv["op"]["pl"]["l"]]
        else:
            st.pop(l, None)
    t = blk["term"]
    if t.get("k") == "call" and "dest" in t:
        d = t["dest"]["l"]
        fn = t["f"].get("inst") or t["f"].get("fn") or ""
        val = None
        args = t.get("args", [])

        def sv(o):
            if o.get("o") in ("copy", "move") and _whole(o["pl"]):
                return st.get(o["pl"]["l"])
            return None

        if fn.endswith("result::Result::and") and len(args) == 2:
            a, b = sv(args[0]), sv(args[1])
            if a == "Err" or b == "Err":
                val = "Err"
            elif a == "Ok" and b == "Ok":
                val = "Ok"
        elif "FromResidual" in fn and fn.endswith("from_residual"):
            val = "Err"
        if _whole(t["dest"]) and val:
            st[d] = val
        else:
            st.pop(d, None)
    return st


def flow(m, start, cap=48):
    """{return block: status of _0 ('Ok' | 'Err' | None)} for all paths starting at `start` with nothing known.
    Path-sensitive up to `cap` distinct abstract states per block (no join below the cap: `a.and(b)` is Err when
    either operand is, which a join of (?, Err) with (Err, Ok) would forget); beyond the cap states are joined."""
    IN = {start: {frozenset()}}
    work = [(start, frozenset())]
    rets = {}
    while work:
        b, fs = work.pop()
        out = transfer_block(m, b, dict(fs))
        t = m.blocks[b]["term"]
        if t.get("k") == "return":
            cur = out.get(0)
            if b in rets and rets[b] != cur:
                rets[b] = None
            else:
                rets[b] = cur
        fo = frozenset(out.items())
        for s in m.succ[b]:
            have = IN.setdefault(s, set())
            if fo in have:
                continue
            if len(have) < cap:
                have.add(fo)
                work.append((s, fo))
            else:
                # join everything into one state
                merged = dict(fo)
                for h in have:
                    hd = dict(h)
                    merged = {k: v for k, v in merged.items() if hd.get(k) == v}
                fm = frozenset(merged.items())
                if fm not in have:
                    have.add(fm)
                    work.append((s, fm))
    return rets, set(IN)


def break_heads(m, producer_suffix, field="control_flow"):
    """[(head block, switch block, line)] — successor blocks entered only when the `field` of a value returned by
    `producer_suffix` is ControlFlow::Break."""
    producers = set()
    for i, blk in enumerate(m.blocks):
        t = blk["term"]
        if t.get("k") == "call" and (t["f"].get("inst") or t["f"].get("fn") or "").endswith(producer_suffix) and _whole(t["dest"]):
            producers.add(t["dest"]["l"])

    def from_field(pl_or_op):
        tr = m.trace(pl_or_op)
        return field in tr["fields"] and any(c.endswith(producer_suffix) for c in tr["calls"])

    heads = []
    for i, blk in enumerate(m.blocks):
        t = blk["term"]
        if t.get("k") != "switch":
            continue
        d = t["discr"]
        if d.get("o") not in ("copy", "move") or not _whole(d["pl"]):
            continue
        dl = d["pl"]["l"]
        defs = m.defs.get(dl, [])
        # (a) switch on the discriminant of <producer>.control_flow
        for (bi, kind, payload, _st) in defs:
            if kind == "rv" and payload.get("rv") == "discr":
                pl = payload["pl"]
                names = [p.get("f") for p in pl.get("p", []) if isinstance(p, dict)]
                direct = pl["l"] in producers and field in names
                via_copy = False
                if not direct and _whole(pl):
                    via_copy = from_field({"o": "copy", "pl": pl})
                if direct or via_copy:
                    listed = {str(v): tg for (v, tg) in t["targets"]}
                    if CF_BREAK_INDEX in listed:
                        tg = listed[CF_BREAK_INDEX]
                    else:
                        tg = t["otherwise"]
                    if set(m.pred[tg]) == {i}:
                        heads.append((tg, i, t["s"][0]))
        # (b) switch on is_break()/is_continue() of it
        src = bool_source(m, d)
        if src:
            for (bi, kind, payload, _st) in m.defs.get(src[0], []):
                if kind != "call":
                    continue
                fn = payload["f"].get("inst") or payload["f"].get("fn") or ""
                short = fn.split("::")[-1]
                if short not in ("is_break", "is_continue") or not payload.get("args"):
                    continue
                if not from_field(payload["args"][0]):
                    continue
                truth_is_break = (short == "is_break") == (src[1] % 2 == 0)
                zero = [tg for (v, tg) in t["targets"] if str(v) == "0"]
                nonzero = [tg for (v, tg) in t["targets"] if str(v) != "0"] + [t["otherwise"]]
                for tg in (nonzero if truth_is_break else zero):
                    if set(m.pred[tg]) == {i}:
                        heads.append((tg, i, t["s"][0]))
    return heads, producers
