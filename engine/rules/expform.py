"""EXPFORM — the annotation printer spells a superscript power the way inferred types are spelled.

The echo of a definition prints an INFERRED type through `<BaseRepresentationFactor as Display>::fmt` (`Length³ / Mass`,
`A⁻¹`, `Length^-12`) and a WRITTEN annotation through `<TypeExpression as PrettyPrint>::pretty_print`.  When the echo is
read back, the inferred type has become a written annotation; C15 demands that printing it again "reproduces the same
text".  The parser keeps the spelling of a power in the first field of TypeExpression::Power (the span of the `^`
operator; None for a superscript exponent).  So the Power arm of the annotation printer must

format a superscript exponent with the SAME formatter of crate::arithmetic that the inferred-type printer calls —
sibling printers of one notation must share the code that spells it (whether the arm keeps the `^` spelling for
annotations written with `^`, by branching on that field, is its own business: either way the second echo equals the
first).

Otherwise `let water = 1/(1000 g/L)` echoes `Length³ / Mass` and its re-read echoes `Length^3 / Mass` (and
`fn f(x) = 1/x`: `A⁻¹` → `A^(-1)`).  The rule decides the shared-formatter clause, not the printed text."""
from core import RuleOut
from hirlib import callee, local_of, pat_variants, walk

TYPE_E = "crate::ast::TypeExpression"


def _arith_callees(body, crate):
    s = set()
    for x in walk(body):
        if x.get("k") in ("Call", "MethodCall"):
            c = (callee(x) or "").split("::<")[0]
            if c.startswith("crate::arithmetic::") and c in crate.hir:
                s.add(c)
    return s


def rule_expform(crate):
    out = RuleOut("EXPFORM", "the printer of written type annotations spells a superscript power with the exponent formatter of the inferred-type printer")
    fmts = [b for d, b in crate.hir.items() if d.endswith("as std::fmt::Display>::fmt") and (b.get("impl_self") or "").endswith("registry::BaseRepresentationFactor")]
    pps = [b for d, b in crate.hir.items() if d.endswith("::pretty_print") and (b.get("impl_self") or "").endswith("ast::TypeExpression")]
    if not fmts or not pps:
        out.error("anchor missing: <BaseRepresentationFactor as Display>::fmt / <TypeExpression as PrettyPrint>::pretty_print")
        return out
    inferred = _arith_callees(fmts[0]["body"], crate)
    if not inferred:
        out.error("anchor missing: the inferred-type printer calls no exponent formatter of crate::arithmetic")
        return out
    # does the parser produce Power(None, ..) at all (superscript exponents in annotations)?
    none_sites = 0
    for d, b in crate.hir.items():
        if not d.startswith("crate::parser::Parser::"):
            continue
        for x in walk(b["body"]):
            if x.get("k") == "Call" and (callee(x) or "").split("::<")[0].endswith("TypeExpression::Power") and x.get("args"):
                a0 = x["args"][0]
                if a0.get("k") == "Path" and a0.get("res", {}).get("variant") == "None" and str(a0["res"].get("adt", "")).endswith("option::Option"):
                    none_sites += 1
    pp = pps[0]
    f = crate.file_of(pp)
    arm = None
    for m in walk(pp["body"]):
        if m.get("k") != "Match" or str(m.get("src")) != "Normal":
            continue
        for a in m["arms"]:
            if pat_variants(a["pat"], TYPE_E) == {"Power"}:
                arm = a
        if arm:
            break
    if arm is None:
        out.error("anchor missing: Power arm of <TypeExpression as PrettyPrint>::pretty_print")
        return out
    ff, ll = crate.loc(pp, arm["body"])
    key = "type-annotation:Power:superscript-spelling"
    out.analysed = {"inferred_formatters": sorted(inferred), "parser_sites_superscript_power": none_sites}
    if none_sites == 0:
        out.ok(key, ff, ll, "the parser builds no Power without a `^` operator: annotations have one spelling")
        return out
    sub = [p for p in walk(arm["pat"]) if p.get("k") == "TupleStruct"]
    first = sub[0]["pats"][0] if sub and sub[0].get("pats") else None
    bound = first.get("id") if first is not None and first.get("k") == "Binding" else None
    shared = _arith_callees(arm["body"], crate) & inferred
    looked = False
    if bound is not None:
        for x in walk(arm["body"]):
            if x.get("k") == "MethodCall" and x["name"] in ("is_none", "is_some") and local_of(x["recv"]) == bound:
                looked = True
            if x.get("k") in ("Match", "If", "Let") and any(local_of(y) == bound for y in walk(x.get("scrut") or x.get("cond") or x.get("init") or {})):
                looked = True
    if shared:
        out.ok(key, ff, ll, "the arm %sformats the superscript spelling with %s, like the inferred-type printer" % ("branches on the `^`-operator field and " if looked else "", ", ".join(sorted(c.split("::")[-1] for c in shared))))
    else:
        why = []
        if True:
            why.append("it does not call %s, which spells the exponents of inferred types" % ", ".join(sorted(c.split("::")[-1] for c in inferred)))
        out.violation(key, ff, ll, "; ".join(why) + ": the echo of an inferred type is spelled differently when it is read back — `let water = 1/(1000 g/L)` echoes `Length³ / Mass`, and that line echoes `Length^3 / Mass` (`A⁻¹` → `A^(-1)`), so pretty-printing the re-read statement does not reproduce the same text")
    return out
