"""PANICAPI — functions of dependencies that are known (by reading their source) to panic on a condition of the host
environment are not called from interpreter code without a guard.

Table (confirmed by reading the dependency in the cargo registry):
  plotly::Plot::show            plot.rs: `.expect(&default_cause_msg)` around the launch of the system's HTML viewer —
                                panics with "Could not find default application for HTML files" in containers, CI jobs
                                and ssh sessions (no desktop).  `bar_chart([1, 2]) |> show` aborts the interpreter.
  pretty_dtoa::dtoa             handled by DTOAROUND (value-dependent, not environment-dependent).

A call site is accepted only when the enclosing function runs it inside std::panic::catch_unwind."""
from core import RuleOut
from hirlib import callee, walk

PANICKING = {
    "plotly::Plot::show": "panics with 'Could not find default application for HTML files' when the host has no HTML viewer (container, CI, ssh)",
}


def rule_panicapi(crate):
    out = RuleOut("PANICAPI", "dependency functions that panic on a condition of the host environment are called only under catch_unwind")
    n = 0
    for d, b in sorted(crate.hir.items()):
        if "::tests::" in d:
            continue
        under = set()  # nodes inside the closure handed to catch_unwind
        for x in walk(b["body"]):
            if x.get("k") == "Call" and (callee(x) or "").split("::<")[0].endswith("panic::catch_unwind"):
                under |= {id(y) for a in x.get("args", []) for y in walk(a)}
        for x in walk(b["body"]):
            if x.get("k") not in ("Call", "MethodCall"):
                continue
            c = (callee(x) or "").split("::<")[0]
            if c in PANICKING:
                n += 1
                f, l = crate.loc(b, x)
                key = "%s:%s" % (d.replace("crate::", ""), c)
                if id(x) in under:
                    out.ok(key, f, l, "called inside the closure handed to catch_unwind")
                else:
                    out.violation(key, f, l, "`%s` %s; the call is not guarded, so the panic aborts the interpreter instead of becoming a runtime error" % (c, PANICKING[c]))
    if n == 0:
        out.ok("no-call-site", "numbat/src/ffi/plot.rs", 1, "no call of a listed function in this configuration")
    out.analysed = {"listed_functions": len(PANICKING), "call_sites": n}
    return out
