"""DTOAROUND — a number handed to pretty_dtoa with "round to N decimals" has been rounded to N decimals before.

pretty_dtoa 0.3.0 (`digits_to_a`) removes the decimals beyond `max_decimal_digits` and, in RoundMode::Round, carries
into the last remaining digit with `digits.len() - 1`.  When ALL digits are cut off (the value is below 10^-N) and the
first removed digit is >= 5, no digit remains and the subtraction overflows: the interpreter aborts with "attempt to
subtract with overflow" while it RENDERS the failure of an ordinary assertion (`assert_eq(1, 1.5, 0)`,
`assert_eq(0.5, 3, 1)`, `assert_eq(0.05, 3, 0.1)`: the difference / an operand is printed with as many decimals as eps
has).  The `max_significant_digits` branch of the same function always keeps at least one digit and is not affected.

Rule (sanitiser dominates sink).  If some function of the crate builds an FmtFloatConfig with both
`max_decimal_digits(..)` and `round()`, then in every function that calls `pretty_dtoa::dtoa(v, cfg)` the value `v` is a
local that is (re)bound from an expression which calls f64::round, directly or through one helper of the crate — i.e.
the value is rounded to the requested decimals in the crate's own arithmetic, and pretty_dtoa has nothing left to carry.
"""
from core import RuleOut
from hirlib import callee, local_of, peel, walk


def _calls_round(crate, e, depth=1):
    for x in walk(e):
        if x.get("k") in ("MethodCall", "Call"):
            c = callee(x) or ""
            if c.endswith("f64::round") or c.endswith("f64>::round") or c.endswith("::f64::round") or c.endswith("<impl f64>::round"):
                return True
            if depth > 0:
                cc = c.split("::<")[0]
                for d, b in crate.hir.items():
                    if d == cc or d.replace("crate::", "") == cc.replace("crate::", "").replace("numbat::", ""):
                        if _calls_round(crate, b["body"], depth - 1):
                            return True
    return False


def rule_dtoaround(crate):
    out = RuleOut("DTOAROUND", "a value printed by pretty_dtoa with max_decimal_digits + round() is rounded to that many decimals first (pretty_dtoa overflows when every digit is cut off and the remainder rounds up)")
    builders = []
    sinks = []
    for d, b in sorted(crate.hir.items()):
        if "::tests::" in d:
            continue
        names = set()
        for x in walk(b["body"]):
            if x.get("k") == "MethodCall" and "FmtFloatConfig" in (callee(x) or ""):
                names.add(x["name"])
            if x.get("k") == "Call" and (callee(x) or "").split("::<")[0].endswith("pretty_dtoa::dtoa"):
                sinks.append((d, b, x))
        if "max_decimal_digits" in names and "round" in names:
            builders.append((d, b))
    if not sinks:
        out.error("anchor missing: no call of pretty_dtoa::dtoa found")
        return out
    for d, b in builders:
        out.ok("builder:%s" % d.replace("crate::", ""), crate.file_of(b), b["line"], "builds an FmtFloatConfig with max_decimal_digits + round()")
    for d, b, x in sinks:
        short = d.replace("crate::", "")
        f, l = crate.loc(b, x)
        if not builders:
            out.ok("sink:%s" % short, f, l, "no configuration of the crate combines max_decimal_digits with round()")
            continue
        v = local_of(x["args"][0]) if x.get("args") else None
        inits = [s_ for s_ in walk(b["body"]) if s_.get("k") == "Let" and s_["pat"].get("k") == "Binding" and s_["pat"].get("id") == v and s_.get("init") is not None]
        if v is not None and any(_calls_round(crate, s_["init"]) for s_ in inits):
            out.ok("sink:%s" % short, f, l, "the printed value is bound from an expression that rounds it (f64::round) before dtoa is called")
        else:
            out.violation("sink:%s" % short, f, l, "the value handed to pretty_dtoa::dtoa is not rounded first although %s asks for `max_decimal_digits(p).round()`: for a non-zero value below 10^-p whose first cut-off digit is >= 5 pretty_dtoa removes every digit and then carries into `digits[len - 1]` — `assert_eq(1, 1.5, 0)` aborts with 'attempt to subtract with overflow' while its failure message is rendered" % ", ".join(x_[0].replace("crate::", "") for x_ in builders))
    out.analysed = {"dtoa_call_sites": len(sinks), "decimal_rounding_configs": len(builders)}
    out.floor("dtoa_call_sites", len(sinks), 1)
    return out
