"""DTOAROUND — a number handed to pretty_dtoa with "round to N decimals" has been rounded to N decimals before.

pretty_dtoa 0.3.0 (`digits_to_a`) removes the decimals beyond `max_decimal_digits` and, in RoundMode::Round, carries
into the last remaining digit with `digits.len() - 1`.  When ALL digits are cut off (the value is below 10^-N) and the
first removed digit is >= 5, no digit remains and the subtraction overflows: the interpreter aborts with "attempt to
subtract with overflow" while it RENDERS the failure of an ordinary assertion (`assert_eq(1, 1.5, 0)`,
`assert_eq(0.5, 3, 1)`, `assert_eq(0.05, 3, 0.1)`: the difference / an operand is printed with as many decimals as eps
has).  The `max_significant_digits` branch of the same function always keeps at least one digit and is not affected.

Rule (sanitiser dominates sink, and the sanitiser is exact).  If some function of the crate builds an FmtFloatConfig
with both `max_decimal_digits(..)` and `round()`, then in every function that calls `pretty_dtoa::dtoa(v, cfg)` (a) the
value `v` is a local bound from an expression that calls a helper of the crate (the sanitiser), and (b) that helper does
not scale by a power of ten in binary floating point (`powi` / `powf`): 10^p is inexact above p = 22, so
`(x * 10^26).round() / 10^26` turns 1e-26 into 9.999999999999999e-27, whose digits are all cut off and rounded up —
the very overflow, now for every tolerance below 1e-22 (`assert_eq(proton_mass, 1.67e-27 kg, 1e-30 kg)`; my first
repair did exactly that, found by the audit H20).  The decision has to be taken on the decimal representation.
"""
from core import RuleOut
from hirlib import callee, local_of, peel, walk


def _helpers(crate, e):
    """crate-local functions called in e"""
    res = []
    for x in walk(e):
        if x.get("k") in ("MethodCall", "Call"):
            c = (callee(x) or "").split("::<")[0]
            if c in crate.hir and crate.hir[c].get("body") is not None:
                res.append(c)
    return res


def _inexact_scaling(crate, path):
    b = crate.hir[path]
    for x in walk(b["body"]):
        if x.get("k") in ("MethodCall", "Call"):
            c = callee(x) or ""
            if c.endswith(("f64::powi", "f64::powf", "<impl f64>::powi", "<impl f64>::powf")) or (x.get("k") == "MethodCall" and x["name"] in ("powi", "powf") and crate.ty(x) in ("f64", "f32")):
                return crate.loc(b, x)
    return None


def rule_dtoaround(crate):
    out = RuleOut("DTOAROUND", "a value printed by pretty_dtoa with max_decimal_digits + round() is rounded to that many decimals first (pretty_dtoa overflows when every digit is cut off and the remainder rounds up)")
    builders = []
    sinks = []
    n_helpers = 0
    for d, b in sorted(crate.hir.items()):
        if "::tests::" in d:
            continue
        names = set()
        for x in walk(b["body"]):
            if x.get("k") == "MethodCall" and "FmtFloatConfig" in (callee(x) or ""):
                names.add(x["name"])
            if x.get("k") == "Call" and (callee(x) or "").split("::<")[0].endswith("pretty_dtoa::dtoa"):
                sinks.append((d, b, x))
        if "max_decimal_digits" in names and "round" in names:
            builders.append((d, b))
    if not sinks:
        out.error("anchor missing: no call of pretty_dtoa::dtoa found")
        return out
    for d, b in builders:
        out.ok("builder:%s" % d.replace("crate::", ""), crate.file_of(b), b["line"], "builds an FmtFloatConfig with max_decimal_digits + round()")
    for d, b, x in sinks:
        short = d.replace("crate::", "")
        f, l = crate.loc(b, x)
        if not builders:
            out.ok("sink:%s" % short, f, l, "no configuration of the crate combines max_decimal_digits with round()")
            continue
        v = local_of(x["args"][0]) if x.get("args") else None
        inits = [s_ for s_ in walk(b["body"]) if s_.get("k") == "Let" and s_["pat"].get("k") == "Binding" and s_["pat"].get("id") == v and s_.get("init") is not None]
        helpers = [h for s_ in inits for h in _helpers(crate, s_["init"])] if v is not None else []
        if not helpers:
            out.violation("sink:%s" % short, f, l, "the value handed to pretty_dtoa::dtoa is not sanitised first although %s asks for `max_decimal_digits(p).round()`: for a non-zero value below 10^-p whose first cut-off digit is >= 5 pretty_dtoa removes every digit and then carries into `digits[len - 1]` — `assert_eq(1, 1.5, 0)` aborts with 'attempt to subtract with overflow' while its failure message is rendered" % ", ".join(x_[0].replace("crate::", "") for x_ in builders))
            continue
        out.ok("sink:%s" % short, f, l, "the printed value is bound from a call of %s before dtoa is called" % ", ".join(h.split("::")[-1] for h in helpers))
        for h in helpers:
            n_helpers += 1
            bad = _inexact_scaling(crate, h)
            hb = crate.hir[h]
            if bad:
                out.violation("sanitiser:%s:inexact-scaling" % h.replace("crate::", ""), bad[0], bad[1], "the sanitiser scales by a power of ten in binary floating point (`powi`/`powf`): 10^p is inexact above p = 22, so rounding 1e-26 to 26 decimals yields 9.999999999999999e-27 — all of its digits are cut off and rounded up inside pretty_dtoa, i.e. the overflow returns for every tolerance below 1e-22: `assert_eq(proton_mass, 1.67e-27 kg, 1e-30 kg)` and `assert_eq(2e-26, 0, 1e-26)` abort although they were rendered correctly without the sanitiser")
            else:
                out.ok("sanitiser:%s:inexact-scaling" % h.replace("crate::", ""), crate.file_of(hb), hb["line"], "no floating-point power of ten: the decision is taken on the decimal representation")
    out.analysed = {"dtoa_call_sites": len(sinks), "decimal_rounding_configs": len(builders), "sanitisers": n_helpers}
    out.floor("dtoa_call_sites", len(sinks), 1)
    return out
