"""TYPEPARENS — type (dimension) expressions are echoed with parentheses wherever the dimension-expression grammar
needs them.

parser   dimension_expression -> dimension_factor -> dimension_power -> dimension_primary.  For every constructor call
         of a TypeExpression variant in these functions, each boxed operand comes from a call of one of them (or is the
         loop accumulator of the function itself).  tight(G) = the variants G can return without parentheses =
         those it constructs plus tight(H) of every deeper level H it calls.  allowed(W, i) = tight(supplier).
printer  <TypeExpression as PrettyPrint>::pretty_print: for every operand binding of every arm, the set of variants
         printed without parentheses, by abstract evaluation of the arm (through ast::with_parens; wpeval.py).
rule     bare(W, i) ⊆ allowed(W, i).   `(Length^2)^3` printed as `Length^2^3` does not parse: the base of a power must
         be a primary.  One semantic exemption: the right operand of a product may be a product/quotient — the echo
         regroups `A × (B / C)` as `A × B / C`, which denotes the same dimension."""
from core import RuleOut
from hirlib import callee, ctor_variant, local_of, peel, peel_refs, walk
from wpeval import evaluate

TYPE_E = "crate::ast::TypeExpression"
PARSER = "crate::parser::Parser::"
SAME_MEANING = {("Multiply", 1): ({"Multiply", "Divide"}, "regrouped, but a product of dimensions is associative: same dimension")}


def rule_typeparens(crate):
    out = RuleOut("TYPEPARENS", "operands of type expressions are printed bare only where the dimension-expression grammar accepts them bare")
    adt = crate.adt(TYPE_E)
    variants = [v["name"] for v in adt["variants"]]
    boxed = {v["name"]: [i for i, f in enumerate(v["fields"]) if "Box<crate::ast::TypeExpression>" in str(f.get("s"))] for v in adt["variants"]}
    # ---- parser side
    fns = {d[len(PARSER):]: b for d, b in crate.hir.items() if d.startswith(PARSER + "dimension_")}
    root = "dimension_expression"
    if root not in fns:
        out.error("anchor missing: Parser::dimension_expression")
        return out
    level, order = {root: 0}, [root]
    for nm in order:
        for x in walk(fns[nm]["body"]):
            if x.get("k") == "MethodCall":
                c = callee(x) or ""
                if c.startswith(PARSER + "dimension_"):
                    h = c[len(PARSER):]
                    if h in fns and h not in level and "TypeExpression" in crate.ty(x):
                        level[h] = level[nm] + 1
                        order.append(h)

    def constructed(nm):
        s = set()
        for n in walk(fns[nm]["body"]):
            if n.get("k") in ("Call", "Struct", "Path"):
                v = ctor_variant(n)
                if v and v[0] == TYPE_E:
                    s.add(v[1])
        return s

    tight = {}
    for nm in sorted(level, key=lambda n: -level[n]):
        t = constructed(nm)
        for x in walk(fns[nm]["body"]):
            if x.get("k") == "MethodCall":
                h = (callee(x) or "")[len(PARSER):]
                if h in level and level[h] > level[nm]:
                    t |= tight.get(h, set())
        tight[nm] = t
    allowed = {}  # (variant, operand index among boxed) -> (set, supplier)
    for nm in level:
        fn = fns[nm]
        inits, mutable = {}, set()
        for n in walk(fn["body"]):
            if n.get("k") == "Let" and n.get("init") is not None and n["pat"].get("k") == "Binding":
                inits[n["pat"]["id"]] = n["init"]
                if "Mut" in str(n["pat"].get("mode")):
                    mutable.add(n["pat"]["id"])
        for n in walk(fn["body"]):
            if n.get("k") != "Call":
                continue
            v = ctor_variant(n)
            if not v or v[0] != TYPE_E or not boxed.get(v[1]):
                continue
            for j, fi in enumerate(boxed[v[1]]):
                if fi >= len(n["args"]):
                    continue
                arg = peel(n["args"][fi])
                inner = arg["args"][0] if arg.get("k") == "Call" and (callee(arg) or "").endswith("Box::new") and arg.get("args") else arg
                lid = local_of(inner)
                supplier = None
                if lid in mutable:
                    supplier = nm  # loop accumulator of this level
                elif lid in inits:
                    for y in walk(inits[lid]):
                        if y.get("k") == "MethodCall" and (callee(y) or "").startswith(PARSER + "dimension_"):
                            supplier = (callee(y) or "")[len(PARSER):]
                elif inner.get("k") != "Path":
                    for y in walk(inner):
                        if y.get("k") == "MethodCall" and (callee(y) or "").startswith(PARSER + "dimension_"):
                            supplier = (callee(y) or "")[len(PARSER):]
                if supplier in tight:
                    prev = allowed.get((v[1], j))
                    s = tight[supplier] if prev is None else (prev[0] | tight[supplier])
                    allowed[(v[1], j)] = (s, supplier)
    if not allowed:
        out.error("anchor missing: no TypeExpression constructor with parser-supplied operands found")
        return out
    # ---- printer side
    pps = [b for d, b in crate.hir.items() if d.endswith("::pretty_print") and (b.get("impl_self") or "").endswith("ast::TypeExpression")]
    if not pps:
        out.error("anchor missing: <TypeExpression as PrettyPrint>::pretty_print")
        return out
    pp = pps[0]
    f = crate.file_of(pp)
    n = 0
    from hirlib import pat_variants

    for m in walk(pp["body"]):
        if m.get("k") != "Match" or str(m.get("src")) != "Normal":
            continue
        for a in m["arms"]:
            vs = pat_variants(a["pat"], TYPE_E)
            if not vs or len(vs) != 1:
                continue
            w = next(iter(vs))
            if not boxed.get(w):
                continue
            p = a["pat"]
            while p.get("k") in ("Ref", "Deref"):
                p = p["pat"]
            subs = p.get("pats") or []
            for j, fi in enumerate(boxed[w]):
                if fi >= len(subs):
                    continue
                ids = [q["id"] for q in walk(subs[fi]) if q.get("k") == "Binding"]
                if not ids or (w, j) not in allowed:
                    continue
                table, ev, why = evaluate(crate, pp, variants, adt=TYPE_E, body=a["body"], pid=ids[0])
                pos = ["lhs", "rhs"][j] if len(boxed[w]) == 2 else "base"
                if table is None:
                    out.error("anchor missing: the printing of the %s of TypeExpression::%s cannot be evaluated (%s)" % (pos, w, why))
                    continue
                ok_set, supplier = allowed[(w, j)]
                for v in variants:
                    n += 1
                    rows = table[v]
                    bare = [r for r in rows if r[1] == "bare"]
                    af, al = crate.loc(pp, (bare or rows)[0][2])
                    key = "%s:%s:%s" % (w, pos, v)
                    if not bare:
                        out.ok(key, af, al, "parenthesised")
                    elif v in ok_set:
                        out.ok(key, af, al, "bare; the parser reads this operand with %s, which yields a %s without parentheses" % (supplier, v))
                    elif (w, j) in SAME_MEANING and v in SAME_MEANING[(w, j)][0]:
                        out.exempt(key, af, al, SAME_MEANING[(w, j)][1])
                    else:
                        out.violation(key, af, al, "the %s of TypeExpression::%s is printed without parentheses when it is a %s, but the parser reads that operand with %s, which accepts only %s bare: the echoed type `(Length^2)^3` -> `Length^2^3` is rejected (or regrouped) when read back" % (pos, w, v, supplier, "/".join(sorted(ok_set))))
    out.analysed = {"operand_kind_pairs": n, "parser_levels": len(level), "operand_positions": len(allowed)}
    out.floor("operand_kind_pairs", n, 20)
    return out
