"""ESCTAB — the string escaper of the pretty printer and the un-escaper of the parser are inverse tables
(sibling tables agree): every escape sequence the printer emits is read back as the character it stands for,
and every character the parser treats specially (backslash escapes, doubled `{`, `}`, `\\`) is escaped."""
from core import RuleOut
from hirlib import peel, peel_refs, walk


def char_lits(p):
    out = []
    subs = p["pats"] if p.get("k") == "Or" else [p]
    for sp in subs:
        if sp.get("k") == "Lit" and sp["lit"].get("lk") == "char":
            out.append(sp["lit"]["v"])
    return out


def rule_esctab(crate):
    out = RuleOut("ESCTAB", "escape_numbat_string and the parser's strip_and_escape are inverse")
    esc = crate.find_fn("pretty_print::escape_numbat_string")
    une = crate.find_fn("parser::strip_and_escape")
    ef, uf = crate.file_of(esc), crate.file_of(une)
    # ---- escaper: char -> emitted text
    E = {}
    for m in walk(esc["body"]):
        if m.get("k") == "Match" and str(m.get("src")) == "Normal" and crate.ty(peel(m["scrut"])) == "char":
            for a in m["arms"]:
                cs = char_lits(a["pat"])
                if not cs:
                    continue
                b = peel(a["body"])
                if b.get("k") == "Lit" and b["lit"].get("lk") == "str":
                    for c in cs:
                        E[c] = b["lit"]["v"]
                else:
                    pushes = [x for x in walk(a["body"]) if x.get("k") == "MethodCall" and x["name"] == "push"]
                    lits = [x["lit"]["v"] for x in walk(a["body"]) if x.get("k") == "Lit" and x["lit"].get("lk") == "str"]
                    for c in cs:
                        if lits:
                            E[c] = "".join(lits)
                        else:
                            E[c] = c * len(pushes)
    # ---- un-escaper
    U_bs = {}  # char after backslash -> character
    U_double = set()
    for m in walk(une["body"]):
        if m.get("k") == "Match" and str(m.get("src")) == "Normal" and crate.ty(peel(m["scrut"])) == "char":
            for a in m["arms"]:
                cs = char_lits(a["pat"])
                if not cs or "guard" not in a:
                    continue
                g = a["guard"]
                glits = [x["lit"]["v"] for x in walk(g) if x.get("k") == "Lit" and x["lit"].get("lk") == "char"]
                b = peel(a["body"])
                if glits == ["\\"] and b.get("k") == "Lit" and b["lit"].get("lk") == "char":
                    for c in cs:
                        U_bs[c] = b["lit"]["v"]
                elif not glits:
                    # guard `last_char == Some(c)`: a doubled special character
                    if any(x.get("k") == "MethodCall" and x["name"] == "push" for x in walk(a["body"])):
                        U_double |= set(cs)
    if not E or not U_bs or not U_double:
        out.error("anchor missing: escape tables not found (escaper %d rows, backslash escapes %d, doubled %d)" % (len(E), len(U_bs), len(U_double)))
        return out
    inv_bs = {v: k for k, v in U_bs.items()}
    for x, s_ in sorted(E.items()):
        key = "escape:%r" % x
        if len(s_) == 2 and s_[0] == "\\" and U_bs.get(s_[1]) == x:
            out.ok(key, ef, esc["line"], "%r is written as %r, which the parser reads back as %r" % (x, s_, x))
        elif s_ == x + x and x in U_double:
            out.ok(key, ef, esc["line"], "%r is doubled, which the parser reads back as one %r" % (x, x))
        else:
            out.violation(key, ef, esc["line"], "escape_numbat_string writes %r as %r, but strip_and_escape does not read that back as %r (expected %r)" % (x, s_, x, ("\\" + inv_bs[x]) if x in inv_bs else x + x))
    for c in sorted(U_double):
        if c not in E:
            out.violation("escape:%r" % c, ef, esc["line"], "the parser treats a single %r specially but escape_numbat_string does not escape it" % c)
    for k, x in sorted(U_bs.items()):
        if x not in E:
            out.violation("escape:%r" % x, ef, esc["line"], "the parser reads `\\%s` as %r but escape_numbat_string writes %r unescaped" % (k, x, x))
    out.analysed = {"escaper_rows": len(E), "backslash_escapes": len(U_bs), "doubled": len(U_double)}
    out.floor("escaper_rows", len(E), 8)
    return out
