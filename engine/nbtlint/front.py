import os

KEYWORDS = {
    "per", "to", "let", "fn", "where", "and", "dimension", "unit", "use", "struct", "long", "short", "both", "none",
    "if", "then", "else", "true", "false", "NaN", "inf", "print", "assert", "assert_eq", "type",
    "Bool", "String", "DateTime", "Fn", "List",
}
TYPE_KEYWORDS = {"Bool", "String", "DateTime", "Fn", "List"}
ASCII_DIGITS = "0123456789"
EXPONENT_CHARS = "¹²³⁴⁵⁶⁷⁸⁹"
FRACTION_CHARS = "¼½¾⅐⅑⅒⅓⅔⅕⅖⅗⅘⅙⅚⅛⅜⅝⅞"


class TokErr(Exception):
    pass


def is_currency(c):
    o = ord(c)
    return 0x20A0 <= o <= 0x20CF or c in "£¥$฿"


def is_ident_start(c):
    return (c.isidentifier()) or c in FRACTION_CHARS or is_currency(c) or c in "%‰°′″_"


def is_ident_continue(c):
    if c in EXPONENT_CHARS or c in "·⋅":
        return False
    o = ord(c)
    return ("a" + c).isidentifier() or (0x2080 <= o <= 0x209CF) or is_currency(c) or c in "%‰"


class Tok:
    __slots__ = ("kind", "text", "line", "col", "value")

    def __init__(self, kind, text, line, col, value=None):
        self.kind = kind
        self.text = text
        self.line = line
        self.col = col
        self.value = value

    def __repr__(self):
        return "%s(%r)@%d:%d" % (self.kind, self.text, self.line, self.col)


def unescape(raw):
    """strip_and_escape of parser.rs applied to the inside of a string literal."""
    out = []
    last = None
    for c in raw:
        if last == "\\" and c in 'nrt"0':
            out.append({"n": "\n", "r": "\r", "t": "\t", '"': '"', "0": "\0"}[c])
            last = c
            continue
        if c in "{}\\":
            if last == c:
                out.append(c)
                last = None
                continue
            last = c
            continue
        if last == "\\":
            out.append("\\")
        out.append(c)
        last = c
    return "".join(out)


def tokenize(text):
    """Token list; interpolated strings are flattened to: str_open, <tokens of the expression>,
    (fmt)?, str_mid..., str_close."""
    toks = []
    i = 0
    n = len(text)
    line = 1
    col = 1
    # stack of scopes: 'curly' / 'string'
    scopes = []

    def inside_interp():
        return len(scopes) >= 2 and scopes[-1] == "curly" and scopes[-2] == "string"

    def consume_string(j):
        """from j (just after the opening quote or closing curly) to the char that ends the piece"""
        esc = False
        while j < n:
            c = text[j]
            if c == "\\" and not esc:
                esc = True
                j += 1
                continue
            if c == '"' and not esc:
                break
            if c in "{}":
                nxt = text[j + 1] if j + 1 < n else None
                if nxt != c:
                    break
                j += 2
                esc = False
                continue
            esc = False
            j += 1
        return j

    def adv(k):
        nonlocal i, line, col
        for _ in range(k):
            if text[i] == "\n":
                line += 1
                col = 1
            else:
                col += 1
            i += 1

    while i < n:
        c = text[i]
        if c == "#":
            while i < n and text[i] != "\n":
                adv(1)
            continue
        l0, c0 = line, col
        if c in " \t\r":
            adv(1)
            continue
        if c == "\n":
            toks.append(Tok("nl", "\n", l0, c0))
            adv(1)
            continue
        if c == '"':
            scopes.append("string")
            j = consume_string(i + 1)
            if j >= n:
                raise TokErr("unterminated string at %d:%d" % (l0, c0))
            raw = text[i + 1 : j]
            if text[j] == '"':
                scopes.pop()
                toks.append(Tok("str", text[i : j + 1], l0, c0, unescape(raw)))
                adv(j + 1 - i)
            elif text[j] == "{":
                scopes.append("curly")
                toks.append(Tok("str_open", text[i : j + 1], l0, c0, unescape(raw)))
                adv(j + 1 - i)
            else:
                raise TokErr("unterminated string at %d:%d" % (l0, c0))
            continue
        if c == "}" and inside_interp():
            scopes.pop()
            j = consume_string(i + 1)
            if j >= n:
                raise TokErr("unterminated string at %d:%d" % (l0, c0))
            raw = text[i + 1 : j]
            if text[j] == '"':
                scopes.pop()
                toks.append(Tok("str_close", text[i : j + 1], l0, c0, unescape(raw)))
            elif text[j] == "{":
                scopes.append("curly")
                toks.append(Tok("str_mid", text[i : j + 1], l0, c0, unescape(raw)))
            else:
                raise TokErr("unterminated string at %d:%d" % (l0, c0))
            adv(j + 1 - i)
            continue
        if c == ":" and inside_interp():
            j = i
            while j < n and text[j] not in '"}':
                j += 1
            toks.append(Tok("fmt", text[i:j], l0, c0))
            adv(j - i)
            continue
        if c == "{":
            if inside_interp():
                raise TokErr("unexpected { in interpolation at %d:%d" % (l0, c0))
            scopes.append("curly")
            toks.append(Tok("{", c, l0, c0))
            adv(1)
            continue
        if c == "}":
            if not scopes or scopes[-1] != "curly":
                raise TokErr("unexpected } at %d:%d" % (l0, c0))
            scopes.pop()
            toks.append(Tok("}", c, l0, c0))
            adv(1)
            continue
        if c in ASCII_DIGITS or (c == "." and i + 1 < n and text[i + 1] in ASCII_DIGITS):
            j = i
            if c == "0" and j + 1 < n and text[j + 1] in "xob":
                j += 2
                while j < n and (text[j].isalnum() or text[j] == "_") and text[j].isascii():
                    j += 1
            else:
                while j < n and (text[j] in ASCII_DIGITS or text[j] == "_"):
                    j += 1
                if j < n and text[j] == "." and not (j + 1 < n and text[j + 1] == "."):
                    # decimal point (also `1.` is a number)
                    if not (j + 1 < n and is_ident_start(text[j + 1]) and not text[j + 1] in ASCII_DIGITS and text[j + 1] not in "eE"):
                        j += 1
                        while j < n and (text[j] in ASCII_DIGITS or text[j] == "_"):
                            j += 1
                    elif j + 1 < n and text[j + 1] in "eE":
                        j += 1
                if j < n and text[j] in "eE":
                    k = j + 1
                    if k < n and text[k] in "+-":
                        k += 1
                    if k < n and text[k] in ASCII_DIGITS:
                        j = k
                        while j < n and (text[j] in ASCII_DIGITS or text[j] == "_"):
                            j += 1
            toks.append(Tok("num", text[i:j], l0, c0))
            adv(j - i)
            continue
        two = text[i : i + 2]
        three = text[i : i + 3]
        if three == "...":
            toks.append(Tok("op", "...", l0, c0))
            adv(3)
            continue
        if two in ("<=", ">=", "==", "!=", "&&", "||", "|>", "**", "->", "::"):
            toks.append(Tok("op", two, l0, c0))
            adv(2)
            continue
        if c in "()[],;@?.:":
            toks.append(Tok(c if c in "()[],;@" else "op", c, l0, c0))
            adv(1)
            continue
        if c in "<>+-*/^=!≤≥·⋅×÷⩵→➞−≠…":
            toks.append(Tok("op", c, l0, c0))
            adv(1)
            continue
        if c == "⁻" or c in EXPONENT_CHARS:
            j = i + 1
            if c == "⁻":
                j += 1
            toks.append(Tok("uexp", text[i:j], l0, c0))
            adv(j - i)
            continue
        if is_ident_start(c):
            j = i + 1
            while j < n and is_ident_continue(text[j]):
                j += 1
            word = text[i:j]
            toks.append(Tok("kw" if word in KEYWORDS else "ident", word, l0, c0))
            adv(j - i)
            continue
        raise TokErr("unexpected character %r at %d:%d" % (c, l0, c0))
    toks.append(Tok("eof", "", line, col))
    return toks


CONT_PREV = {"=", "+", "-", "*", "/", "^", "->", "→", "➞", "to", "per", "&&", "||", "==", "!=", "<", ">", "<=", ">=", "≤", "≥", "≠", "⩵",
             "then", "else", "if", ",", "(", "[", "{", "|>", "where", "and", ":", "×", "·", "⋅", "÷", "−", "**", "::", "str_open", "str_mid"}
STMT_START = {"let", "fn", "unit", "dimension", "struct", "use", "print", "assert", "assert_eq", "type"}
CONT_NEXT = {"then", "else", "where", "and", "|>", "->", "→", "➞", "to"}


def split_statements(toks):
    """Split the token list into statements (lists of tokens without newlines)."""
    stmts = []
    cur = []
    depth = 0
    i = 0
    n = len(toks)
    while i < n:
        t = toks[i]
        if t.kind == "eof":
            break
        if t.kind in ("(", "[", "{", "str_open"):
            depth += 1
        elif t.kind in (")", "]", "}", "str_close"):
            depth = max(0, depth - 1)
        if t.kind == "nl" or (t.kind == ";" and depth == 0):
            if t.kind == "nl" and depth > 0:
                i += 1
                continue
            if t.kind == "nl" and cur:
                prev = cur[-1]
                pk = prev.text if prev.kind in ("op", "kw", "(", "[", "{", ",") else prev.kind
                # decorators are followed by the decorated statement
                j = i
                while j < n and toks[j].kind == "nl":
                    j += 1
                nxt = toks[j] if j < n else None
                nk = nxt.text if nxt is not None and nxt.kind in ("op", "kw") else None
                starts_new = nxt is not None and (nxt.kind == "@" or (nxt.kind == "kw" and nxt.text in STMT_START))
                if is_decorator_only(cur) or (not starts_new and (pk in CONT_PREV or nk in CONT_NEXT)):
                    i += 1
                    continue
            if cur:
                stmts.append(cur)
                cur = []
            i += 1
            continue
        cur.append(t)
        i += 1
    if cur:
        stmts.append(cur)
    return stmts


def is_decorator_only(cur):
    """True if the tokens so far consist of complete decorators only (`@name(..)` ...)."""
    i = 0
    n = len(cur)
    if n == 0 or cur[0].kind != "@":
        return False
    while i < n:
        if cur[i].kind != "@":
            return False
        i += 1
        if i >= n:
            return True
        i += 1  # decorator name
        if i < n and cur[i].kind == "(":
            d = 0
            while i < n:
                if cur[i].kind == "(":
                    d += 1
                elif cur[i].kind == ")":
                    d -= 1
                    if d == 0:
                        i += 1
                        break
                i += 1
            else:
                return True
    return True


class Use:
    __slots__ = ("name", "ns", "line", "col", "ctx")

    def __init__(self, name, ns, line, col, ctx=""):
        self.name = name
        self.ns = ns  # 'value' | 'type'
        self.line = line
        self.col = col
        self.ctx = ctx


class Def:
    __slots__ = ("kind", "name", "line", "aliases", "metric", "binary", "params", "ret", "foreign", "examples", "decorators", "type_params", "has_type", "fields", "dim_bounded")

    def __init__(self, kind, name, line):
        self.kind = kind  # let | fn | unit | dimension | struct
        self.name = name
        self.line = line
        self.aliases = []  # [(alias, 'long'|'short'|'both'|'none')]
        self.metric = False
        self.binary = False
        self.params = []  # [(name, type tokens)]
        self.ret = None
        self.foreign = False
        self.examples = []  # [(code, description, line)]
        self.decorators = []
        self.type_params = []
        self.has_type = False
        self.fields = []
        self.dim_bounded = set()


class Module:
    def __init__(self, path, name, text):
        self.path = path
        self.name = name  # 'units::si'
        self.text = text
        self.imports = []  # [(module name, line)]
        self.defs = []
        self.uses = []  # free identifiers
        self.unclassified = 0
        self.statements = 0
        self.toks = tokenize(text)
        self._parse()

    # ---------------------------------------------------------------- statement level
    def _parse(self):
        for st in split_statements(self.toks):
            self.statements += 1
            try:
                self._statement(st)
            except (IndexError, StopIteration):
                self.unclassified += 1

    def _statement(self, st):
        i = 0
        decorators = []
        # decorators
        while i < len(st) and st[i].kind == "@":
            name = st[i + 1].text
            i += 2
            args = []
            if i < len(st) and st[i].kind == "(":
                d = 0
                j = i
                while j < len(st):
                    if st[j].kind == "(":
                        d += 1
                    elif st[j].kind == ")":
                        d -= 1
                        if d == 0:
                            break
                    j += 1
                args = st[i + 1 : j]
                i = j + 1
            decorators.append((name, args, st[i - 1].line))
        if i >= len(st):
            self.unclassified += 1
            return
        t = st[i]
        rest = st[i:]
        if t.kind == "kw" and t.text == "use":
            parts = [x.text for x in rest[1:] if x.kind in ("ident", "kw")]
            self.imports.append(("::".join(parts), t.line))
        elif t.kind == "kw" and t.text == "let":
            self._let(rest, decorators, scope=None)
        elif t.kind == "kw" and t.text == "fn":
            self._fn(rest, decorators)
        elif t.kind == "kw" and t.text == "unit":
            self._unit(rest, decorators)
        elif t.kind == "kw" and t.text == "dimension":
            d = Def("dimension", rest[1].text, t.line)
            self.defs.append(d)
            self._type_expr(rest[2:], set())
        elif t.kind == "kw" and t.text == "struct":
            self._struct(rest)
        else:
            self._expr(rest, set(), set())

    def _apply_decorators(self, d, decorators):
        for name, args, line in decorators:
            d.decorators.append(name)
            if name == "metric_prefixes":
                d.metric = True
            elif name == "binary_prefixes":
                d.binary = True
            elif name == "aliases":
                k = 0
                while k < len(args):
                    a = args[k]
                    if a.kind in ("ident", "kw"):
                        ap = None
                        if k + 2 < len(args) + 1 and k + 1 < len(args) and args[k + 1].text == ":":
                            ap = args[k + 2].text
                            k += 2
                        d.aliases.append((a.text, ap))
                    k += 1
            elif name == "example":
                strs = [a for a in args if a.kind == "str"]
                if strs:
                    d.examples.append((strs[0].value, strs[1].value if len(strs) > 1 else None, strs[0].line))
                else:
                    self.unclassified += 1

    def _split_top(self, toks, sep_texts):
        """index of the first token (depth 0) whose text is in sep_texts"""
        d = 0
        for k, t in enumerate(toks):
            if t.kind in ("(", "[", "{", "str_open"):
                d += 1
            elif t.kind in (")", "]", "}", "str_close"):
                d -= 1
            elif d == 0 and t.text in sep_texts and t.kind in ("op", "kw", ","):
                return k
        return None

    def _let(self, toks, decorators, scope, tparams=frozenset()):
        # let NAME (: type)? = expr
        name = toks[1]
        eq = self._split_top(toks, {"="})
        d = Def("let", name.text, name.line)
        self._apply_decorators(d, decorators)
        if eq is None:
            self.unclassified += 1
            return d
        if toks[2].text == ":":
            d.has_type = True
            self._type_expr(toks[3:eq], set(tparams))
        if scope is None:
            self.defs.append(d)
            self._expr(toks[eq + 1 :], set(), set())
        else:
            self._expr(toks[eq + 1 :], scope, set(tparams))
        return d

    def _angle_params(self, toks, i):
        """parse `<T: Dim, U>` at toks[i] == '<'; returns (names, next index); Dim-bounded names in self._bounded"""
        names = []
        self._bounded = set()
        if i < len(toks) and toks[i].text == "<":
            j = i + 1
            while j < len(toks) and toks[j].text != ">":
                if toks[j].kind == "ident" and toks[j - 1].text in ("<", ","):
                    names.append(toks[j].text)
                    if j + 2 < len(toks) and toks[j + 1].text == ":" and toks[j + 2].text == "Dim":
                        self._bounded.add(toks[j].text)
                j += 1
            return names, j + 1
        return names, i

    def _fn(self, toks, decorators):
        name = toks[1]
        d = Def("fn", name.text, name.line)
        self._apply_decorators(d, decorators)
        self.defs.append(d)
        i = 2
        tparams, i = self._angle_params(toks, i)
        d.type_params = tparams
        d.dim_bounded = set(self._bounded)
        if i >= len(toks) or toks[i].kind != "(":
            self.unclassified += 1
            return
        # parameter list
        depth = 0
        j = i
        while j < len(toks):
            if toks[j].kind == "(":
                depth += 1
            elif toks[j].kind == ")":
                depth -= 1
                if depth == 0:
                    break
            j += 1
        ptoks = toks[i + 1 : j]
        params = []
        cur = []
        dd = 0
        for t in ptoks + [Tok(",", ",", 0, 0)]:
            if t.kind in ("(", "[") or t.text == "<":
                dd += 1
            elif t.kind in (")", "]") or t.text == ">":
                dd -= 1
            if t.kind == "," and dd == 0:
                if cur:
                    pname = cur[0].text
                    ptype = cur[2:] if len(cur) > 1 and cur[1].text == ":" else []
                    params.append((pname, ptype))
                    self._type_expr(ptype, set(tparams))
                cur = []
            else:
                cur.append(t)
        d.params = params
        i = j + 1
        rest = toks[i:]
        eq = self._split_top(rest, {"="})
        sig = rest[:eq] if eq is not None else rest
        if sig and sig[0].text in ("->", "→", "➞"):
            d.ret = sig[1:]
            self._type_expr(sig[1:], set(tparams))
        if eq is None:
            d.foreign = True
            return
        body = rest[eq + 1 :]
        # where-clauses
        w = self._split_top(body, {"where"})
        locals_ = {p for p, _ in params}
        if w is not None:
            expr = body[:w]
            clauses = []
            cur = []
            dd = 0
            for t in body[w + 1 :]:
                if t.kind in ("(", "[", "{", "str_open"):
                    dd += 1
                elif t.kind in (")", "]", "}", "str_close"):
                    dd -= 1
                if dd == 0 and t.kind == "kw" and t.text == "and":
                    clauses.append(cur)
                    cur = []
                else:
                    cur.append(t)
            if cur:
                clauses.append(cur)
            for c in clauses:
                if c and c[0].kind == "ident":
                    locals_.add(c[0].text)
            for c in clauses:
                fake = [Tok("kw", "let", c[0].line, c[0].col)] + c
                self._let(fake, [], scope=locals_, tparams=frozenset(tparams))
            self._expr(expr, locals_, set(tparams))
        else:
            self._expr(body, locals_, set(tparams))

    def _unit(self, toks, decorators):
        name = toks[1]
        d = Def("unit", name.text, name.line)
        self._apply_decorators(d, decorators)
        self.defs.append(d)
        eq = self._split_top(toks, {"="})
        end = eq if eq is not None else len(toks)
        if len(toks) > 2 and toks[2].text == ":":
            d.has_type = True
            self._type_expr(toks[3:end], set())
        if eq is not None:
            self._expr(toks[eq + 1 :], set(), set())
        else:
            d.foreign = True  # base unit

    def _struct(self, toks):
        name = toks[1]
        d = Def("struct", name.text, name.line)
        self.defs.append(d)
        i = 2
        tparams, i = self._angle_params(toks, i)
        d.type_params = tparams
        # fields: ident ':' type (',' ...)
        if i < len(toks) and toks[i].kind == "{":
            inner = toks[i + 1 : -1] if toks[-1].kind == "}" else toks[i + 1 :]
            cur = []
            dd = 0
            for t in inner + [Tok(",", ",", 0, 0)]:
                if t.kind in ("(", "[") or t.text == "<":
                    dd += 1
                elif t.kind in (")", "]") or t.text == ">":
                    dd -= 1
                if t.kind == "," and dd == 0:
                    if len(cur) >= 3:
                        d.fields.append(cur[0].text)
                        self._type_expr(cur[2:], set(tparams))
                    cur = []
                else:
                    cur.append(t)

    # ---------------------------------------------------------------- expression level
    def _type_expr(self, toks, tparams):
        for t in toks:
            if t.kind == "ident":
                if t.text in tparams or t.text == "Dim":
                    continue
                self.uses.append(Use(t.text, "type", t.line, t.col))

    def _expr(self, toks, locals_, tparams):
        n = len(toks)
        k = 0
        while k < n:
            t = toks[k]
            if t.kind == "ident":
                prev = toks[k - 1] if k > 0 else None
                nxt = toks[k + 1] if k + 1 < n else None
                if prev is not None and prev.text == "." and prev.kind == "op":
                    k += 1
                    continue  # field access
                if nxt is not None and nxt.kind == "{":
                    # struct instantiation: Name { field: expr, ... }
                    self.uses.append(Use(t.text, "type", t.line, t.col, "struct-literal"))
                    # mark field names: ident followed by ':' at depth 1
                    d = 0
                    j = k + 1
                    fields = set()
                    while j < n:
                        if toks[j].kind in ("{",):
                            d += 1
                        elif toks[j].kind == "}":
                            d -= 1
                            if d == 0:
                                break
                        elif d == 1 and toks[j].kind == "ident" and j + 1 < n and toks[j + 1].text == ":" and toks[j - 1].kind in ("{", ","):
                            fields.add(j)
                        j += 1
                    self._skip = getattr(self, "_skip", set()) | {id(toks[x]) for x in fields}
                    k += 1
                    continue
                if id(t) in getattr(self, "_skip", set()):
                    k += 1
                    continue
                if t.text in locals_:
                    k += 1
                    continue
                self.uses.append(Use(t.text, "value", t.line, t.col))
            k += 1


class Library:
    """All modules under a directory."""

    def __init__(self, root):
        self.root = root
        self.modules = {}
        self.errors = []
        for dirpath, dirs, files in os.walk(root):
            dirs.sort()
            for f in sorted(files):
                if not f.endswith(".nbt"):
                    continue
                p = os.path.join(dirpath, f)
                rel = os.path.relpath(p, root)[:-4]
                name = rel.replace(os.sep, "::")
                with open(p, encoding="utf-8") as fh:
                    text = fh.read()
                try:
                    self.modules[name] = Module(p, name, text)
                except TokErr as e:
                    self.errors.append((name, str(e)))

    def closure(self, names):
        """transitive import closure (list, depth-first in import order, like Resolver::inlining_pass)"""
        seen = []

        def rec(n):
            if n in seen or n not in self.modules:
                return
            seen.append(n)
            for imp, _ in self.modules[n].imports:
                rec(imp)

        for n in names:
            rec(n)
        return seen
