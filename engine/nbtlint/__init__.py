"""nbtlint — an independent front end for Numbat source (*.nbt), written from the grammar documented at
the top of numbat/src/parser.rs and the character classes of tokenizer.rs.  It extracts name-level
facts only (definitions, imports, unit aliases and prefix policies, foreign declarations, free
identifiers with positions, @example snippets).  Numbat's own parser is deliberately not used: that
would be running the system under test.
"""
from .front import Library, Module, tokenize, TokErr  # noqa: F401
