#!/usr/bin/env python3
"""Entry point: ./check <Cxx> [--tier quick|thorough] | --show <report> | --list

Runs the static rules registered for a property against /repo's current working
tree, filters known findings (exact key match), writes evidence/<id>.json and
reports/<id>-<n>.json, prints VIOLATION / KNOWN-FINDING lines.
Exit 0: property held on everything analysed. Exit 1: violation. Exit 2: usage.
"""
import json
import os
import sys
import time
import traceback

HERE = os.path.dirname(os.path.abspath(__file__))
VERIF = os.path.dirname(HERE)
sys.path.insert(0, HERE)
sys.path.insert(0, os.path.join(HERE, "rules"))

import facts  # noqa: E402
from core import RuleOut  # noqa: E402
from hirlib import AnchorMissing, Crate  # noqa: E402


class Ctx:
    """Lazy access to the facts of the current tree."""

    def __init__(self, tier, repo=None, config="default"):
        self.tier = tier
        self.repo = repo
        self.config = config
        self._crates = {}
        self._nbt = None
        self.configs_used = set()
        self.cache_hits = {}

    def crate(self, name="numbat-lib", config=None):
        config = config or self.config
        if name == "numbat-bin":
            config = "default"  # the CLI crate is only built in the default configuration
        key = (name, config)
        if key not in self._crates:
            doc = facts.load(name, config, self.repo)
            self.configs_used.add(config)
            self.cache_hits["%s/%s" % (name, config)] = bool(doc.get("_cache_hit"))
            self._crates[key] = Crate(doc)
        return self._crates[key]

    @property
    def lib(self):
        return self.crate("numbat-lib")

    @property
    def bin(self):
        return self.crate("numbat-bin")

    @property
    def nbt(self):
        if self._nbt is None:
            import nbtlint

            self._nbt = nbtlint.Library(os.path.join(self.repo or facts.REPO, "numbat", "modules"))
        return self._nbt


def load_known():
    p = os.path.join(VERIF, "known_findings.json")
    if not os.path.exists(p):
        return []
    with open(p) as f:
        return json.load(f)["findings"]


def run_property(pid, tier, seed):
    import registry

    t0 = time.time()
    if pid not in registry.PROPERTIES:
        print("unknown or not-applicable property: %s" % pid)
        return 2
    spec = registry.PROPERTIES[pid]
    ctx = Ctx(tier)
    outs = []
    fatal = []
    for rule_name, fn in spec["rules"]:
        if tier == "quick" and getattr(fn, "thorough_only", False):
            continue
        try:
            res = fn(ctx)
            if isinstance(res, RuleOut):
                res = [res]
            outs.extend(res)
        except AnchorMissing as e:
            o = RuleOut(rule_name)
            o.error("anchor missing: %s" % e)
            outs.append(o)
        except SystemExit:
            raise
        except Exception as e:  # a crashing rule must not pass
            o = RuleOut(rule_name)
            o.error("rule crashed: %s\n%s" % (e, traceback.format_exc()[-1500:]))
            outs.append(o)

    selftest = None
    if tier == "thorough":
        import selftest as _st

        selftest = _st.run(pid, spec)
        for msg in selftest.get("errors", []):
            o = RuleOut("SELFTEST")
            o.error(msg)
            outs.append(o)

    extra_cfg = None
    if tier == "thorough":
        # cfg twins: the same rules over the --no-default-features build of the library (plotting and
        # exchange-rate fetching compiled out, their `#[cfg(not(feature))]` twins compiled in)
        extra_cfg = {"config": "nodefault", "rules": 0, "instances": 0, "new_violations": 0}
        ctx2 = Ctx(tier, config="nodefault")
        seen_keys = {f.key for o in outs for f in o.findings}
        for rule_name, fn in spec["rules"]:
            if rule_name.endswith(".control"):
                continue
            o2 = RuleOut(rule_name + "@nodefault")
            try:
                res = fn(ctx2)
                if isinstance(res, RuleOut):
                    res = [res]
                extra_cfg["rules"] += 1
                for r in res:
                    extra_cfg["instances"] += len(r.findings)
                    for f in r.findings:
                        if f.verdict == "violation" and f.key not in seen_keys:
                            o2.findings.append(f)
                            extra_cfg["new_violations"] += 1
                    for msg in r.errors:
                        o2.error("[nodefault] " + msg)
                    for (name, actual, minimum) in r.floors:
                        if actual < minimum:
                            o2.error("[nodefault] floor `%s`: %s < %s" % (name, actual, minimum))
            except AnchorMissing as e:
                o2.error("[nodefault] anchor missing: %s" % e)
            except Exception as e:
                o2.error("[nodefault] rule crashed: %s" % e)
            if o2.findings or o2.errors:
                outs.append(o2)

    known = [k for k in load_known() if k["property"] == pid]
    known_keys = {k["key"]: k for k in known if k.get("status") == "known"}

    violations = []
    known_hits = []
    n_oblig = n_ok = n_adv = n_exempt = 0
    samples = []
    distinct = set()
    for o in outs:
        for f in o.findings:
            if f.verdict in ("ok", "violation"):
                n_oblig += 1
            if f.verdict == "ok":
                n_ok += 1
                distinct.add(f.key)
            elif f.verdict == "advisory":
                n_adv += 1
            elif f.verdict == "exempt":
                n_exempt += 1
            elif f.verdict == "violation":
                distinct.add(f.key)
                if f.key in known_keys:
                    known_hits.append((f, known_keys[f.key]))
                else:
                    violations.append(f)
        for msg in o.errors:
            fatal.append((o.rule, msg))
        for (name, actual, minimum) in o.floors:
            if actual < minimum:
                fatal.append(
                    (o.rule, "floor `%s`: analysed %s instances, at least %s were confirmed by hand — the rule lost its anchors" % (name, actual, minimum))
                )

    # samples: a few ok instances per rule + every non-ok instance
    for o in outs:
        oks = [f for f in o.findings if f.verdict == "ok"][:3]
        others = [f for f in o.findings if f.verdict != "ok"][:12]
        for f in oks + others:
            samples.append(f.to_json())

    os.makedirs(os.path.join(VERIF, "reports"), exist_ok=True)
    os.makedirs(os.path.join(VERIF, "evidence"), exist_ok=True)
    for old in os.listdir(os.path.join(VERIF, "reports")):
        if old.startswith(pid + "-"):
            os.remove(os.path.join(VERIF, "reports", old))
    lines = []
    n = 0
    for f in violations:
        n += 1
        path = os.path.join(VERIF, "reports", "%s-%d.json" % (pid, n))
        with open(path, "w") as fh:
            json.dump({"property": pid, "kind": "violation", **f.to_json()}, fh, indent=1)
        lines.append("VIOLATION property=%s replay=%s" % (pid, path))
        lines.append("  %s at %s:%s — %s" % (f.key, f.file, f.line, f.detail[:600]))
    for (rule, msg) in fatal:
        n += 1
        path = os.path.join(VERIF, "reports", "%s-%d.json" % (pid, n))
        with open(path, "w") as fh:
            json.dump({"property": pid, "kind": "checker-fail-closed", "rule": rule, "detail": msg}, fh, indent=1)
        lines.append("VIOLATION property=%s replay=%s" % (pid, path))
        lines.append("  [%s] %s" % (rule, msg[:1200]))
    for (f, k) in known_hits:
        lines.append("KNOWN-FINDING: property=%s %s — %s" % (pid, f.key, k.get("what", "")))

    wall = time.time() - t0
    lib = ctx._crates.get(("numbat-lib", "default"))
    coverage = {
        "explanation": spec["explanation"],
        "rule": "one obligation per rule instance (see `rules`); an instance is non-trivial when the rule actually had to inspect a code site for it (ok or violation), exempt rows and advisories are not counted",
        "obligations": n_oblig,
        "discharged": n_ok,
        "evaluations": n_oblig + n_adv + n_exempt,
        "distinct_nontrivial": len(distinct),
        "exempt_rows": n_exempt,
        "advisories": n_adv,
        "known_findings": [f.key for (f, k) in known_hits],
        "rules": [
            {
                "rule": o.rule,
                "clause": o.clause,
                "instances": len(o.findings),
                "ok": o.count("ok"),
                "violations": o.count("violation"),
                "exempt": o.count("exempt"),
                "advisory": o.count("advisory"),
                "analysed": o.analysed,
                "floors": [{"name": a, "actual": b, "min": c} for (a, b, c) in o.floors],
                "errors": o.errors,
            }
            for o in outs
        ],
        "samples": samples[:60],
        "configs": sorted(ctx.configs_used),
        "fact_cache": ctx.cache_hits,
        "tree_hash": facts.tree_hash(),
        "exhaustive": True,
    }
    if selftest is not None:
        coverage["seeded_variants"] = selftest["variants"]
        coverage["seeded_fired"] = selftest["fired"]
        coverage["seeded_skipped"] = selftest["skipped"]
        coverage["seeded_detail"] = selftest["detail"]
        coverage["benign_variants"] = selftest.get("benign_variants", 0)
        coverage["benign_silent"] = selftest.get("benign_silent", 0)
        coverage["extra_configs"] = [extra_cfg] if extra_cfg else []
    if lib is not None:
        coverage["functions_analysed"] = len(lib.doc["hir"])
        coverage["mir_bodies"] = len(lib.doc["mir"])
    evidence = {
        "property_id": pid,
        "tier": tier,
        "seed": seed,
        "level": "other",
        "coverage": coverage,
        "assumptions": spec.get("assumptions", []),
        "wall_s": round(wall, 2),
        "violations": len(violations) + len(fatal),
    }
    with open(os.path.join(VERIF, "evidence", "%s.json" % pid), "w") as fh:
        json.dump(evidence, fh, indent=1)

    for o in outs:
        print(
            "[%s] %s: %d instances (%d ok, %d violation, %d exempt, %d advisory) %s"
            % (pid, o.rule, len(o.findings), o.count("ok"), o.count("violation"), o.count("exempt"), o.count("advisory"),
               json.dumps({k: v for k, v in o.analysed.items() if not isinstance(v, (dict, list))}))
        )
    for l in lines:
        print(l)
    if violations or fatal:
        return 1
    print("%s: held on everything analysed (%d obligations, %d known findings, %.1fs)" % (pid, n_oblig, len(known_hits), wall))
    return 0


def main(argv):
    if len(argv) >= 2 and argv[0] == "--show":
        with open(argv[1]) as f:
            print(json.dumps(json.load(f), indent=2))
        return 0
    if argv and argv[0] == "--list":
        import registry

        for k in sorted(registry.PROPERTIES):
            print(k, [r for r, _ in registry.PROPERTIES[k]["rules"]])
        return 0
    if not argv:
        print(__doc__)
        return 2
    pid = argv[0]
    tier = os.environ.get("VERIF_TIER", "quick")
    if "--tier" in argv:
        tier = argv[argv.index("--tier") + 1]
    if tier not in ("quick", "thorough"):
        tier = "quick"
    try:
        seed = int(os.environ.get("VERIF_SEED", "0"))
    except ValueError:
        seed = 0
    return run_property(pid, tier, seed)


if __name__ == "__main__":
    sys.exit(main(sys.argv[1:]))
